import importlib
import os
import sys
import time


def setup():
    """Regenerate every translated Lean source from /repo and build the whole Lean project."""
    from harness.common import leanrun
    t = time.time()
    props = sorted(f[:-3] for f in os.listdir(os.path.join(leanrun.VERIF, "harness", "props"))
                   if f.startswith("c") and f.endswith(".py"))
    for p in props:
        mod = importlib.import_module("harness.props." + p)
        for tr in getattr(mod, "TRANSLATORS", []):
            tr()
    drivers = leanrun.write_lakefile()
    ok, log = leanrun.lake_build(["LunaVerif"] + ["drv_" + d.lower() for d in drivers])
    print(log[-3000:])
    hy = leanrun.hygiene()
    if hy:
        print("forbidden constructs:", hy)
        return 1
    print("setup %s in %.0fs" % ("ok" if ok else "FAILED", time.time() - t))
    return 0 if ok else 1


def main():
    args = sys.argv[1:]
    if not args:
        print(__doc__ or "usage: ./check Cxx [--tier quick|thorough] [--replay f] | --setup")
        return 2
    if args[0] == "--setup":
        return setup()
    if args[0] == "--lakefile":
        from harness.common import leanrun
        print(leanrun.write_lakefile())
        return 0
    if args[0] == "--manifest":
        from harness import manifest
        return manifest.main()
    prop = args[0].upper()
    try:
        mod = importlib.import_module("harness.props." + prop.lower())
    except ModuleNotFoundError as e:
        if e.name != "harness.props." + prop.lower():
            raise
        print("no check for", prop)
        return 2
    from harness.common import framework
    try:
        return framework.main(mod, args[1:])
    except SystemExit:
        raise
    except BaseException:
        import traceback
        traceback.print_exc()
        print("INFRASTRUCTURE ERROR (exit 2, not a violation)")
        return 2


if __name__ == "__main__":
    sys.exit(main())
