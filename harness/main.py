import importlib
import os
import sys
import time


def setup():
    """Regenerate every translated Lean source from /repo and build the whole Lean project.
    One property's broken file must not take the others down: after the global build attempt each
    property's own targets are built separately and the result is listed."""
    from harness.common import leanrun
    t = time.time()
    props = sorted(f[:-3] for f in os.listdir(os.path.join(leanrun.VERIF, "harness", "props"))
                   if f.startswith("c") and f[1:3].isdigit() and f.endswith(".py"))
    mods = {}
    for p in props:
        try:
            mod = importlib.import_module("harness.props." + p)
        except Exception as e:
            print("cannot import harness.props.%s: %s" % (p, e))
            continue
        mods[p] = mod
        for tr in getattr(mod, "TRANSLATORS", []):
            try:
                tr()
            except Exception as e:
                print("translator of %s failed: %s" % (p, e))
    drivers = leanrun.write_lakefile()
    ok, log = leanrun.lake_build(["LunaVerif"] + ["drv_" + d.lower() for d in drivers])
    print(log[-2000:])
    good = 0
    for p, mod in sorted(mods.items()):
        tg = list(getattr(mod, "LEAN_MODULES", []))
        if getattr(mod, "DRIVER", None):
            tg.append(leanrun.exe_name(mod.DRIVER))
        pok, plog = leanrun.lake_build(tg) if not ok else (True, "")
        good += pok
        if not pok:
            print("setup: targets of %s do NOT build:\n%s" % (p.upper(), plog[-1500:]))
    print("setup: %d/%d properties build, %.0fs" % (good, len(mods), time.time() - t))
    return 0 if (good or not mods) else 1


def main():
    args = sys.argv[1:]
    if not args:
        print(__doc__ or "usage: ./check Cxx [--tier quick|thorough] [--replay f] | --setup")
        return 2
    if args[0] == "--setup":
        return setup()
    if args[0] == "--lakefile":
        from harness.common import leanrun
        print(leanrun.write_lakefile())
        return 0
    if args[0] == "--manifest":
        from harness import manifest
        return manifest.main()
    prop = args[0].upper()
    try:
        mod = importlib.import_module("harness.props." + prop.lower())
    except ModuleNotFoundError as e:
        if e.name != "harness.props." + prop.lower():
            raise
        print("no check for", prop)
        return 2
    from harness.common import framework
    try:
        return framework.main(mod, args[1:])
    except SystemExit:
        raise
    except BaseException:
        import traceback
        traceback.print_exc()
        print("INFRASTRUCTURE ERROR (exit 2, not a violation)")
        return 2


if __name__ == "__main__":
    sys.exit(main())
