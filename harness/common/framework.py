"""The part of a check that is the same for every property.

A property module (harness/props/cXX.py) provides

    PROP          = "C55"
    LEAN_MODULES  = ["LunaVerif.Props.C55"]      # built and audited: every theorem in them is an obligation
    DRIVER        = "Driver/C55.lean"            # line-protocol driver of the Lean model (or None)
    TRANSLATORS   = [callable, …]                # optional: regenerate Lean sources from /repo
    def gen_cases(tier, rng)  -> [desc]          # JSON-able case descriptions (configuration + seed)
    def run_case(desc)        -> Case            # runs the REAL gateware (+ the property monitor)
    def proof_search(tier, rng, broken) -> [failure]   # optional: failing-input search when an obligation breaks
    KNOWN_SIGS    = {sig: text}                  # optional

`Case` carries the per-cycle inputs, the outputs observed on the real gateware (None = don't care),
and the failures of the property monitor on that real trace.  The framework pipes the inputs
through the Lean model driver, diffs, and decides:

  monitor failure (not a listed known finding)      -> VIOLATION with the failing input as replay
  proof obligation broken or correspondence differs -> widened failing-input search on the real code;
                                                       VIOLATION either way, `no-failing-input-found`
                                                       when the search finds nothing
"""
import hashlib
import json
import multiprocessing
import os
import sys
import time
import traceback

from . import leanrun
from .rng import Rng

VERIF = leanrun.VERIF
# evidence/ describes runs against /repo only: a self-test run against a scratch worktree (LUNA_VERIF_REPO, used
# by tools/seedtest.py) writes its evidence next to the replays instead of overwriting the registered run's file
EVIDENCE = os.path.join(VERIF, "evidence" if os.environ.get("LUNA_VERIF_REPO", "/repo") == "/repo"
                        else os.path.join("replays", "selftest-evidence"))
REPLAYS = os.path.join(VERIF, "replays")
CORPUS = os.path.join(VERIF, "corpus")
FINDINGS = os.path.join(VERIF, "KNOWN_FINDINGS.jsonl")
NPROC = int(os.environ.get("VERIF_JOBS", "0")) or min(16, os.cpu_count() or 1)

TRUSTED_BASE = [
    "Lean 4.33.0 kernel (theorems audited with collectAxioms: subset of propext, Classical.choice, Quot.sound)",
    "no sorry/admit/axiom/native_decide/bv_decide/implemented_by/unsafe in lean/ (grep on every run)",
    "correspondence check: differential co-simulation of the Lean model against the real gateware "
    "from /repo under amaranth.sim (agreement shown on the generated histories only)",
    "Amaranth 0.5.9 Python simulator taken as the semantics of the gateware",
    "translators (harness/translate) trusted to print what the repo's Python objects contain",
]


class Case:
    def __init__(self, cfg, inputs, outputs, failures=(), tags=(), desc=None, names_in=(), names_out=(),
                 lean=True):
        self.cfg = list(cfg)
        self.inputs = [list(r) for r in inputs]
        self.outputs = [list(r) for r in outputs]
        self.failures = list(failures)
        self.tags = list(tags)
        self.desc = desc or {}
        self.names_in = list(names_in)
        self.names_out = list(names_out)
        self.lean = lean      # False: monitor-only case (no model comparison)


def _fmt_row(r):
    return " ".join(str(int(v)) for v in r)


def _nontrivial(case):
    """A case is non-trivial if some compared output changes during the trace."""
    seen = {}
    for row in case.outputs:
        for i, v in enumerate(row):
            if v is None:
                continue
            if i in seen and seen[i] != v:
                return True
            seen.setdefault(i, v)
    return False


def _raised_in_dut(exc):
    """True when the exception was raised while code of the library under test was executing (the
    innermost frame that belongs to neither the interpreter's own libraries nor third-party packages is
    a file of /repo's `luna` package) - e.g. an elaboration error for a configuration the property
    quantifies over.  An exception whose innermost such frame is harness code (wrong call of a changed
    API, a bug of ours) is an infrastructure error instead."""
    try:
        from . import sim
        root = os.path.realpath(sim.REPO) + os.sep
    except Exception:
        return False
    tb = exc.__traceback__
    own = None
    while tb is not None:
        fn = os.path.realpath(tb.tb_frame.f_code.co_filename)
        if fn.startswith(root):
            own = "dut"
        elif fn.startswith(os.path.realpath(VERIF) + os.sep):
            own = "harness"
        tb = tb.tb_next
    return own == "dut"


def _worker(args):
    modname, descs, want_trace = args
    mod = __import__(modname, fromlist=["x"])
    res = []
    cases = []
    for d in descs:
        t = time.time()
        try:
            c = mod.run_case(d)
        except Exception as e:
            res.append({"desc": d, "error": traceback.format_exc(), "in_dut": _raised_in_dut(e)})
            cases.append(None)
            continue
        cases.append(c)
        h = hashlib.sha256((repr(c.cfg) + repr(c.inputs)).encode()).hexdigest()[:16]
        res.append({"desc": d, "cycles": len(c.inputs), "failures": c.failures, "tags": c.tags, "hash": h,
                    "nontrivial": _nontrivial(c), "wall": time.time() - t, "disagree": None,
                    "compared": 0})
    driver = getattr(mod, "DRIVER", None)
    live = [(i, c) for i, c in enumerate(cases) if c is not None and c.lean and driver]
    if live:
        lines = []
        for _, c in live:
            lines.append("# " + _fmt_row(c.cfg))
            lines.extend(_fmt_row(r) for r in c.inputs)
        try:
            out = leanrun.run_driver(driver, "\n".join(lines) + "\n")
        except Exception:
            for i, _ in live:
                res[i]["error"] = "lean driver: " + traceback.format_exc()
            out = None
        if out is not None:
            pos = 0
            for i, c in live:
                pos += 1  # '#'
                got = out[pos:pos + len(c.inputs)]
                pos += len(c.inputs)
                if len(got) != len(c.inputs):
                    res[i]["error"] = "lean driver produced %d lines for %d cycles" % (len(got), len(c.inputs))
                    continue
                dis = None
                ncmp = 0
                for t, (exp, g) in enumerate(zip(c.outputs, got)):
                    gv = g.split()
                    for k, e in enumerate(exp):
                        if e is None:
                            continue
                        ncmp += 1
                        gk = int(gv[k]) if k < len(gv) else None
                        if gk != e:
                            dis = {"cycle": t, "port": c.names_out[k] if k < len(c.names_out) else k,
                                   "gateware": e, "model": gk}
                            break
                    if dis:
                        break
                res[i]["compared"] = ncmp
                res[i]["disagree"] = dis
    for i, c in enumerate(cases):
        if c is None:
            continue
        bad = res[i]["failures"] or res[i]["disagree"] or res[i].get("error")
        if bad or want_trace:
            last = len(c.inputs)
            cyc = [f.get("cycle") for f in res[i]["failures"] if isinstance(f.get("cycle"), int)]
            if res[i]["disagree"]:
                cyc.append(res[i]["disagree"]["cycle"])
            if cyc:
                last = min(len(c.inputs), max(min(cyc) + 8, 1))
            res[i]["trace"] = {"cfg": c.cfg, "names_in": c.names_in, "names_out": c.names_out,
                               "inputs": c.inputs[:last], "outputs": c.outputs[:last]}
    return res


def _chunks(xs, n):
    k = max(1, (len(xs) + n - 1) // n)
    return [xs[i:i + k] for i in range(0, len(xs), k)]


def run_cases(mod, descs, want_trace_first=True, nproc=None):
    nproc = nproc or NPROC
    if not descs:
        return []
    # interleave so that every worker gets a mix of cheap and expensive cases
    buckets = [descs[i::nproc] for i in range(nproc)]
    buckets = [b for b in buckets if b]
    jobs = [(mod.__name__, b, want_trace_first and k == 0) for k, b in enumerate(buckets)]
    if len(jobs) == 1:
        parts = [_worker(jobs[0])]
    else:
        ctx = multiprocessing.get_context("fork")
        with ctx.Pool(len(jobs)) as pool:
            parts = pool.map(_worker, jobs)
    out = []
    for p in parts:
        out.extend(p)
    return out


def load_findings(prop):
    known, fixed = [], []
    if os.path.exists(FINDINGS):
        for line in open(FINDINGS):
            line = line.strip()
            if not line or line.startswith("//"):
                continue
            e = json.loads(line)
            if e.get("property") != prop:
                continue
            (known if e.get("status") == "known" else fixed).append(e)
    return known, fixed


def load_corpus(prop):
    d = os.path.join(CORPUS, prop.lower())
    out = []
    if os.path.isdir(d):
        for fn in sorted(os.listdir(d)):
            if fn.endswith(".json"):
                j = json.load(open(os.path.join(d, fn)))
                desc = j.get("desc", j)
                desc["corpus"] = fn
                out.append(desc)
    return out


def write_replay(prop, seed, kind, payload):
    os.makedirs(REPLAYS, exist_ok=True)
    path = os.path.join(REPLAYS, "%s-%s-seed%d-%d.json" % (prop, kind, seed, os.getpid()))
    payload = dict(payload)
    payload.update({"property": prop, "kind": kind, "seed": seed})
    with open(path, "w") as f:
        json.dump(payload, f, indent=1, default=str)
    return os.path.relpath(path, VERIF)


def _desc_with_trace(r):
    d = dict(r["desc"])
    if "trace" in r:
        d["stimulus"] = r["trace"]["inputs"]
    return d


def prove(mod, tag):
    """Translators + lake build + audit + hygiene.  Returns a dict describing the proof status."""
    st = {"obligations": [], "discharged": [], "broken": [], "log": "", "generated": [], "axioms": {}}
    for tr in getattr(mod, "TRANSLATORS", []):
        try:
            st["generated"].extend(tr() or [])
        except Exception:
            st["broken"].append({"what": "translator %s failed" % getattr(tr, "__name__", tr),
                                 "detail": traceback.format_exc()[-3000:]})
    mods = list(getattr(mod, "LEAN_MODULES", []))
    extra = [leanrun.exe_name(mod.DRIVER)] if getattr(mod, "DRIVER", None) else []
    ok, log = leanrun.lake_build(mods + extra)
    st["build_ok"] = ok
    st["checker_cmd"] = "cd lean && lake build " + " ".join(mods) + " && lean <audit: collectAxioms on every theorem>"
    if not ok:
        st["log"] = log[-6000:]
        # find which modules still build, to name the broken obligations
        st["broken"].append({"what": "lake build failed", "detail": _errors_of(log)})
    hy = leanrun.hygiene(mods + ([os.path.join(leanrun.LEAN, mod.DRIVER)] if getattr(mod, "DRIVER", None) else []))
    st["hygiene"] = hy
    if hy:
        st["broken"].append({"what": "forbidden construct in Lean sources", "detail": hy[:20]})
    if ok and mods:
        ax, rc, alog = leanrun.audit(mods, tag)
        st["axioms"] = ax
        if rc != 0:
            st["broken"].append({"what": "axiom audit failed to run", "detail": alog[-3000:]})
        for thm, axs in sorted(ax.items()):
            st["obligations"].append(thm)
            if set(axs) <= leanrun.ALLOWED_AXIOMS:
                st["discharged"].append(thm)
            else:
                st["broken"].append({"what": "theorem %s depends on axioms %s" % (thm, axs)})
        expected = getattr(mod, "REQUIRED_THEOREMS", [])
        for t in expected:
            if not any(o == t or o.endswith("." + t) for o in st["obligations"]):
                st["obligations"].append(t)
                st["broken"].append({"what": "required theorem %s is missing" % t})
    elif mods:
        # count the obligations textually so that the evidence shows what failed
        st["obligations"] = list(getattr(mod, "REQUIRED_THEOREMS", [])) or ["<build failed>"]
    return st


def _errors_of(log):
    lines = log.splitlines()
    out = []
    for i, l in enumerate(lines):
        if l.startswith("error:") or " error: " in l:
            out.append("\n".join(lines[i:i + 6]))
    return out[:8] or [log[-1500:]]


def _watchdog(seconds):
    """A check that runs away is an infrastructure problem (exit 2), never a verdict."""
    import signal

    def _bye(*_a):
        print("TIMEOUT: check exceeded its %d s budget (exit 2, not a violation)" % seconds)
        sys.stdout.flush()
        os._exit(2)
    signal.signal(signal.SIGALRM, _bye)
    signal.alarm(seconds)


def main(mod, argv=None):
    import argparse
    ap = argparse.ArgumentParser()
    ap.add_argument("--tier", default=os.environ.get("VERIF_TIER", "quick"))
    ap.add_argument("--replay")
    ap.add_argument("--jobs", type=int, default=0)
    a = ap.parse_args(argv)
    tier = a.tier if a.tier in ("quick", "thorough") else "quick"
    seed = int(os.environ.get("VERIF_SEED", "0") or 0)
    prop = mod.PROP
    t0 = time.time()
    _watchdog(3000 if tier == "quick" else 4 * 3600)
    if a.replay:
        return replay(mod, a.replay)

    known, fixed = load_findings(prop)
    known_sigs = {e["sig"]: e for e in known}

    proof = prove(mod, prop)

    if tier == "thorough" and proof.get("build_ok") and getattr(mod, "LEAN_MODULES", []):
        try:
            ok, log, secs = leanrun.leanchecker(mod.LEAN_MODULES)
            proof.setdefault("extra", {})["leanchecker"] = {"ok": ok, "seconds": round(secs, 1), "modules": mod.LEAN_MODULES}
            if not ok:
                proof["broken"].append({"what": "leanchecker rejected the compiled modules", "detail": log})
        except Exception as e:       # a time-out of the re-checker is an infrastructure matter, not a verdict
            proof.setdefault("extra", {})["leanchecker"] = {"ok": None, "error": str(e)[:300]}

    rng = Rng(seed).fork(prop, tier)
    descs = load_corpus(prop) + list(mod.gen_cases(tier, rng))
    results = run_cases(mod, descs, nproc=a.jobs or None)

    errored = [r for r in results if r.get("error")]
    infra = [r for r in errored if not r.get("in_dut")]
    dut_errors = [r for r in errored if r.get("in_dut")]
    results = [r for r in results if not r.get("error")]
    # the library under test raised while being built / simulated for a configuration the property
    # quantifies over: that configuration is a concrete failing input
    for r in dut_errors:
        r.setdefault("failures", []).append({
            "sig": "dut-raises", "what": "the gateware cannot be elaborated/simulated for this case: "
            + r["error"].strip().splitlines()[-1][:300], "traceback": r["error"][-1500:]})
        r.setdefault("cycles", 0)
        results.append(r)

    if infra and not dut_errors:
        # decide on the other cases first: a violation found there stands; otherwise this run is inconclusive
        pass
    violations = []   # (failure, result)
    known_hits = {}
    for r in results:
        for f in r["failures"]:
            if f.get("sig") in known_sigs:
                known_hits.setdefault(f["sig"], (f, r))
            else:
                violations.append((f, r))
    disagreements = [r for r in results if r.get("disagree")]
    if infra and not violations:
        print("INFRASTRUCTURE ERROR in %d case(s); first:\n%s" % (len(infra), infra[0]["error"]))
        print(json.dumps(infra[0]["desc"])[:500])
        return 2

    extra_fail = []
    if hasattr(mod, "extra_checks"):
        ex = mod.extra_checks(tier, rng.fork("extra"), proof) or {}
        extra_fail = ex.get("failures", [])
        proof.setdefault("extra", {}).update({k: v for k, v in ex.items() if k != "failures"})
        for f in extra_fail:
            if f.get("sig") in known_sigs:
                known_hits.setdefault(f["sig"], (f, {"desc": f.get("desc", {})}))
            else:
                violations.append((f, {"desc": f.get("desc", {})}))

    status = 0
    out_lines = []
    replay_path = None
    nofail = False
    if violations:
        f, r = violations[0]
        replay_path = write_replay(prop, seed, "monitor", {
            "what": f, "desc": _desc_with_trace(r), "trace": r.get("trace"),
            "note": "property monitor failed on the REAL gateware; replay with ./check %s --replay <this file>" % prop})
        status = 1
    elif proof["broken"] or disagreements:
        # a broken obligation or correspondence is not yet a violation of the property: search.
        found = None
        if hasattr(mod, "proof_search") and proof["broken"]:
            try:
                fs = mod.proof_search(tier, rng.fork("proofsearch"), proof) or []
                fs = [f for f in fs if f.get("sig") not in known_sigs]
                if fs:
                    found = (fs[0], {"desc": fs[0].get("desc", {})})
            except Exception:
                traceback.print_exc()
        if not found:
            wide = list(mod.gen_cases("widen", rng.fork("widen")))
            # start from the disagreeing cases themselves (their monitors passed, so mutate seeds)
            wres = run_cases(mod, wide, want_trace_first=False, nproc=a.jobs or None)
            for r in wres:
                for f in r.get("failures", []):
                    if f.get("sig") not in known_sigs:
                        found = (f, r)
                        break
                if found:
                    break
        if found:
            f, r = found
            replay_path = write_replay(prop, seed, "monitor", {
                "what": f, "desc": _desc_with_trace(r), "trace": r.get("trace"),
                "broken": proof["broken"], "disagreement": disagreements[0]["disagree"] if disagreements else None})
        else:
            nofail = True
            d0 = disagreements[0] if disagreements else None
            replay_path = write_replay(prop, seed, "correspondence" if d0 else "proof", {
                "no_failing_input_found": True,
                "broken_obligations": proof["broken"],
                "correspondence": ({"driver": mod.DRIVER, "first_difference": d0["disagree"],
                                    "desc": _desc_with_trace(d0), "trace": d0.get("trace")} if d0 else None),
                "note": "the proof/correspondence no longer checks; no input violating the property itself was found"})
        status = 1

    for sig, (f, r) in sorted(known_hits.items()):
        out_lines.append("KNOWN-FINDING: property=%s %s" % (prop, known_sigs[sig].get("what", sig)))
    # a known finding that no longer reproduces is reported (informational), never an alarm
    for sig in known_sigs:
        if sig not in known_hits:
            out_lines.append("note: known finding %s did not reproduce in this run" % sig)

    # ---------------------------------------------------------------- evidence
    hashes = {r["hash"] for r in results if r.get("nontrivial")}
    tags = sorted({t for r in results for t in r.get("tags", [])})
    samples = []
    for r in results:
        if "trace" in r:
            tr = r["trace"]
            samples.append({"desc": r["desc"], "ports_in": tr["names_in"], "ports_out": tr["names_out"],
                            "first_cycles_in": tr["inputs"][:24], "first_cycles_out": tr["outputs"][:24]})
            break
    samples.append({"theorems": proof["obligations"][:40]})
    cov = {
        "obligations": len(proof["obligations"]),
        "discharged": len(proof["discharged"]),
        "checker_cmd": proof.get("checker_cmd", ""),
        "trusted_base": TRUSTED_BASE + list(getattr(mod, "TRUSTED_EXTRA", [])),
        "axioms_used": sorted({a for axs in proof["axioms"].values() for a in axs}),
        "generated_files": proof["generated"],
        "evaluations": sum(r.get("cycles", 0) for r in results),
        "cases": len(results),
        "traces_validated_against_impl": sum(1 for r in results if r.get("compared")),
        "port_values_compared": sum(r.get("compared", 0) for r in results),
        "distinct_nontrivial": len(hashes),
        "rule": getattr(mod, "RULE", "") + " | evaluations = simulated clock cycles of the real gateware; a case is "
                "non-trivial when some compared output port changes value during it; distinct = distinct "
                "sha256 of (configuration, input trace)",
        "coverage_tags": tags,
        "samples": samples,
        "known_findings_replayed": sorted(known_hits),
        "partial": getattr(mod, "PARTIAL", ""),
        "exhaustive": False,
    }
    if proof.get("extra"):
        cov["extra"] = proof["extra"]
    if proof["broken"]:
        cov["broken_obligations"] = proof["broken"][:5]
    ev = {"property_id": prop, "tier": tier, "seed": seed, "level": "proof", "coverage": cov,
          "assumptions": list(getattr(mod, "ASSUMPTIONS", [])),
          "wall_s": round(time.time() - t0, 2), "violations": 1 if status == 1 else 0}
    os.makedirs(EVIDENCE, exist_ok=True)
    with open(os.path.join(EVIDENCE, prop + ".json"), "w") as f:
        json.dump(ev, f, indent=1, default=str)

    for l in out_lines:
        print(l)
    print("%s tier=%s seed=%d: theorems %d/%d, cases %d, cycles %d, model-vs-gateware values compared %d, "
          "disagreements %d, monitor failures %d, %.1fs" % (
              prop, tier, seed, len(proof["discharged"]), len(proof["obligations"]), len(results),
              cov["evaluations"], cov["port_values_compared"], len(disagreements), len(violations),
              time.time() - t0))
    if status == 1:
        if proof["broken"]:
            print("broken obligations:", json.dumps(proof["broken"][:3], default=str)[:3000])
        if disagreements:
            print("first disagreement:", json.dumps(disagreements[0]["disagree"]), json.dumps(disagreements[0]["desc"])[:300])
        if violations:
            print("monitor failure:", json.dumps(violations[0][0], default=str)[:1500])
        print("VIOLATION property=%s replay=%s%s" % (prop, replay_path, " no-failing-input-found" if nofail else ""))
    sys.stdout.flush()
    return status


def replay(mod, path):
    prop = mod.PROP
    if not os.path.isabs(path):
        path = os.path.join(VERIF, path)
    j = json.load(open(path))
    known, _ = load_findings(prop)
    known_sigs = {e["sig"] for e in known}
    if j.get("kind") == "proof" and not j.get("desc"):
        proof = prove(mod, prop + "r")
        if proof["broken"]:
            print("still broken:", json.dumps(proof["broken"][:3], default=str)[:2000])
            print("VIOLATION property=%s replay=%s no-failing-input-found" % (prop, os.path.relpath(path, VERIF)))
            return 1
        print("obligations check again")
        return 0
    desc = j.get("desc") or (j.get("correspondence") or {}).get("desc")
    if desc is None:
        print("replay file has no case description")
        return 2
    # regenerate translated sources and rebuild the driver so that the replay sees the current tree
    for tr in getattr(mod, "TRANSLATORS", []):
        try:
            tr()
        except Exception:
            traceback.print_exc()
    if hasattr(mod, "replay_desc"):
        fails = mod.replay_desc(desc)
        res = [{"failures": fails, "disagree": None, "desc": desc}]
    else:
        leanrun.lake_build([leanrun.exe_name(mod.DRIVER)] if getattr(mod, "DRIVER", None) else [])
        res = run_cases(mod, [desc], nproc=1)
    r = res[0]
    if r.get("error") and r.get("in_dut"):
        print("the gateware still raises for this case:", r["error"].strip().splitlines()[-1][:300])
        print("VIOLATION property=%s replay=%s" % (prop, os.path.relpath(path, VERIF)))
        return 1
    if r.get("error"):
        print(r["error"])
        return 2
    bad = [f for f in r["failures"] if f.get("sig") not in known_sigs]
    if bad:
        print("monitor failure reproduced:", json.dumps(bad[0], default=str)[:1500])
        print("VIOLATION property=%s replay=%s" % (prop, os.path.relpath(path, VERIF)))
        return 1
    if r.get("disagree"):
        print("model/gateware disagreement reproduced:", json.dumps(r["disagree"]))
        print("VIOLATION property=%s replay=%s no-failing-input-found" % (prop, os.path.relpath(path, VERIF)))
        return 1
    print("replay passes on the current tree")
    return 0
