"""Deterministic PRNG (splitmix64).  Every random choice of a check derives from VERIF_SEED through
`Rng(seed).fork(label…)`, so a case replays from (seed, property, case index) alone."""
import hashlib

MASK = (1 << 64) - 1


class Rng:
    def __init__(self, seed):
        self.s = seed & MASK

    def u64(self):
        self.s = (self.s + 0x9E3779B97F4A7C15) & MASK
        z = self.s
        z = ((z ^ (z >> 30)) * 0xBF58476D1CE4E5B9) & MASK
        z = ((z ^ (z >> 27)) * 0x94D049BB133111EB) & MASK
        return z ^ (z >> 31)

    def below(self, n):
        """uniform integer in [0, n)"""
        if n <= 0:
            return 0
        return self.u64() % n

    def range(self, lo, hi):
        """uniform integer in [lo, hi] inclusive"""
        return lo + self.below(hi - lo + 1)

    def bits(self, n):
        v = 0
        got = 0
        while got < n:
            v |= self.u64() << got
            got += 64
        return v & ((1 << n) - 1)

    def chance(self, num, den=100):
        """True with probability num/den"""
        return self.below(den) < num

    def choice(self, seq):
        return seq[self.below(len(seq))]

    def weighted(self, pairs):
        """pairs: [(weight, value)…]"""
        total = sum(w for w, _ in pairs)
        r = self.below(total)
        for w, v in pairs:
            if r < w:
                return v
            r -= w
        return pairs[-1][1]

    def shuffle(self, xs):
        xs = list(xs)
        for i in range(len(xs) - 1, 0, -1):
            j = self.below(i + 1)
            xs[i], xs[j] = xs[j], xs[i]
        return xs

    def bytes(self, n):
        return [self.below(256) for _ in range(n)]

    def fork(self, *labels):
        h = hashlib.sha256(repr((self.s,) + tuple(labels)).encode()).digest()
        return Rng(int.from_bytes(h[:8], "little"))
