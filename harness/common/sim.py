"""pysim wrappers: run the *real* gateware from /repo cycle by cycle and record its ports.

Sampling discipline (Amaranth 0.5.9 testbenches): in each cycle SET all inputs, then READ every
output (testbenches see settled combinational values), then TICK.  The Lean `step` functions are
written with exactly this reading of Mealy outputs, so traces can be compared line by line; the
first cycle after reset is compared too.
"""
import os
import sys
import warnings

REPO = os.environ.get("LUNA_VERIF_REPO", "/repo")
if REPO not in sys.path:
    sys.path.insert(0, REPO)

warnings.filterwarnings("ignore")

import luna  # noqa: E402

assert os.path.realpath(luna.__file__).startswith(os.path.realpath(REPO) + os.sep), \
    "luna does not resolve to %s (got %s)" % (REPO, luna.__file__)

from amaranth import Module, Signal, ClockDomain, Elaboratable, ResetSignal  # noqa: E402
from amaranth.sim import Simulator  # noqa: E402


class _Wrap(Elaboratable):
    """Wraps the DUT so that the clock domains the testbench ticks always exist (a module that is
    purely combinational for some configuration would otherwise have no domain to tick)."""

    def __init__(self, dut, domains):
        self.dut = dut
        self.domains = domains

    def elaborate(self, platform):
        m = Module()
        for d in self.domains:
            m.domains += ClockDomain(d)
        m.submodules.dut = self.dut
        for d in self.domains:
            keep = Signal(name="verif_keepalive_" + d)
            m.d[d] += keep.eq(~keep)
        return m


def _mask(sig):
    return (1 << len(sig)) - 1


def run_cycles(dut, inputs, outputs, stimulus, domain="sync", extra_clocks=None, period=1e-6,
               define_domains=True, reset_signal=None):
    """Simulate `dut` for len(stimulus) cycles of `domain`.

    inputs   : list of Signals driven by the testbench (stimulus row order)
    outputs  : list of Signals/Values sampled each cycle (after the inputs are applied, before the tick)
    stimulus : list of rows (each a sequence of ints, one per input)
    extra_clocks : {domain: period} for further domains that must be clocked (same phase)

    Returns the list of output rows (tuples of unsigned ints).
    """
    doms = [domain] + list((extra_clocks or {}).keys())
    top = _Wrap(dut, doms) if define_domains else dut
    sim = Simulator(top)
    sim.add_clock(period, domain=domain)
    for d, p in (extra_clocks or {}).items():
        sim.add_clock(p, domain=d)
    rows = []
    omask = [(1 << len(o)) - 1 for o in outputs]

    async def tb(ctx):
        for row in stimulus:
            for sig, v in zip(inputs, row):
                ctx.set(sig, v & _mask(sig))
            rows.append(tuple(ctx.get(o) & m for o, m in zip(outputs, omask)))
            await ctx.tick(domain)

    sim.add_testbench(tb)
    sim.run()
    return rows


def find_signal(fragment_owner, name):
    """Locate an internal Signal by name in an elaborated design (used only for *observation* of
    architectural registers such as the device address; never to drive anything)."""
    from amaranth.hdl import Fragment
    frag = Fragment.get(fragment_owner, None)
    found = []

    def walk(f):
        for domain, stmts in f.statements.items():
            for s in stmts:
                for sig in s._lhs_signals():
                    if sig.name == name:
                        found.append(sig)
        for sub, _n, *_ in f.subfragments:
            walk(sub)

    walk(frag)
    uniq = []
    for s in found:
        if not any(s is u for u in uniq):
            uniq.append(s)
    return uniq
