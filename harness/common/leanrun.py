"""Everything that touches the Lean project: locked `lake build`, axiom audit, hygiene grep, and
running a model driver over a stimulus file."""
import fcntl
import os
import re
import subprocess
import time

VERIF = os.path.dirname(os.path.dirname(os.path.dirname(os.path.abspath(__file__))))
LEAN = os.path.join(VERIF, "lean")
WORK = os.path.join(VERIF, ".work")
ALLOWED_AXIOMS = {"propext", "Classical.choice", "Quot.sound"}

FORBIDDEN = re.compile(
    r"\bsorry\b|\badmit\b|^\s*axiom\s|native_decide|bv_decide|implemented_by|\bunsafe\s|maxHeartbeats\s+0\b")


class LakeLock:
    def __enter__(self):
        os.makedirs(os.path.join(LEAN, ".lake"), exist_ok=True)
        self.f = open(os.path.join(LEAN, ".lake", "verif.lock"), "w")
        fcntl.flock(self.f, fcntl.LOCK_EX)
        return self

    def __exit__(self, *a):
        fcntl.flock(self.f, fcntl.LOCK_UN)
        self.f.close()


def _env():
    e = dict(os.environ)
    e.pop("LEAN_PATH", None)
    return e


def lake_build(targets, timeout=3000):
    """Build the given module targets (or everything when empty).  Returns (ok, log)."""
    cmd = ["lake", "build"] + list(targets)
    with LakeLock():
        try:
            p = subprocess.run(cmd, cwd=LEAN, env=_env(), stdout=subprocess.PIPE, stderr=subprocess.STDOUT,
                               text=True, timeout=timeout)
        except subprocess.TimeoutExpired as e:
            return False, "TIMEOUT running %s\n%s" % (" ".join(cmd), e.stdout or "")
    return p.returncode == 0, p.stdout


_lean_path_cache = None


def lean_path():
    global _lean_path_cache
    if _lean_path_cache is None:
        p = subprocess.run(["lake", "env", "printenv", "LEAN_PATH"], cwd=LEAN, env=_env(),
                           stdout=subprocess.PIPE, stderr=subprocess.STDOUT, text=True)
        _lean_path_cache = p.stdout.strip().splitlines()[-1] if p.returncode == 0 else \
            os.path.join(LEAN, ".lake", "build", "lib", "lean")
    return _lean_path_cache


def lean_cmd_env():
    e = _env()
    e["LEAN_PATH"] = lean_path()
    return e


AUDIT_TMPL = """import Lean
%(imports)s
open Lean in
run_cmd do
  let env ← getEnv
  for modName in [%(mods)s] do
    let some idx := env.getModuleIdx? modName | throwError "module not found"
    for n in env.header.moduleData[idx.toNat]!.constNames do
      if n.isInternal then continue
      match env.find? n with
      | some (.thmInfo _) =>
        let ax ← Lean.collectAxioms n
        logInfo m!"THEOREM {n} AXIOMS {ax.toList}"
      | _ => pure ()
"""


def audit(modules, tag):
    """Return {theorem: [axioms]} for every theorem declared in the given (built) modules."""
    os.makedirs(WORK, exist_ok=True)
    path = os.path.join(WORK, "audit_%s_%d.lean" % (tag, os.getpid()))
    with open(path, "w") as f:
        f.write(AUDIT_TMPL % {
            "imports": "\n".join("import " + m for m in modules),
            "mods": ", ".join("`" + m for m in modules),
        })
    try:
        p = subprocess.run(["lean", path], cwd=LEAN, env=lean_cmd_env(), stdout=subprocess.PIPE,
                           stderr=subprocess.STDOUT, text=True, timeout=600)
    finally:
        try:
            os.unlink(path)
        except OSError:
            pass
    out = {}
    text = p.stdout.replace("\n  ", " ")
    declared = declared_theorems(modules)
    for m in re.finditer(r"THEOREM (\S+) AXIOMS \[([^\]]*)\]", text):
        axs = [a.strip() for a in m.group(2).split(",") if a.strip()]
        name = m.group(1)
        # count only theorems written in the source (not compiler-generated equation lemmas such as
        # `f.eq_1`, `f.eq_def`, `match_1.splitter`), but keep the axioms of everything for the check
        if declared and not any(name == d or name.endswith("." + d) for d in declared):
            continue
        out[name] = axs
    return out, p.returncode, p.stdout


def declared_theorems(modules):
    names = set()
    for mod in modules:
        path = module_path(mod)
        if not os.path.exists(path):
            continue
        code = strip_comments(open(path).read())
        for m in re.finditer(r"^\s*(?:@\[[^\]]*\]\s*)*(?:private\s+|protected\s+)?(?:theorem|lemma)\s+([^\s:({\[]+)", code, re.M):
            names.add(m.group(1))
    return names


def strip_comments(src):
    """Remove Lean block comments (nesting) and line comments."""
    out = []
    i, depth, n = 0, 0, len(src)
    while i < n:
        if src.startswith("/-", i):
            depth += 1
            i += 2
        elif depth and src.startswith("-/", i):
            depth -= 1
            i += 2
        elif depth:
            if src[i] == "\n":
                out.append("\n")
            i += 1
        elif src.startswith("--", i):
            while i < n and src[i] != "\n":
                i += 1
        else:
            out.append(src[i])
            i += 1
    return "".join(out)


def module_path(mod):
    return os.path.join(LEAN, *mod.split(".")) + ".lean"


def import_closure(roots):
    """All project-local source files reachable through `import` from the given modules/files."""
    seen, todo = {}, list(roots)
    while todo:
        m = todo.pop()
        path = m if m.endswith(".lean") else module_path(m)
        if path in seen or not os.path.exists(path):
            continue
        src = open(path).read()
        seen[path] = src
        for imp in re.findall(r"^\s*(?:public\s+)?import\s+(\S+)", src, re.M):
            if imp.startswith("LunaVerif") or imp.startswith("Driver"):
                todo.append(imp)
    return seen


def hygiene(roots=None):
    """Forbidden constructs outside comments in the Lean sources the given modules depend on
    (everything under lean/ when no roots are given).  Returns the list of hits."""
    hits = []
    if roots is None:
        files = {}
        for root, dirs, fs in os.walk(LEAN):
            dirs[:] = [d for d in dirs if d != ".lake"]
            for fn in fs:
                if fn.endswith(".lean"):
                    p = os.path.join(root, fn)
                    files[p] = open(p).read()
    else:
        files = import_closure(roots)
    for p, src in sorted(files.items()):
        code = strip_comments(src)
        for ln, line in enumerate(code.splitlines(), 1):
            if FORBIDDEN.search(line):
                hits.append("%s:%d: %s" % (os.path.relpath(p, VERIF), ln, line.strip()))
    return hits


LAKEFILE_HEAD = """name = "LunaVerif"
version = "0.1.0"
defaultTargets = ["LunaVerif"]

# GENERATED by `./check --lakefile` from the list of lean/Driver/*.lean files -- do not edit by hand.
# Library-only project; Mathlib (where a proof file imports a single module of it) is on the
# toolchain's own search path, so there is no `require`.  Model files import no Mathlib, so the
# per-property model drivers can be linked as native executables.
[[lean_lib]]
name = "LunaVerif"
globs = ["LunaVerif.+"]
"""


def write_lakefile():
    names = sorted(f[:-5] for f in os.listdir(os.path.join(LEAN, "Driver")) if f.endswith(".lean"))
    txt = LAKEFILE_HEAD
    for n in names:
        txt += '\n[[lean_exe]]\nname = "drv_%s"\nroot = "Driver.%s"\n' % (n.lower(), n)
    path = os.path.join(LEAN, "lakefile.toml")
    if not os.path.exists(path) or open(path).read() != txt:
        with LakeLock():
            open(path, "w").write(txt)
    return names


def driver_imports(driver):
    src = open(os.path.join(LEAN, driver)).read()
    return [m for m in re.findall(r"^import\s+(\S+)", src, re.M) if m.startswith("LunaVerif")]


def exe_name(driver):
    return "drv_" + os.path.basename(driver)[:-5].lower()


def run_driver(driver, text, timeout=3000):
    """Run the compiled model driver (lean_exe `drv_cxx`; `lean --run` as a fallback when the
    executable is absent) with `text` on stdin; returns the list of output lines."""
    exe = os.path.join(LEAN, ".lake", "build", "bin", exe_name(driver))
    cmd = [exe] if os.path.exists(exe) else ["lean", "-j", "1", "--run", driver]
    p = subprocess.run(cmd, cwd=LEAN, env=lean_cmd_env(), input=text,
                       stdout=subprocess.PIPE, stderr=subprocess.PIPE, text=True, timeout=timeout)
    if p.returncode != 0:
        raise RuntimeError("driver %s failed (%d): %s" % (driver, p.returncode, p.stderr[-2000:]))
    return p.stdout.splitlines()


def leanchecker(modules, timeout=3000):
    t = time.time()
    p = subprocess.run(["leanchecker"] + list(modules), cwd=LEAN, env=lean_cmd_env(),
                       stdout=subprocess.PIPE, stderr=subprocess.STDOUT, text=True, timeout=timeout)
    return p.returncode == 0, p.stdout[-2000:], time.time() - t
