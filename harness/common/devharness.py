"""Transaction-level harness around the REAL `USBDevice(bus=UTMIInterface())` from the repository.

Shared by the whole-device properties (C07, C08, C10 and later C09, C12, C14, C20, C57).

What it does
------------
* builds `USBDevice` (12 MHz full-speed-only configuration: a plain `UTMIInterface` has no clocking, so
  `device.py` selects `always_fs=True`, `data_clock=12e6`, interpacket delays (2, 7), rx timeout 16) with
  `add_standard_control_endpoint(descriptors)` plus any number of extra endpoints
  (`USBStreamInEndpoint`, `USBStreamOutEndpoint`, `USBSignalInEndpoint`) and extra request handlers,
  `connect=1`, line state J;
* turns a *host event* into UTMI receive cycles, runs the simulation until the device's answer (if any)
  has been transmitted completely or the response window has expired, decodes the transmission with the
  independent reference in `usbref.py` into a `Response`, and reads the architectural registers
  (device address, configuration) from the elaborated design after every event;
* the host script may be adaptive: a Python generator that receives the `EventResult` of the event it
  yielded (this is how "ACK only after the device really sent data" is generated).

Host events (JSON-able lists; `encode_event`/`decode_event` map them to integer rows for the Lean driver)

    ["tok", pid, addr, ep]            OUT / IN / SETUP / PING token with a valid CRC5 (pid = 4-bit PID)
    ["sof", frame]                    start of frame
    ["data", pid, [bytes], crc_ok]    DATA0/DATA1/DATA2/MDATA packet, CRC16 good (1) or corrupted (0)
    ["hs", pid]                       ACK / NAK / STALL / NYET sent by the host
    ["raw", [bytes]]                  arbitrary bytes inside one rx_active burst (malformed traffic)
    ["quiet"]                         the host stays silent for more than the device's response timeout
    ["reset"]                         bus reset (SE0 for > 5 us)
    ["produce", ep, [bytes], last]    application feeds an IN stream endpoint (result.delivered = number of bytes it accepted)
    ["consume", ep, n]                application drains up to n bytes from an OUT stream endpoint
    ["signal", ep, value]             sets the input of a USBSignalInEndpoint

Timing is drawn from a separate `Rng`, never from the event list, so an event-level model must be
insensitive to it: byte gaps 0..5 cycles, token -> data gaps 2..6 cycles, response window 18..24 cycles,
`tx_ready` random (about 3 of 4 cycles).

Typical use

    from harness.common import devharness as DH
    h = DH.DevHarness(DH.default_spec(), Rng(seed))
    results = h.run([["tok", U.PID_SETUP, 0, 0], ["data", U.PID_DATA0, [0,5,7,0,0,0,0,0], 1], ...])
    results[i].resp.kind / .pid / .payload,  results[i].address,  results[i].configuration
"""
from . import sim as _sim                      # noqa: F401  (puts the selected repository on sys.path and checks it)
from . import usbref as U

from amaranth import Module, ClockDomain        # noqa: E402
from amaranth.hdl import Fragment               # noqa: E402
from amaranth.sim import Simulator              # noqa: E402

TOKEN_PIDS = (U.PID_OUT, U.PID_IN, U.PID_SETUP, U.PID_PING)
DATA_PIDS = (U.PID_DATA0, U.PID_DATA1, U.PID_DATA2, U.PID_MDATA)
HS_PIDS = (U.PID_ACK, U.PID_NAK, U.PID_STALL, U.PID_NYET)

EV_TOK, EV_SOF, EV_DATA, EV_HS, EV_RAW, EV_QUIET, EV_RESET, EV_PRODUCE, EV_CONSUME, EV_SIGNAL = range(10)
RESP_NONE, RESP_HS, RESP_DATA, RESP_GARBAGE = range(4)


# ----------------------------------------------------------------------------- events <-> integer rows
def encode_event(ev):
    k = ev[0]
    if k == "tok":
        return [EV_TOK, ev[1], ev[2], ev[3]]
    if k == "sof":
        return [EV_SOF, ev[1]]
    if k == "data":
        return [EV_DATA, ev[1], int(ev[3]), len(ev[2])] + list(ev[2])
    if k == "hs":
        return [EV_HS, ev[1]]
    if k == "raw":
        return [EV_RAW, len(ev[1])] + list(ev[1])
    if k == "quiet":
        return [EV_QUIET]
    if k == "reset":
        return [EV_RESET]
    if k == "produce":
        return [EV_PRODUCE, ev[1], int(ev[3]), len(ev[2])] + list(ev[2])
    if k == "consume":
        return [EV_CONSUME, ev[1], ev[2]]
    if k == "signal":
        return [EV_SIGNAL, ev[1], ev[2]]
    raise ValueError("unknown event %r" % (ev,))


def decode_event(row):
    k = row[0]
    if k == EV_TOK:
        return ["tok", row[1], row[2], row[3]]
    if k == EV_SOF:
        return ["sof", row[1]]
    if k == EV_DATA:
        return ["data", row[1], list(row[4:4 + row[3]]), row[2]]
    if k == EV_HS:
        return ["hs", row[1]]
    if k == EV_RAW:
        return ["raw", list(row[2:2 + row[1]])]
    if k == EV_QUIET:
        return ["quiet"]
    if k == EV_RESET:
        return ["reset"]
    if k == EV_PRODUCE:
        return ["produce", row[1], list(row[4:4 + row[3]]), row[2]]
    if k == EV_CONSUME:
        return ["consume", row[1], row[2]]
    if k == EV_SIGNAL:
        return ["signal", row[1], row[2]]
    raise ValueError("unknown event row %r" % (row,))


def event_bytes(ev):
    """The bytes a packet event puts on the wire (None for non-packet events)."""
    k = ev[0]
    if k == "tok":
        return U.token_packet(ev[1], ev[2], ev[3])
    if k == "sof":
        return U.sof_packet(ev[1])
    if k == "data":
        p = U.data_packet(ev[1], ev[2])
        if not ev[3]:
            p[-1] ^= 0x41          # corrupt the CRC16 (never maps a wrong CRC onto the right one)
        return p
    if k == "hs":
        return U.handshake_packet(ev[1])
    if k == "raw":
        return list(ev[1])
    return None


def setup_bytes(bm_request_type, request, value=0, index=0, length=0):
    return [bm_request_type & 0xFF, request & 0xFF, value & 0xFF, (value >> 8) & 0xFF, index & 0xFF, (index >> 8) & 0xFF,
            length & 0xFF, (length >> 8) & 0xFF]


# ----------------------------------------------------------------------------- results
class Response:
    __slots__ = ("kind", "pid", "payload", "packets")

    def __init__(self, kind, pid=0, payload=(), packets=()):
        self.kind, self.pid, self.payload, self.packets = kind, pid, list(payload), [list(p) for p in packets]

    @property
    def is_none(self):
        return self.kind == RESP_NONE

    @property
    def is_data(self):
        return self.kind == RESP_DATA

    def is_hs(self, pid=None):
        return self.kind == RESP_HS and (pid is None or self.pid == pid)

    def encode(self):
        """[kind, pid, len, bytes…]"""
        return [self.kind, self.pid, len(self.payload)] + list(self.payload)

    def __repr__(self):
        n = {RESP_NONE: "none", RESP_HS: "hs", RESP_DATA: "data", RESP_GARBAGE: "garbage"}[self.kind]
        if self.kind == RESP_NONE:
            return "<none>"
        if self.kind == RESP_HS:
            return "<hs %s>" % {U.PID_ACK: "ACK", U.PID_NAK: "NAK", U.PID_STALL: "STALL", U.PID_NYET: "NYET"}.get(self.pid, self.pid)
        if self.kind == RESP_DATA:
            return "<data%d %s>" % (1 if self.pid == U.PID_DATA1 else 0 if self.pid == U.PID_DATA0 else self.pid,
                                    bytes(self.payload).hex())
        return "<%s %r>" % (n, self.packets)


def decode_response(packets):
    """Transmitted packets (lists of bytes, from usbref.parse_tx) of one response window -> Response."""
    if not packets:
        return Response(RESP_NONE)
    if len(packets) != 1 or not packets[0]:
        return Response(RESP_GARBAGE, packets=packets)
    p = packets[0]
    if not U.pid_ok(p[0]):
        return Response(RESP_GARBAGE, packets=packets)
    pid = p[0] & 0xF
    if pid in HS_PIDS and len(p) == 1:
        return Response(RESP_HS, pid, packets=packets)
    if pid in DATA_PIDS and len(p) >= 3:
        payload = p[1:-2]
        c = U.usb2_crc16(payload)
        if [c & 0xFF, c >> 8] == p[-2:]:
            return Response(RESP_DATA, pid, payload, packets=packets)
    return Response(RESP_GARBAGE, packets=packets)


class EventResult:
    __slots__ = ("event", "resp", "address", "configuration", "delivered", "cycles", "start_cycle", "probe")

    def __init__(self, event, resp, address, configuration, delivered, cycles, start_cycle, probe):
        self.event, self.resp, self.address, self.configuration = event, resp, address, configuration
        self.delivered, self.cycles, self.start_cycle, self.probe = delivered, cycles, start_cycle, probe

    def __repr__(self):
        return "%r -> %r addr=%d cfg=%d" % (self.event, self.resp, self.address, self.configuration)


# ----------------------------------------------------------------------------- descriptor sets
def _string_desc(s):
    b = s.encode("utf-16le")
    return [len(b) + 2, 3] + list(b)


def descriptor_table(shape, rng=None):
    """A few descriptor-set shapes as explicit tables [[type, index, [bytes…]], …] (all `bytes`
    descriptors, so the standard handler uses GetDescriptorHandlerBlock).

      "std"     device(18) config(9+9+7+7=32) strings 0..3
      "long"    adds a 150-byte configuration descriptor at index 1 and a 64-byte string (multi-packet, exact
                multiple of the packet size)
      "sparse"  non-consecutive indices (string 0, 2, 5) -> the handler's index map is used
      "tiny"    device descriptor only
      "random"  random types/indices/lengths from rng
    """
    dev = [18, 1, 0x00, 0x02, 0, 0, 0, 64, 0x09, 0x12, 0x01, 0x00, 0x00, 0x01, 1, 2, 3, 1]
    cfg = [9, 2, 32, 0, 1, 1, 0, 0x80, 250,
           9, 4, 0, 0, 2, 0xFF, 0, 0, 0,
           7, 5, 0x81, 2, 64, 0, 0,
           7, 5, 0x02, 2, 64, 0, 0]
    lang = [4, 3, 0x09, 0x04]
    if shape == "tiny":
        return [[1, 0, dev]]
    if shape == "std":
        return [[1, 0, dev], [2, 0, cfg], [3, 0, lang], [3, 1, _string_desc("LUNA")], [3, 2, _string_desc("Test Device")],
                [3, 3, _string_desc("1234")]]
    if shape == "long":
        big = [9, 2, 150, 0, 1, 2, 0, 0x80, 50] + [(i * 7 + 3) & 0xFF for i in range(141)]
        s64 = [64, 3] + [(i * 5 + 1) & 0xFF for i in range(62)]
        s128 = [128, 3] + [(i * 3 + 2) & 0xFF for i in range(126)]
        return [[1, 0, dev], [2, 0, cfg], [2, 1, big], [3, 0, lang], [3, 1, s64], [3, 2, s128]]
    if shape == "sparse":
        return [[1, 0, dev], [2, 0, cfg], [3, 0, lang], [3, 2, _string_desc("two")], [3, 5, _string_desc("five!")],
                [6, 0, [10, 6, 0, 2, 0, 0, 0, 64, 1, 0]]]
    if shape == "random":
        out = [[1, 0, dev]]
        seen = {(1, 0)}
        for _ in range(rng.range(1, 6)):
            t, i = rng.choice([2, 3, 3, 6, 7, 0x21, 0x0F]), rng.choice([0, 0, 1, 2, 3, 7])
            if (t, i) in seen:
                continue
            seen.add((t, i))
            n = rng.choice([2, 4, 9, 18, 63, 64, 65, 100, 128, 200])
            out.append([t, i, [n & 0xFF, t] + rng.bytes(n - 2)])
        return out
    raise ValueError(shape)


def default_spec(shape="std", eps=(), handlers=(), rng=None):
    return {"desc": descriptor_table(shape, rng), "eps": [list(e) for e in eps], "handlers": [list(h) for h in handlers]}


# ----------------------------------------------------------------------------- the harness
class DevHarness:
    """spec = {"desc": [[type, index, [bytes…]], …],
               "eps":  [["in", number, max_packet_size], ["out", number, max_packet_size(, buffer_size)],
                        ["sig", number, width]],
               "handlers": [["zlpreg", type, request], …],      # extra request handlers (see make_handler)
               "mps": 8 | 16 | 32 | 64}                         # control endpoint max_packet_size (optional, default 64)
    """

    LINE_J, LINE_K, LINE_SE0 = 0b01, 0b10, 0b00

    def __init__(self, spec, timing_rng=None, probes=()):
        from luna.gateware.interface.utmi import UTMIInterface
        from luna.gateware.usb.usb2.device import USBDevice
        from luna.gateware.usb.usb2.endpoints.stream import USBStreamInEndpoint, USBStreamOutEndpoint
        from luna.gateware.usb.usb2.endpoints.status import USBSignalInEndpoint
        from usb_protocol.emitters import DeviceDescriptorCollection

        self.spec = spec
        self.rng = timing_rng
        self.utmi = UTMIInterface()
        self.dev = USBDevice(bus=self.utmi, handle_clocking=False)
        coll = DeviceDescriptorCollection(automatic_language_descriptor=False)
        for t, i, b in spec["desc"]:
            coll.add_descriptor(bytes(b), index=i, descriptor_type=t)
        self.descriptors = coll
        # control max packet size (spec["mps"], default 64).  `USBDevice.add_standard_control_endpoint(descriptors,
        # max_packet_size=…)` cannot be used for it: it builds `USBControlEndpoint(utmi=…)` with the default 64 and hands
        # its kwargs to `add_standard_request_handlers`, which passes `max_packet_size=self._max_packet_size` itself
        # (TypeError: multiple values for keyword argument 'max_packet_size').  For other sizes the harness therefore does
        # by hand exactly what that method does, with the size given to the control endpoint's constructor.
        self.mps = int(spec.get("mps", 64))
        if self.mps == 64:
            self.control = self.dev.add_standard_control_endpoint(coll)
        else:
            from luna.gateware.usb.usb2.control import USBControlEndpoint
            self.control = USBControlEndpoint(utmi=self.dev.utmi, max_packet_size=self.mps)
            self.control.add_standard_request_handlers(coll)
            self.dev.add_endpoint(self.control)
        self.handlers = []
        for h in spec.get("handlers", []):
            hd = make_handler(h)
            self.control.add_request_handler(hd)
            self.handlers.append(hd)
        self.endpoints = {}
        for e in spec.get("eps", []):
            kind, num = e[0], e[1]
            if kind == "in":
                ep = USBStreamInEndpoint(endpoint_number=num, max_packet_size=e[2])
            elif kind == "out":
                kw = {"buffer_size": e[3]} if len(e) > 3 else {}
                ep = USBStreamOutEndpoint(endpoint_number=num, max_packet_size=e[2], **kw)
            elif kind == "sig":
                ep = USBSignalInEndpoint(width=e[2], endpoint_number=num)
            else:
                raise ValueError("endpoint kind %r" % kind)
            self.dev.add_endpoint(ep)
            self.endpoints[(kind, num)] = ep

        top = Module()
        top.domains.usb = ClockDomain()
        top.submodules.dev = self.dev
        self.fragment = Fragment.get(top, None)
        self._index = {}
        self._walk(self.fragment, ())
        self.address = self.signal("address", ("dev",))
        self.configuration = self.signal("configuration", ("dev",))
        self.probe_signals = [self.signal(n, tuple(p)) for (n, p) in probes]
        self.sim = Simulator(self.fragment)
        self.sim.add_clock(1.0 / 12e6, domain="usb")
        self.cycle = 0
        self.tx_rows = []          # (valid, ready, data) of the current response window
        self.log = []              # EventResult per event
        self._rx = (0, 0, 0)
        self._ls = None
        self._ready = None

    # ---- locating internal registers (observation only)
    def _walk(self, frag, path):
        for dom, stmts in frag.statements.items():
            for s in stmts:
                for sig in s._lhs_signals():
                    lst = self._index.setdefault(sig.name, [])
                    if not any(sig is q for _p, _d, q in lst):
                        lst.append((path, dom, sig))
        for sub, name, *_ in frag.subfragments:
            self._walk(sub, path + (name,))

    def signal(self, name, path=None, registered=True):
        """The unique signal called `name` that is driven inside the submodule `path` (tuple of submodule names
        from the top, e.g. ("dev",) or ("dev", "USBControlEndpoint", "StandardRequestHandler")); by default only
        registers (signals driven from a clocked domain) are considered."""
        c = [s for p, d, s in self._index.get(name, [])
             if (path is None or p == tuple(path)) and ((d != "comb") if registered else True)]
        if len(c) != 1:
            raise LookupError("signal %s at %s: %d candidates" % (name, path, len(c)))
        return c[0]

    # ---- one clock cycle: set inputs, read outputs, tick
    async def _tick(self, ctx, rx=(0, 0, 0), line_state=None):
        u = self.utmi
        if rx != self._rx:
            if rx[0] != self._rx[0]:
                ctx.set(u.rx_active, rx[0])
            if rx[1] != self._rx[1]:
                ctx.set(u.rx_valid, rx[1])
            if rx[2] != self._rx[2]:
                ctx.set(u.rx_data, rx[2])
            self._rx = rx
        ls = line_state if line_state is not None else (self.LINE_K if rx[0] else self.LINE_J)
        if ls != self._ls:
            ctx.set(u.line_state, ls)
            self._ls = ls
        ready = 1 if (self.rng is None or self.rng.below(4) != 0) else 0
        if ready != self._ready:
            ctx.set(u.tx_ready, ready)
            self._ready = ready
        v = ctx.get(u.tx_valid)
        if v:
            self.tx_rows.append((1, ready, ctx.get(u.tx_data)))
        else:
            self.tx_rows.append((0, ready, 0))
        await ctx.tick("usb")
        self.cycle += 1
        return v

    def _r(self, lo, hi):
        return lo if self.rng is None else self.rng.range(lo, hi)

    async def _window(self, ctx, wait):
        """Wait up to `wait` idle cycles for a transmission to start; once one has started run until it has
        ended and the bus has been quiet for 3 further cycles (a second packet in that time is collected too)."""
        idle = 0
        seen = False
        quiet_after = 0
        guard = 0
        while True:
            v = await self._tick(ctx)
            guard += 1
            if guard > 6000:
                raise RuntimeError("device transmission does not end")
            if v:
                seen = True
                quiet_after = 0
            elif seen:
                quiet_after += 1
                if quiet_after >= 3:
                    return
            else:
                idle += 1
                if idle >= wait:
                    return

    async def _event(self, ctx, ev):
        start = self.cycle
        self.tx_rows = []
        delivered = None
        k = ev[0]
        pkt = event_bytes(ev)
        if pkt is not None:
            if self.rng is None:
                rows = U.render_rx(pkt)
            else:
                rows = U.render_rx(pkt, self.rng, lead_in=self.rng.range(1, 2))
            for r in rows:
                await self._tick(ctx, r)
            solicits = not (k == "tok" and ev[1] in (U.PID_OUT, U.PID_SETUP)) and k != "sof"
            await self._window(ctx, self._r(18, 24) if solicits else self._r(2, 6))
        elif k == "quiet":
            await self._window(ctx, self._r(26, 40))
        elif k == "reset":
            for _ in range(self._r(305, 330)):
                await self._tick(ctx, line_state=self.LINE_SE0)
            await self._window(ctx, self._r(3, 8))
        elif k == "produce":
            ep = self.endpoints[("in", ev[1])]
            st = ep.stream
            data = list(ev[2])
            delivered = 0              # number of bytes the endpoint accepted (it stops accepting when its buffers are full)
            for i, b in enumerate(data):
                ctx.set(st.payload, b)
                ctx.set(st.valid, 1)
                ctx.set(st.first, int(i == 0))
                ctx.set(st.last, int(bool(ev[3]) and i == len(data) - 1))
                guard = 0
                rdy = 0
                while guard < 24:
                    rdy = ctx.get(st.ready)
                    await self._tick(ctx)
                    if rdy:
                        break
                    guard += 1
                if not rdy:
                    break
                delivered += 1
            ctx.set(st.valid, 0)
            ctx.set(st.first, 0)
            ctx.set(st.last, 0)
            await self._window(ctx, self._r(4, 8))
        elif k == "consume":
            ep = self.endpoints[("out", ev[1])]
            st = ep.stream
            delivered = []
            ctx.set(st.ready, 1)
            idle = 0
            while len(delivered) < ev[2] and idle < 12:
                if ctx.get(st.valid):
                    delivered.append((ctx.get(st.payload), ctx.get(st.first), ctx.get(st.last)))
                    idle = 0
                else:
                    idle += 1
                await self._tick(ctx)
            ctx.set(st.ready, 0)
            await self._window(ctx, 2)
        elif k == "signal":
            ctx.set(self.endpoints[("sig", ev[1])].signal, ev[2])
            await self._window(ctx, self._r(3, 6))
        else:
            raise ValueError("unknown event %r" % (ev,))
        resp = decode_response(U.parse_tx(self.tx_rows))
        res = EventResult(list(ev), resp, ctx.get(self.address), ctx.get(self.configuration), delivered,
                          self.cycle - start, start, [ctx.get(s) for s in self.probe_signals])
        self.log.append(res)
        return res

    def run(self, script):
        """script: a list of events, or a generator function `f(harness)` yielding events and receiving the
        EventResult of each (adaptive host).  Returns the list of EventResults."""
        u = self.utmi

        async def tb(ctx):
            ctx.set(u.line_state, self.LINE_J)
            self._ls = self.LINE_J
            ctx.set(self.dev.connect, 1)
            ctx.set(u.tx_ready, 1)
            self._ready = 1
            for _ in range(4):
                await self._tick(ctx)
            if callable(script):
                gen = script(self)
                try:
                    ev = gen.send(None)
                    while True:
                        res = await self._event(ctx, ev)
                        ev = gen.send(res)
                except StopIteration:
                    pass
            else:
                for ev in script:
                    await self._event(ctx, ev)

        self.sim.add_testbench(tb)
        self.sim.run()
        return self.log


# ----------------------------------------------------------------------------- extra request handlers
def make_handler(h):
    """Small request handlers built from the repository's own `ControlRequestHandler` helpers, used to exercise
    the request multiplexer with more than one handler.

      ["zlpreg", type, request]   claims (type, request); answers the status stage with a ZLP through
                                  `handle_register_write_request` and latches wValue into `.value` on the ACK
    """
    from amaranth import Module as _M, Signal as _S
    from luna.gateware.usb.request.control import ControlRequestHandler

    kind = h[0]
    if kind == "zlpreg":
        rtype, rreq = h[1], h[2]

        class ZlpRegisterHandler(ControlRequestHandler):
            def __init__(self):
                super().__init__()
                self.value = _S(16)
                self.strobe = _S()

            def elaborate(self, platform):
                m = _M()
                i = self.interface
                new_value = _S(16)
                with m.If((i.setup.type == rtype) & (i.setup.request == rreq)):
                    m.d.comb += i.claim.eq(1)
                    with m.FSM(domain="usb"):
                        with m.State("HANDLE"):
                            self.handle_register_write_request(m, new_value, self.strobe)
                        with m.State("IDLE"):
                            m.next = "HANDLE"
                with m.If(self.strobe):
                    m.d.usb += self.value.eq(new_value)
                return m

        return ZlpRegisterHandler()
    raise ValueError("handler kind %r" % kind)
