"""Reference definitions used by the property monitors, written directly from the USB 2.0 / USB 3.2
specification texts (bit-serial, no tables), independent of the repository's own implementations.

USB 2.0 §8.3.5:  CRC5 G(x)=x^5+x^2+1 over the 11 token bits, CRC16 G(x)=x^16+x^15+x^2+1 over the data
field; bits are processed in transmission order (LSB of each byte first), the register starts at all
ones, and the *inverted* remainder is sent MSB first (so with LSB-first byte serialisation the CRC16
bytes on the wire are, as integers, the bit-reversed complemented register, low byte first).
"""

# ------------------------------------------------------------------ USB 2
PID_OUT, PID_IN, PID_SOF, PID_SETUP = 0x1, 0x9, 0x5, 0xD
PID_DATA0, PID_DATA1, PID_DATA2, PID_MDATA = 0x3, 0xB, 0x7, 0xF
PID_ACK, PID_NAK, PID_STALL, PID_NYET = 0x2, 0xA, 0xE, 0x6
PID_PRE, PID_SPLIT, PID_PING = 0xC, 0x8, 0x4


def pid_byte(pid):
    """PID nibble followed by its complement (USB 2.0 §8.3.1)."""
    return (pid & 0xF) | ((~pid & 0xF) << 4)


def pid_ok(b):
    return (b & 0xF) == ((~b >> 4) & 0xF)


def _crc_serial(bits, poly, width, init):
    reg = init
    top = 1 << (width - 1)
    mask = (1 << width) - 1
    for b in bits:
        fb = (1 if reg & top else 0) ^ b
        reg = (reg << 1) & mask
        if fb:
            reg ^= poly
    return reg


def _lsb_bits(value, n):
    return [(value >> i) & 1 for i in range(n)]


def _rev(v, n):
    return int("{:0{w}b}".format(v, w=n)[::-1], 2)


def usb2_crc5(data11):
    """CRC5 field (as the 5-bit integer occupying bits 15:11 of the little-endian 16-bit token word)."""
    reg = _crc_serial(_lsb_bits(data11, 11), 0x05, 5, 0x1F)
    return _rev(reg ^ 0x1F, 5)


def usb2_crc16(payload):
    """CRC16 as the 16-bit integer whose low byte is transmitted first."""
    bits = []
    for b in payload:
        bits.extend(_lsb_bits(b, 8))
    reg = _crc_serial(bits, 0x8005, 16, 0xFFFF)
    return _rev(reg ^ 0xFFFF, 16)


def token_packet(pid, addr, ep):
    d = (addr & 0x7F) | ((ep & 0xF) << 7)
    w = d | (usb2_crc5(d) << 11)
    return [pid_byte(pid), w & 0xFF, w >> 8]


def sof_packet(frame):
    d = frame & 0x7FF
    w = d | (usb2_crc5(d) << 11)
    return [pid_byte(PID_SOF), w & 0xFF, w >> 8]


def data_packet(pid, payload):
    c = usb2_crc16(payload)
    return [pid_byte(pid)] + list(payload) + [c & 0xFF, c >> 8]


def handshake_packet(pid):
    return [pid_byte(pid)]


def render_rx(packet, rng=None, gap_choices=(0, 0, 0, 1, 2, 5), lead_in=1):
    """UTMI receive cycles for one packet: list of (rx_active, rx_valid, rx_data).
    `rx_active` rises `lead_in` cycles before the first byte; between bytes `rx_valid` may drop for a
    random number of cycles (full-speed PHYs deliver a byte every ~40 cycles)."""
    rows = [(1, 0, 0)] * lead_in
    for b in packet:
        if rng is not None:
            rows.extend([(1, 0, rng.below(256))] * rng.choice(gap_choices))
        rows.append((1, 1, b))
    if rng is not None:
        rows.extend([(1, 0, 0)] * rng.choice(gap_choices))
    rows.append((0, 0, 0))
    return rows


def parse_tx(rows):
    """rows: iterable of (tx_valid, tx_ready, tx_data).  Returns list of transmitted packets (lists of
    bytes): a byte is accepted in a cycle with valid & ready; a packet ends when valid drops."""
    pkts, cur = [], None
    for v, r, d in rows:
        if v:
            if cur is None:
                cur = []
            if r:
                cur.append(d)
        else:
            if cur is not None:
                pkts.append(cur)
                cur = None
    if cur is not None:
        pkts.append(cur)
    return pkts


# ------------------------------------------------------------------ USB 3
def usb3_crc5(data11):
    """Link command word CRC-5 (USB 3.2 §7.2.2.2: poly 00101b, init 11111b, LSB first, inverted,
    bit-reversed into bits 15:11)."""
    reg = _crc_serial(_lsb_bits(data11, 11), 0x05, 5, 0x1F)
    return _rev(reg ^ 0x1F, 5)


def usb3_crc16(words3):
    """Header packet CRC-16 over 12 bytes (three little-endian dwords): poly 0x100B, init 0xFFFF,
    LSB of each byte first, remainder complemented and bit-reversed (USB 3.2 §7.2.1.1.2)."""
    bits = []
    for w in words3:
        bits.extend(_lsb_bits(w, 32))
    reg = _crc_serial(bits, 0x100B, 16, 0xFFFF)
    return _rev(reg ^ 0xFFFF, 16)


def usb3_crc32(payload):
    """Data packet payload CRC-32 (poly 0x04C11DB7, init all ones, LSB first, complemented, reflected)."""
    bits = []
    for b in payload:
        bits.extend(_lsb_bits(b, 8))
    reg = _crc_serial(bits, 0x04C11DB7, 32, 0xFFFFFFFF)
    return _rev(reg ^ 0xFFFFFFFF, 32)


def usb3_lfsr_bytes(n, state=0xFFFF):
    """Scrambler keystream bytes (USB 3.2 Appendix B: x^16+x^5+x^4+x^3+1, 8 advances per byte,
    output bit i of the byte = LFSR bit 15 before the i-th advance)."""
    out = []
    for _ in range(n):
        byte = 0
        for i in range(8):
            bit = (state >> 15) & 1
            byte |= bit << i
            state = ((state << 1) & 0xFFFF)
            if bit:
                state ^= 0x0039
        out.append(byte)
    return out, state
