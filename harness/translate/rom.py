"""Translator (a) of DESIGN §2.2 for C09: descriptor collections and the repo's pure-Python ROM layout.

`gen_collection(rng)` draws a random descriptor collection (a list of `(type, index, bytes, runtime)`
with pairwise distinct `(type, index)`); `build(descrs)` makes the `usb_protocol`
`DeviceDescriptorCollection` the gateware classes take; `listing(coll)` is what the gateware sees
when it iterates the collection (this, not the generator's list, is what is handed to the Lean
side); `rom_dump(coll)` calls the repo's own `GetDescriptorHandlerBlock.generate_rom_content` and
flattens its result in the order the Lean driver prints `Rom.layout` (kind 3 of Driver/C09.lean).
The two are diffed line by line by the framework on every run — pure-function correspondence.
"""
from harness.common import sim  # noqa: F401  (puts the right luna on sys.path and asserts it)

MPS = (8, 16, 32, 64)


def _rand_bytes(rng, n, ty):
    b = [rng.below(256) for _ in range(n)]
    if n >= 1:
        b[0] = n & 0xFF
    if n >= 2:
        b[1] = ty & 0xFF
    return bytes(b)


def pick_len(rng, lo=1):
    """lengths 1..300 with weight on packet-size multiples and their neighbours."""
    k = rng.below(100)
    if k < 40:
        base = rng.choice([8, 16, 24, 32, 40, 48, 64, 96, 128, 192, 256])
        n = base + rng.choice([0, 0, 0, -1, 1])
    elif k < 55:
        n = rng.range(1, 9)
    elif k < 90:
        n = rng.range(2, 80)
    else:
        n = rng.range(80, 300)
    return max(lo, n)


def gen_collection(rng, runtime=False, min_len=1, max_descr=9):
    """[(type, index, bytes, runtime_flag)], distinct keys, insertion order random."""
    from usb_protocol.emitters.descriptors.standard import get_string_descriptor
    n = rng.range(1, max_descr)
    style = rng.below(4)            # 0: consecutive indexes, 1: sparse, 2: mixed, 3: few types many indexes
    ntypes = rng.range(1, 5)
    types = []
    while len(types) < ntypes:
        t = rng.choice([0] + list(range(1, 16)) * 6 + [0x21, 0x22, 0x29, 0x30, 0xFE])
        if t not in types:
            types.append(t)
    out = {}
    for _ in range(n):
        t = rng.choice(types)
        used = [i for (tt, i) in out if tt == t]
        if style == 0 or (style == 2 and rng.chance(50)):
            i = len(used)                                   # next consecutive index
        else:
            i = rng.choice([0, 1, 2, 3, 5, 0x10, 0x7F, 0xEE, 0xFE, 0xFF, rng.below(256)])
        if (t, i) in out:
            continue
        if t == 3 and rng.chance(50):
            s = "".join(chr(rng.range(0x20, 0x7E)) for _ in range(rng.range(0, 40)))
            b = bytes(get_string_descriptor(s))
            if len(b) < min_len:
                b = _rand_bytes(rng, min_len, t)
        else:
            b = _rand_bytes(rng, pick_len(rng, min_len), t)
        out[(t, i)] = b
    items = [(t, i, b, 0) for (t, i), b in out.items()]
    items = rng.shuffle(items)
    if runtime:
        # runtime descriptors: generators supplied by the application; the repo's own
        # USBDescriptorStreamGenerator is used for them.  Their length is kept off the multiples of 8
        # (an opaque generator has to handle `start_position == its length` itself; see notes/C09.md).
        k = rng.range(1, max(1, len(items) // 2))
        res = []
        for j, (t, i, b, _) in enumerate(items):
            if j < k:
                if len(b) % 8 == 0:
                    b = b + bytes([rng.below(256)])
                    b = bytes([len(b) & 0xFF]) + b[1:]
                res.append((t, i, b, 1))
            else:
                res.append((t, i, b, 0))
        if all(r[3] for r in res):        # keep at least one fixed descriptor for the ROM
            res.append(((res[0][0] + 1) % 16, 0, _rand_bytes(rng, max(2, pick_len(rng, min_len)), 1), 0))
        items = res
    return items


def realistic_collection(rng):
    """A collection built the way applications do it (emitters, strings, auto language descriptor)."""
    from usb_protocol.emitters import DeviceDescriptorCollection
    from usb_protocol.emitters.descriptors.standard import get_string_descriptor
    d = DeviceDescriptorCollection()
    with d.DeviceDescriptor() as dev:
        dev.idVendor = 0x1209
        dev.idProduct = rng.below(65536)
        dev.iManufacturer = "M" * rng.range(1, 35)
        dev.iProduct = "Product"
        if rng.chance(50):
            dev.iSerialNumber = "S" * rng.range(1, 60)
        dev.bNumConfigurations = 1
    with d.ConfigurationDescriptor() as c:
        with c.InterfaceDescriptor() as i:
            i.bInterfaceNumber = 0
            for n in range(rng.range(1, 15)):
                with i.EndpointDescriptor() as e:
                    e.bEndpointAddress = 0x80 | (n + 1)
                    e.wMaxPacketSize = 64
    if rng.chance(50):
        d.add_descriptor(get_string_descriptor("nonconsecutive"), index=0xFE)
    if rng.chance(50):
        d.add_descriptor(b'\x09\x21\x01\x01\x00\x01\x22\x00\x32')
    return d


def build(descrs, auto_lang=False):
    """DeviceDescriptorCollection holding `descrs`; runtime entries become callables that return a
    fresh USBDescriptorStreamGenerator (the generator interface GetDescriptorHandlerDistributed expects)."""
    from usb_protocol.emitters import DeviceDescriptorCollection
    from luna.gateware.usb.usb2.descriptor import USBDescriptorStreamGenerator
    d = DeviceDescriptorCollection(automatic_language_descriptor=bool(auto_lang))
    for t, i, b, rt in descrs:
        if rt:
            d.add_descriptor((lambda bb=bytes(b): USBDescriptorStreamGenerator(bb)), index=i, descriptor_type=t)
        else:
            d.add_descriptor(bytes(b), index=i, descriptor_type=t)
    return d


def listing(coll, runtime_bytes=None):
    """[(type, index, bytes, runtime)] exactly as the gateware's `for t, i, raw in collection` sees it.
    `runtime_bytes` maps (type, index) -> bytes for callables (their content is not recoverable)."""
    out = []
    for t, i, raw in coll:
        if isinstance(raw, (bytes, bytearray)):
            out.append((int(t), int(i), bytes(raw), 0))
        else:
            out.append((int(t), int(i), bytes((runtime_bytes or {})[(int(t), int(i))]), 1))
    return out


def encode(descrs):
    """flatten for the Lean driver's configuration line: n (type index runtime len bytes…)*"""
    out = [len(descrs)]
    for t, i, b, rt in descrs:
        out += [t, i, rt, len(b)] + list(b)
    return out


def rom_dump(coll):
    """The repo's generate_rom_content, flattened as the Lean driver prints Rom.layout:
    maxLen maxType |indexMap| (key rank)* |words| words*"""
    from luna.gateware.usb.usb2.descriptor import GetDescriptorHandlerBlock
    h = GetDescriptorHandlerBlock(coll, max_packet_length=64)
    words, max_len, max_type, index_map = h.generate_rom_content()
    out = [int(max_len), int(max_type), len(index_map)]
    for k, v in index_map.items():
        out += [int(k), int(v)]
    out += [len(words)] + [int(w) for w in words]
    return out
