"""Translator (a) of DESIGN §2.2: the gateware's XOR networks as Lean literals.

The repository's own equation builders are called on fresh symbolic `Signal`s (or, for
`ScramblerLFSR`, the module is elaborated and its statements are read) and the resulting Amaranth
expression is walked.  Only `^`, `~`, slices, `Cat`, constants and signal leaves are accepted;
anything else aborts with "not an XOR network".  For every output bit the translator emits the
sorted list of input-bit indices that are XORed and an inversion flag:

    def usb2Crc16Step : List (List Nat × Bool) := [([8, 9, …], false), …]

Files written (only when their content changes, so `lake` stays incremental):

    lean/LunaVerif/Generated/Affine.lean       the CRC networks            (property C30)
    lean/LunaVerif/Generated/AffineLfsr.lean   the scrambler LFSR networks (property C31)

Input numbering: for the "step" networks the register bits come first (bit i of the register is
input i), then the data bits in the order of the `data_in` value handed to the builder (bit j of
`data_in` is input `width + j`).

Every run validates the emitted tables against the real code: the real function is simulated in
pysim on random inputs and compared with the table evaluated in Python.
"""
import os

from harness.common import sim  # noqa: F401  (puts the right luna on sys.path and asserts it)
from harness.common.rng import Rng
from harness.common import leanrun

from amaranth import Module, Signal, Cat
from amaranth.hdl import _ast as ast
from amaranth.hdl import Fragment
from amaranth.sim import Simulator

GEN_DIR = os.path.join(leanrun.LEAN, "LunaVerif", "Generated")


class NotXorNetwork(Exception):
    pass


# --------------------------------------------------------------------------- expression walker
def value_bits(v, leaves, defs=None, depth=0):
    """Per bit of the Amaranth value `v`: (frozenset of input indices, inversion flag).

    leaves : {id(Signal): base index}   the network's inputs
    defs   : {id(Signal): Value}        signals that are plain combinational aliases (looked through)
    """
    if depth > 200:
        raise NotXorNetwork("not an XOR network: combinational definitions nest too deeply")
    v = ast.Value.cast(v)
    if v.shape().signed:
        raise NotXorNetwork("not an XOR network: signed value %r" % (v,))
    if isinstance(v, ast.Const):
        return [(frozenset(), bool((v.value >> i) & 1)) for i in range(len(v))]
    if isinstance(v, ast.Signal):
        if id(v) in leaves:
            base = leaves[id(v)]
            return [(frozenset([base + i]), False) for i in range(len(v))]
        if defs is not None and id(v) in defs:
            bits = value_bits(defs[id(v)], leaves, defs, depth + 1)
            bits = bits[:len(v)]
            bits += [(frozenset(), False)] * (len(v) - len(bits))
            return bits
        raise NotXorNetwork("not an XOR network: unexpected signal %r" % (v,))
    if isinstance(v, ast.Slice):
        return value_bits(v.value, leaves, defs, depth + 1)[v.start:v.stop]
    if isinstance(v, ast.Concat):
        out = []
        for p in v.parts:
            out.extend(value_bits(p, leaves, defs, depth + 1))
        return out
    if isinstance(v, ast.Operator):
        if v.operator == "^" and len(v.operands) == 2:
            a = value_bits(v.operands[0], leaves, defs, depth + 1)
            b = value_bits(v.operands[1], leaves, defs, depth + 1)
            n = len(v)
            a = a + [(frozenset(), False)] * (n - len(a))
            b = b + [(frozenset(), False)] * (n - len(b))
            return [(x[0] ^ y[0], x[1] != y[1]) for x, y in zip(a[:n], b[:n])]
        if v.operator == "~" and len(v.operands) == 1:
            a = value_bits(v.operands[0], leaves, defs, depth + 1)
            a = a + [(frozenset(), False)] * (len(v) - len(a))
            return [(s, not c) for s, c in a[:len(v)]]
        raise NotXorNetwork("not an XOR network: operator %r in %r" % (v.operator, v))
    raise NotXorNetwork("not an XOR network: %s node %r" % (type(v).__name__, v))


def table_of(value, inputs, defs=None, width=None):
    leaves = {}
    base = 0
    for s in inputs:
        leaves[id(s)] = base
        base += len(s)
    rows = [(sorted(s), c) for s, c in value_bits(value, leaves, defs)]
    if width is not None:
        if len(rows) > width:
            rows = rows[:width]
        rows += [([], False)] * (width - len(rows))
    return rows, base


def eval_table(rows, x):
    """The emitted table evaluated on the integer input vector `x` -> integer output."""
    out = 0
    for j, (idx, inv) in enumerate(rows):
        b = 1 if inv else 0
        for i in idx:
            b ^= (x >> i) & 1
        out |= b << j
    return out


def _comb_eval(inputs, value, width, xs):
    """Simulate `value` (a combinational function of `inputs`) in pysim on the integer vectors xs."""
    m = Module()
    out = Signal(width)
    m.d.comb += out.eq(value)
    s = Simulator(m)
    res = []

    async def tb(ctx):
        for x in xs:
            sh = 0
            for sig in inputs:
                ctx.set(sig, (x >> sh) & ((1 << len(sig)) - 1))
                sh += len(sig)
            await ctx.delay(1e-9)
            res.append(ctx.get(out))

    s.add_testbench(tb)
    s.run()
    return res


# --------------------------------------------------------------------------- the CRC networks
def crc_networks():
    """[(lean name, doc, inputs, output value, output width)] built from the repository's functions."""
    from luna.gateware.usb.usb2.packet import USBTokenDetector, USBDataPacketCRC
    from luna.gateware.usb.usb3.link.crc import compute_usb_crc5, HeaderPacketCRC, DataPacketPayloadCRC
    nets = []

    def add(name, doc, inputs, build, width):
        try:
            nets.append((name, doc, inputs, build(), width, None))
        except Exception as e:      # the builder itself failed on symbolic signals
            nets.append((name, doc, inputs, None, width, "builder raised %r" % (e,)))

    tok = Signal(11, name="token")
    add("usb2Crc5", "USBTokenDetector._generate_crc_for_token(token[0:11]) -> 5 bits",
        [tok], lambda: USBTokenDetector._generate_crc_for_token(tok), 5)

    c16, d8 = Signal(16, name="crc"), Signal(8, name="data")
    add("usb2Crc16Step", "USBDataPacketCRC._generate_next_crc(crc[0:16], data[0:8]) -> 16 bits",
        [c16, d8], lambda: USBDataPacketCRC()._generate_next_crc(c16, d8), 16)

    lc = Signal(11, name="bits")
    add("usb3Crc5", "compute_usb_crc5(bits[0:11]) -> 5 bits",
        [lc], lambda: compute_usb_crc5(lc), 5)

    h16, d32 = Signal(16, name="crc"), Signal(32, name="data")
    add("usb3Crc16Word", "HeaderPacketCRC._generate_next_crc(crc[0:16], data[0:32]) -> 16 bits",
        [h16, d32], lambda: HeaderPacketCRC()._generate_next_crc(h16, d32), 16)

    for nm, fn, nb in (("usb3Crc32Word", "_generate_next_full_crc", 32), ("usb3Crc32Tail3", "_generate_next_3B_crc", 24),
                       ("usb3Crc32Tail2", "_generate_next_2B_crc", 16), ("usb3Crc32Tail1", "_generate_next_1B_crc", 8)):
        q, d = Signal(32, name="crc"), Signal(nb, name="data")
        add(nm, "DataPacketPayloadCRC.%s(crc[0:32], data[0:%d]) -> 32 bits" % (fn, nb),
            [q, d], (lambda fn=fn, q=q, d=d: getattr(DataPacketPayloadCRC(), fn)(q, d)), 32)
    return nets


def _lfsr_fragment(cls_kwargs=None):
    """Read the next-state and value networks out of the elaborated ScramblerLFSR, without relying on
    the names of internal signals: `value` (a port) is a combinational function of exactly one
    16-bit register; that register's non-constant synchronous assignment is the next-state network."""
    from luna.gateware.usb.usb3.physical.scrambling import ScramblerLFSR
    dut = ScramblerLFSR(**(cls_kwargs or {}))
    frag = Fragment.get(dut, None)
    comb, sync = [], []

    def collect(stmts, into, cond_depth):
        for s in stmts:
            if isinstance(s, ast.Assign):
                into.append((s, cond_depth))
            elif isinstance(s, ast.Switch):
                for _pat, body, *_ in s.cases:
                    collect(body, into, cond_depth + 1)
            # Property/Print statements carry no logic

    for dom, stmts in frag.statements.items():
        collect(stmts, comb if dom == "comb" else sync, 0)
    defs = {}
    for a, depth in comb:
        if isinstance(a.lhs, ast.Signal):
            if depth != 0 or id(a.lhs) in defs:
                raise NotXorNetwork("not an XOR network: %r is assigned conditionally or more than once" % (a.lhs,))
            defs[id(a.lhs)] = a.rhs
    if id(dut.value) not in defs:
        raise NotXorNetwork("not an XOR network: ScramblerLFSR.value has no plain combinational definition")
    regs = {}
    for a, depth in sync:
        if not isinstance(a.lhs, ast.Signal):
            raise NotXorNetwork("not an XOR network: partial synchronous assignment %r" % (a.lhs,))
        regs.setdefault(id(a.lhs), (a.lhs, []))[1].append(a.rhs)
    if len(regs) != 1:
        raise NotXorNetwork("not an XOR network: expected one state register, found %d" % len(regs))
    (reg, rhss), = regs.values()
    consts = [r for r in rhss if isinstance(ast.Value.cast(r), ast.Const)]
    nexts = [r for r in rhss if not isinstance(ast.Value.cast(r), ast.Const)]
    if len(nexts) != 1 or len(consts) != 1:
        raise NotXorNetwork("not an XOR network: expected one reset and one advance assignment to the LFSR register")
    return dut, reg, nexts[0], defs, ast.Value.cast(consts[0]).value


def lfsr_networks():
    nets = []
    try:
        dut, reg, nxt, defs, clear_value = _lfsr_fragment()
    except Exception as e:
        err = "%s" % (e,)
        return [("lfsrNext", "ScramblerLFSR next state", [], None, 16, err),
                ("lfsrValue", "ScramblerLFSR.value", [], None, 32, err)], {}
    nets.append(("lfsrNext", "ScramblerLFSR: register[0:%d] -> register after one `advance`" % len(reg), [reg],
                 (nxt, defs), len(reg), None))
    nets.append(("lfsrValue", "ScramblerLFSR: register[0:%d] -> value[0:32]" % len(reg), [reg],
                 (dut.value, defs), 32, None))
    from luna.gateware.usb.usb3.physical.scrambling import Scrambler, Descrambler
    import inspect
    consts = {
        "lfsrWidth": len(reg),
        "lfsrDefaultInit": reg.init,
        "lfsrClearIsInit": int(clear_value == reg.init),
        "scramblerDefaultInit": inspect.signature(Scrambler.__init__).parameters["initial_value"].default,
        "descramblerDefaultInit": inspect.signature(Descrambler.__init__).parameters["initial_value"].default,
    }
    return nets, consts


# --------------------------------------------------------------------------- validation + emission
def _validate_comb(name, rows, inputs, value, width, rng, n=48):
    total = sum(len(s) for s in inputs)
    xs = [0, (1 << total) - 1] + [1 << rng.below(total) for _ in range(8)] + [rng.bits(total) for _ in range(n)]
    got = _comb_eval(inputs, value, width, xs)
    for x, g in zip(xs, got):
        e = eval_table(rows, x)
        if e != g:
            raise RuntimeError("translator self-check failed for %s: input %#x real function %#x, emitted table %#x"
                               % (name, x, g, e))
    return len(xs)


def _validate_lfsr(tables, rng, cycles=160):
    """Run the real ScramblerLFSR (advance with random pauses and a clear) and compare `value` in
    every cycle with the emitted tables iterated in Python."""
    from luna.gateware.usb.usb3.physical.scrambling import ScramblerLFSR
    init = rng.bits(16) | 1
    dut = ScramblerLFSR(initial_value=init)
    stim = []
    for t in range(cycles):
        stim.append([1 if rng.chance(3) else 0, 1 if rng.chance(85) else 0])
    rows = sim.run_cycles(dut, [dut.clear, dut.advance], [dut.value], stim, domain="ss")
    st = init
    for t, ((clr, adv), (val,)) in enumerate(zip(stim, rows)):
        e = eval_table(tables["lfsrValue"], st)
        if e != val:
            raise RuntimeError("translator self-check failed for lfsrValue at cycle %d: state %#x real %#x table %#x"
                               % (t, st, val, e))
        if clr:
            st = init
        elif adv:
            st = eval_table(tables["lfsrNext"], st)
    return cycles


def _lean_rows(rows):
    return "[" + ",\n   ".join("([%s], %s)" % (", ".join(str(i) for i in idx), "true" if inv else "false")
                               for idx, inv in rows) + "]"


HEADER = """/-
GENERATED by harness/translate/affine.py from the gateware sources — do not edit, not committed.
One table per XOR network: for output bit j, row j = (indices of the input bits that are XORed,
inversion flag).  Input numbering: register bits first, then the data bits (see the translator).
-/
namespace LunaVerif.Generated.%s
"""


def _write_if_changed(path, text):
    os.makedirs(os.path.dirname(path), exist_ok=True)
    try:
        if open(path).read() == text:
            return False
    except OSError:
        pass
    tmp = "%s.%d.tmp" % (path, os.getpid())
    with open(tmp, "w") as f:
        f.write(text)
    os.replace(tmp, path)
    return True


_cache = {}


def build_tables(which):
    """Returns (tables {name: rows}, n_inputs {name: n}, consts, errors [(name, message)], docs)."""
    if which in _cache:
        return _cache[which]
    consts = {}
    if which == "crc":
        nets = crc_networks()
    else:
        nets, consts = lfsr_networks()
    tables, nin, errors, docs = {}, {}, [], {}
    for name, doc, inputs, value, width, err in nets:
        docs[name] = doc
        nin[name] = sum(len(s) for s in inputs)
        if err is None:
            try:
                if isinstance(value, tuple):
                    rows, _ = table_of(value[0], inputs, defs=value[1], width=width)
                else:
                    if len(ast.Value.cast(value)) != width:
                        raise NotXorNetwork("not an XOR network: %s returns %d bits, expected %d"
                                            % (name, len(ast.Value.cast(value)), width))
                    rows, _ = table_of(value, inputs)
                tables[name] = rows
                continue
            except NotXorNetwork as e:
                err = str(e)
        errors.append((name, err))
        tables[name] = None
    _cache[which] = (tables, nin, consts, errors, docs, nets)
    return _cache[which]


def _emit(which, namespace, filename):
    tables, nin, consts, errors, docs, nets = build_tables(which)
    rng = Rng(0xAFF1E).fork(which)
    checked = 0
    if which == "crc":
        for name, doc, inputs, value, width, err in nets:
            if tables[name] is not None:
                checked += _validate_comb(name, tables[name], inputs, value, width, rng.fork(name))
    elif tables.get("lfsrNext") is not None and tables.get("lfsrValue") is not None:
        checked += _validate_lfsr(tables, rng)
    txt = HEADER % namespace
    for name in tables:
        rows = tables[name]
        txt += "\n/-- %s (%d input bits)%s -/\n" % (
            docs[name], nin[name], "" if rows is not None else " -- TRANSLATION FAILED: " +
            dict(errors)[name].replace("-/", "- /"))
        txt += "def %s : List (List Nat × Bool) :=\n  %s\n" % (name, _lean_rows(rows if rows is not None else []))
    for k, v in consts.items():
        txt += "\ndef %s : Nat := %d\n" % (k, v)
    txt += "\nend LunaVerif.Generated.%s\n" % namespace
    path = os.path.join(GEN_DIR, filename)
    _write_if_changed(path, txt)
    if errors:
        raise NotXorNetwork("; ".join("%s: %s" % e for e in errors))
    return [{"file": os.path.relpath(path, leanrun.VERIF), "networks": sorted(tables),
             "self_check_inputs": checked}]


def translate_crc():
    """TRANSLATORS entry for C30: regenerates Generated/Affine.lean."""
    return _emit("crc", "Affine", "Affine.lean")


def translate_lfsr():
    """TRANSLATORS entry for C31: regenerates Generated/AffineLfsr.lean."""
    return _emit("lfsr", "AffineLfsr", "AffineLfsr.lean")


if __name__ == "__main__":
    print(translate_crc())
    print(translate_lfsr())
