"""Regenerates /verif/MANIFEST.json from the property modules present in harness/props (one check per
module) and harness/not_applicable.json (reasons for properties without a check)."""
import importlib
import json
import os

VERIF = os.path.dirname(os.path.dirname(os.path.abspath(__file__)))

DEFAULT_TEXT = ("Lean 4 theorems about a hand-written executable model of the gateware module(s), proved for all "
                "histories/inputs/configurations the property quantifies over (induction, no bound); the model is tied "
                "to /repo on every run by lock-step differential co-simulation against the real Amaranth gateware, "
                "and an independent property monitor searches the real traces for a concrete failing input.")
DEFAULT_NOTE = ("Trusted: Lean kernel; axioms limited to propext/Classical.choice/Quot.sound (audited each run); the "
                "co-simulation shows model=gateware only on the generated histories; Amaranth's simulator is the "
                "gateware semantics; environment predicates named in the theorem are assumptions.")


def main():
    props = [json.loads(l) for l in open(os.path.join(VERIF, "properties.jsonl"))]
    na_path = os.path.join(VERIF, "harness", "not_applicable.json")
    na_reasons = json.load(open(na_path)) if os.path.exists(na_path) else {}
    checks, na = [], []
    for p in props:
        pid = p["id"]
        path = os.path.join(VERIF, "harness", "props", pid.lower() + ".py")
        if os.path.exists(path) and pid not in na_reasons:
            mod = importlib.import_module("harness.props." + pid.lower())
            if getattr(mod, "DISABLED", None):
                na.append({"property_id": pid, "reason": mod.DISABLED})
                continue
            partial = getattr(mod, "PARTIAL", "")
            text = getattr(mod, "LEVEL_TEXT", DEFAULT_TEXT)
            if partial:
                text += " PARTIAL: " + partial
            checks.append({
                "property_id": pid,
                "quick_cmd": "./check %s --tier quick" % pid,
                "thorough_cmd": "./check %s --tier thorough" % pid,
                "evidence_file": "evidence/%s.json" % pid,
                "replay_cmd_template": "./check %s --replay {path}" % pid,
                "engine": "lean4-cosim",
                "level_claimed": {"category": "proof", "text": text, "design_ref": "DESIGN.md section 6, " + pid},
                "level_note": getattr(mod, "LEVEL_NOTE", DEFAULT_NOTE),
                "technique": getattr(mod, "TECHNIQUE", "Lean 4 machine-checked proof over an executable model + "
                                                         "differential co-simulation tie to the gateware"),
            })
        else:
            na.append({"property_id": pid, "reason": na_reasons.get(
                pid, "no check built yet: model/theorems for this property are not finished (see DESIGN.md section 6)")})
    man = {
        "version": 1,
        "setup_cmd": "./check --setup",
        "hooks": {
            "guard": "LUNA_VERIF",
            "enable": "no source hooks are needed: every observation is a port of a class the harness instantiates "
                      "from /repo (internal registers are located by name in the elaborated design, read-only)",
            "baseline_off_cmd": "cd /repo && /venv/bin/python -m pytest -ra -q -p no:cacheprovider --timeout=900 "
                                "--continue-on-collection-errors",
            "source_commits": [],
            "add_only": True,
        },
        "engines": [{
            "name": "lean4-cosim", "path": "check",
            "serves_properties": [c["property_id"] for c in checks],
            "kind_free_text": "Lean 4 theorems over executable models (lean/), translators and lock-step "
                              "co-simulation against amaranth.sim (harness/), one entry point ./check",
        }],
        "checks": checks,
        "notes": "See DESIGN.md.  ./check <id> exits 0/1 (VIOLATION line)/2 (infrastructure problem, never a verdict).",
        "not_applicable": na,
    }
    with open(os.path.join(VERIF, "MANIFEST.json"), "w") as f:
        json.dump(man, f, indent=1)
    print("MANIFEST.json: %d checks, %d not_applicable" % (len(checks), len(na)))
    return 0
