"""C02 — USB2 data packet receiver (luna/gateware/usb/usb2/packet.py: USBDataPacketReceiver + USBDataPacketCRC
+ the inter-packet timer, composed as `standalone=True` does and as USBDevice does with a shared CRC unit)."""
from harness.common.framework import Case
from harness.common.rng import Rng
from harness.common import sim
from harness.common import usbref as U

PROP = "C02"
LEAN_MODULES = ["LunaVerif.Props.C02"]
DRIVER = "Driver/C02.lean"
REQUIRED_THEOREMS = ["receiver_events_exact", "receiver_streams_payload", "complete_iff_crc_valid",
                     "mismatch_iff_crc_invalid_and_len_ge_2", "never_both",
                     "ready_for_response_only_after_complete", "pid_reported", "boundary_state_is_idle",
                     "receiver_events_of_raw_history"]
RULE = ("cases = DUT variant (standalone=True at FS | receiver + real CRC + real timer wired as in USBDevice, HS or FS) x "
        "packet sequence; packets drawn from: good DATA0/1/2/MDATA with payload 0..70 bytes, corrupted (bit flip in "
        "payload / in CRC / CRC bytes swapped), PID only, PID + 1 byte, empty rx_active burst, every PID byte 0..255 "
        "followed by random bytes, tokens, handshakes; byte gaps 0..45 cycles, packet separation down to 1 cycle; "
        "'hostile' cases add illegal UTMI patterns, short gaps after good packets and a second CRC user "
        "(model comparison only, monitor off)")
ASSUMPTIONS = [
    "LegalRx: rx_valid only while rx_active and not in the cycle in which rx_active rises",
    "after a data packet with a valid CRC the line stays idle for at least (rx-to-tx delay + 2) cycles (the "
    "receiver sits in INTERPACKET_DELAY and ignores the bus; any USB host leaves far more: at FS the SYNC "
    "alone is 40 cycles); all other packets may be separated by a single idle cycle",
    "no other module restarts the shared CRC unit while a packet is being received (extStart = 0)",
    "timer delay <= counter_max + 1 (true for every table entry)",
]
PARTIAL = ""

DATA_PIDS = [U.PID_DATA0, U.PID_DATA1, U.PID_DATA2, U.PID_MDATA]
HS_DELAY, FS_DELAY, COUNTER_MAX = 1, 10, 640


def gen_cases(tier, rng):
    n = {"quick": 60, "widen": 240}.get(tier, 900)
    out = []
    for k in range(n):
        variant = ["standalone", "wired_fs", "wired_hs"][k % 3]
        out.append({"variant": variant, "hostile": 1 if k % 8 == 7 else 0, "seed": rng.u64(), "k": k})
    return out


# ----------------------------------------------------------------------------------------- stimulus
def make_packet(rng, k):
    """returns (bytes, kind)"""
    kind = rng.weighted([(30, "good"), (8, "flip_payload"), (8, "flip_crc"), (4, "swap_crc"), (5, "pid_only"),
                         (5, "pid_plus1"), (2, "empty"), (8, "anypid"), (5, "token"), (4, "handshake"),
                         (3, "badnibble"), (3, "truncated")])
    pid = rng.choice(DATA_PIDS)
    n = rng.weighted([(3, 0), (3, 1), (3, 2), (2, 3), (6, rng.range(4, 16)), (3, rng.range(17, 70)), (1, 64), (1, 70)])
    payload = rng.bytes(n)
    good = U.data_packet(pid, payload)
    if kind == "good":
        return good, kind
    if kind == "flip_payload":
        if n == 0:
            return good, "good"
        p = list(good)
        p[1 + rng.below(n)] ^= 1 << rng.below(8)
        return p, kind
    if kind == "flip_crc":
        p = list(good)
        p[len(p) - 1 - rng.below(2)] ^= 1 << rng.below(8)
        return p, kind
    if kind == "swap_crc":
        p = list(good)
        p[-1], p[-2] = p[-2], p[-1]
        return p, kind
    if kind == "pid_only":
        return [U.pid_byte(pid)], kind
    if kind == "pid_plus1":
        return [U.pid_byte(pid), rng.below(256)], kind
    if kind == "empty":
        return [], kind
    if kind == "anypid":
        b = (k * 37 + rng.below(256)) % 256
        return [b] + rng.bytes(rng.range(0, 12)), kind
    if kind == "token":
        return U.token_packet(rng.choice([U.PID_OUT, U.PID_IN, U.PID_SETUP, U.PID_SOF, U.PID_PING]),
                              rng.below(128), rng.below(16)), kind
    if kind == "handshake":
        return U.handshake_packet(rng.choice([U.PID_ACK, U.PID_NAK, U.PID_STALL, U.PID_NYET])), kind
    if kind == "badnibble":
        p = list(good)
        p[0] ^= 1 << rng.range(4, 7)
        return p, kind
    # truncated: a good packet cut somewhere
    cut = rng.range(1, len(good))
    return good[:cut], kind


def expected_events(pkt):
    """The property, per packet: (payload streamed, 'complete'|'mismatch'|None, pid nibble)."""
    if not pkt:
        return [], None, None
    b = pkt[0]
    if not (U.pid_ok(b) and (b & 3) == 3) or len(pkt) < 3:
        return [], None, None
    body, lo, hi = pkt[1:-2], pkt[-2], pkt[-1]
    if U.usb2_crc16(body) == lo | (hi << 8):
        return body, "complete", b & 0xF
    return body, "mismatch", None


def make_stimulus(rng, delay, hostile, has_ext=True):
    rows = [[0, 0, rng.below(256), 0]] * rng.range(0, 3)
    npk = rng.range(10, 28)
    tags = set()
    style = rng.choice(["dense", "dense", "mixed", "fs"])
    for k in range(npk):
        pkt, kind = make_packet(rng, k)
        tags.add("pkt:" + kind)
        if len(pkt) > 3:
            tags.add("len:%s" % ("3-10" if len(pkt) <= 10 else "11-40" if len(pkt) <= 40 else ">40"))
        lead = rng.choice([1, 1, 2, 3, 7])
        rows += [[1, 0, rng.below(256), 0]] * lead
        for b in pkt:
            rows.append([1, 1, b, 0])
            if style == "dense":
                g = rng.choice([0, 0, 0, 0, 0, 1])
            elif style == "mixed":
                g = rng.choice([0, 0, 1, 2, 5, 9])
            else:
                g = rng.choice([38, 39, 40, 45]) if len(pkt) < 12 else rng.choice([0, 3, 4])
            rows += [[1, 0, rng.below(256), 0] for _ in range(g)]
        _, outcome, _ = expected_events(pkt)
        gap = rng.choice([1, 1, 1, 2, 3, 5, 12, 13, 20])
        if outcome == "complete" and not hostile:
            gap = delay + 2 + rng.choice([0, 0, 0, 1, 2, 9])
            tags.add("gap-after-good:min" if gap == delay + 2 else "gap-after-good:more")
        else:
            tags.add("gap:%d" % gap if gap < 3 else "gap:>=3")
        if outcome:
            tags.add("outcome:" + outcome)
        rows += [[0, 0, rng.below(256), 0] for _ in range(gap)]
    rows += [[0, 0, 0, 0]] * (delay + 6)
    if hostile:
        tags.add("hostile")
        rows = [list(r) for r in rows]
        for _ in range(rng.range(2, 12)):
            t = rng.below(len(rows))
            what = rng.below(4)
            if what == 0 and not has_ext:
                what = 1
            if what == 0:
                rows[t][3] = 1                          # another CRC user restarts the shared unit
            elif what == 1:
                rows[t][1] = 1                          # rx_valid wherever (possibly without rx_active)
            elif what == 2:
                rows[t][0] ^= 1                         # rx_active glitch
            else:
                rows[t][0], rows[t][1] = 0, 1           # valid without active
    return rows, sorted(tags)


# ----------------------------------------------------------------------------------------- DUT
def build(variant):
    from amaranth import Module, Signal, Elaboratable
    from luna.gateware.usb.usb2.packet import (USBDataPacketReceiver, USBDataPacketCRC, USBInterpacketTimer,
                                                DataCRCInterface)
    from luna.gateware.usb.usb2 import USBSpeed
    from luna.gateware.interface.utmi import UTMIInterface
    utmi = UTMIInterface()
    ext = Signal(name="ext_start")
    if variant == "standalone":
        rx = USBDataPacketReceiver(utmi=utmi, standalone=True)
        return rx, rx, utmi, ext, FS_DELAY

    class Wired(Elaboratable):
        """The receiver with the CRC unit and timer connected the way USBDevice.elaborate does it (the CRC
        unit is shared: a second interface, there the transmitter's, can restart it)."""

        def __init__(self, speed):
            self.rx = USBDataPacketReceiver(utmi=utmi)
            self.speed = speed

        def elaborate(self, platform):
            m = Module()
            m.submodules.rx = rx = self.rx
            m.submodules.crc = crc = USBDataPacketCRC()
            m.submodules.timer = timer = USBInterpacketTimer()
            other = DataCRCInterface()
            crc.add_interface(rx.data_crc)
            crc.add_interface(other)
            timer.add_interface(rx.timer)
            m.d.comb += [
                crc.rx_data.eq(utmi.rx_data), crc.rx_valid.eq(utmi.rx_valid), crc.tx_valid.eq(0),
                other.start.eq(ext), timer.speed.eq(self.speed),
            ]
            return m

    hs = variant == "wired_hs"
    top = Wired(USBSpeed.HIGH if hs else USBSpeed.FULL)
    return top, top.rx, utmi, ext, (HS_DELAY if hs else FS_DELAY)


NAMES_IN = ["rx_active", "rx_valid", "rx_data", "other_crc_start"]
NAMES_OUT = ["stream.valid", "stream.next", "stream.payload", "packet_complete", "crc_mismatch",
             "ready_for_response", "packet_id", "active_pid", "data_crc.crc"]


def monitor(stim, rows, delay):
    """The property on the real trace.  Packets = maximal rx_active runs of the stimulus."""
    fails = []
    pkts = []          # (start, end(first inactive cycle), bytes)
    cur = None
    for t, (a, v, d, _e) in enumerate(stim):
        if a:
            if cur is None:
                cur = [t, None, []]
            if v:
                cur[2].append(d)
        elif cur is not None:
            cur[1] = t
            pkts.append(cur)
            cur = None
    want_complete, want_mismatch, want_ready = {}, set(), set()
    next_cycles_expected = set()
    for (st, en, bs) in pkts:
        body, outcome, pid = expected_events(bs)
        got = [rows[t][2] for t in range(st, en + 1) if rows[t][1]]
        for t in range(st, en + 1):
            if rows[t][1]:
                next_cycles_expected.add(t)
        if got != body:
            fails.append({"cycle": st, "sig": "stream-bytes",
                          "what": "packet at cycle %d (%d bytes after PID): streamed %r, payload is %r"
                                  % (st, max(0, len(bs) - 1), got, body)})
        if outcome == "complete":
            want_complete[en + 1] = pid
            want_ready.add(en + 1 + delay)
        elif outcome == "mismatch":
            want_mismatch.add(en + 1)
    for t, r in enumerate(rows):
        sv, sn, pl, pc, mm, rdy, pid, _ap, _crc = r
        if sn and t not in next_cycles_expected:
            fails.append({"cycle": t, "sig": "stream-next-outside-packet", "what": "stream.next outside any packet"})
        if pc and mm:
            fails.append({"cycle": t, "sig": "both-strobes", "what": "packet_complete and crc_mismatch together"})
        if bool(pc) != (t in want_complete):
            fails.append({"cycle": t, "sig": "complete-strobe",
                          "what": "packet_complete=%d at cycle %d but the CRC16 of the packet ending at %d says %d"
                                  % (pc, t, t - 1, int(t in want_complete))})
        elif pc and pid != want_complete[t]:
            fails.append({"cycle": t, "sig": "packet-id", "what": "packet_id=%d, PID nibble received %d"
                                                                  % (pid, want_complete[t])})
        if bool(mm) != (t in want_mismatch):
            fails.append({"cycle": t, "sig": "mismatch-strobe",
                          "what": "crc_mismatch=%d at cycle %d, expected %d" % (mm, t, int(t in want_mismatch))})
        if bool(rdy) != (t in want_ready):
            fails.append({"cycle": t, "sig": "ready-for-response",
                          "what": "ready_for_response=%d at cycle %d, expected %d (only %d cycles after a completed "
                                  "packet)" % (rdy, t, int(t in want_ready), delay + 1)})
        if len(fails) > 3:
            break
    return fails[:4]


def run_case(desc):
    top, rx, utmi, ext, delay = build(desc["variant"])
    hostile = bool(desc.get("hostile"))
    if desc.get("stimulus"):
        stim, tags = desc["stimulus"], ["replay"]
    else:
        stim, tags = make_stimulus(Rng(desc["seed"]), delay, hostile, desc["variant"] != "standalone")
    ins = [utmi.rx_active, utmi.rx_valid, utmi.rx_data, ext]
    outs = [rx.stream.valid, rx.stream.next, rx.stream.payload, rx.packet_complete, rx.crc_mismatch,
            rx.ready_for_response, rx.packet_id, rx.active_pid, rx.data_crc.crc]
    rows = sim.run_cycles(top, ins, outs, stim, domain="usb")
    fails = [] if hostile else monitor(stim, rows, delay)
    tags = list(tags) + ["variant:" + desc["variant"]]
    return Case([delay, COUNTER_MAX], stim, rows, fails, tags, desc, NAMES_IN, NAMES_OUT)
