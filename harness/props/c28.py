"""C28 — USBOutStreamBoundaryDetector (luna/gateware/usb/stream.py)."""
from harness.common.framework import Case
from harness.common.rng import Rng
from harness.common import sim

PROP = "C28"
LEAN_MODULES = ["LunaVerif.Props.C28"]
DRIVER = "Driver/C28.lean"
REQUIRED_THEOREMS = ["same_bytes_in_order", "first_on_first_last_on_last", "strobes_after_last_byte",
                     "detector_refines_transducer", "next_implies_valid"]
RULE = ("cases = stimulus mode x seed; legal: packets of 1..20 bytes (also 0-byte activations), 0..3 wait cycles "
        "between bytes, complete/invalid strobes at every offset (before, at the first byte, between bytes, in the "
        "cycle active falls, after), 1..4 idle cycles between packets; dense: minimum gaps everywhere; "
        "random: uniformly random input bits (environment assumption violated: model comparison only)")
ASSUMPTIONS = ["the cycle immediately after the cycle in which valid fell at the end of a packet carries no byte "
               "(valid & next): on the bus EOP, inter-packet gap, SYNC and PID separate two packets, so the "
               "OUTPUT_STROBES cycle never sees a byte",
               "strobes 'seen during a packet' = asserted after the cycle of the packet's first byte, up to and "
               "including the cycle in which valid falls (the code clears its strobe buffers in WAIT_FOR_FIRST_BYTE)"]
PARTIAL = ""
KNOWN_SIGS = {}

MODES = ["legal", "dense", "strobes", "random"]


def gen_cases(tier, rng):
    reps = {"quick": 50, "widen": 100}.get(tier, 400)
    return [{"mode": m, "seed": rng.u64()} for m in MODES for _ in range(reps)]


def make_stimulus(mode, rng):
    rows = []
    if mode == "random":
        pv, pn, ps = rng.choice([50, 80, 95]), rng.choice([30, 60, 90]), rng.choice([2, 10, 40])
        for _ in range(400):
            rows.append([int(rng.chance(pv)), int(rng.chance(pn)), rng.below(256), int(rng.chance(ps)), int(rng.chance(ps))])
        return rows
    pstrobe = {"legal": 4, "dense": 4, "strobes": 35}[mode]

    def strobes(p=None):
        p = pstrobe if p is None else p
        return [int(rng.chance(p)), int(rng.chance(p))]

    npk = rng.range(4, 12)
    for _ in range(npk):
        n = rng.weighted([(1, 0), (3, 1), (3, 2), (2, 3), (6, rng.range(4, 20))])
        # idle (inactive) cycles before the packet; at least one
        for _ in range(1 if mode == "dense" else rng.range(1, 4)):
            rows.append([0, int(rng.chance(10)), rng.below(256)] + strobes())
        # valid rises, usually some cycles before the first byte (dense: the first byte comes with it)
        for _ in range(0 if mode == "dense" else rng.range(0, 3)):
            rows.append([1, 0, rng.below(256)] + strobes())
        kind = rng.below(4)     # where the completion strobe of this packet goes
        for k in range(n):
            if mode != "dense":
                for _ in range(rng.weighted([(6, 0), (2, 1), (1, 3)])):
                    rows.append([1, 0, rng.below(256)] + strobes())
            rows.append([1, 1, rng.below(256)] + strobes(60 if (kind == 0 and k == n - 1) else None))
        # trailing active cycles without data (CRC bytes are not forwarded), then active falls
        for _ in range(0 if mode == "dense" else rng.range(0, 2)):
            rows.append([1, 0, rng.below(256)] + strobes(70 if kind == 1 else None))
        rows.append([0, 0, rng.below(256)] + ([1, 0] if kind == 2 else [0, 1] if kind == 3 and rng.chance(50) else strobes()))
        if rng.chance(50):
            rows.append([0, 0, 0] + strobes(50))     # a strobe one cycle late: dropped by the code, and by the property
    rows.extend([[0, 0, 0, 0, 0]] * 3)
    return rows


def env_ok(stim):
    """no byte in the cycle immediately after the cycle in which valid fell at the end of a packet"""
    in_pkt, ended = False, False
    for t, r in enumerate(stim):
        byte = r[0] and r[1]
        if ended and byte:
            return False, t
        ended = in_pkt and not r[0]
        in_pkt = (in_pkt and bool(r[0])) or bool(byte)
    return True, None


def expected_events(stim):
    """The property: per packet (bytes between the first byte and the cycle valid falls) its bytes in order
    with first/last marks, then one strobe event carrying the OR of the strobes seen during the packet."""
    ev, cur = [], None
    for valid, nxt, payload, cin, iin in stim:
        if cur is None:
            if valid and nxt:
                cur = {"bytes": [payload], "c": 0, "i": 0}
        else:
            cur["c"] |= cin
            cur["i"] |= iin
            if valid and nxt:
                cur["bytes"].append(payload)
            elif not valid:
                n = len(cur["bytes"])
                for k, b in enumerate(cur["bytes"]):
                    ev.append(("byte", b, int(k == 0), int(k == n - 1)))
                if cur["c"] or cur["i"]:
                    ev.append(("strobe", cur["c"], cur["i"]))
                cur = None
    return ev


def observed_events(rows):
    ev = []
    for valid, nxt, payload, first, last, cout, iout in rows:
        if nxt:
            ev.append(("byte", payload, first, last))
        if cout or iout:
            ev.append(("strobe", cout, iout))
    return ev


def run_case(desc):
    from luna.gateware.usb.stream import USBOutStreamBoundaryDetector
    d = USBOutStreamBoundaryDetector()
    stim = desc.get("stimulus") or make_stimulus(desc.get("mode", "legal"), Rng(desc["seed"]))
    u, p = d.unprocessed_stream, d.processed_stream
    ins = [u.valid, u.next, u.payload, d.complete_in, d.invalid_in]
    outs = [p.valid, p.next, p.payload, d.first, d.last, d.complete_out, d.invalid_out]
    rows = sim.run_cycles(d, ins, outs, stim, domain="usb")
    fails, tags = [], {"mode=" + desc.get("mode", "replay")}
    ok, _ = env_ok(stim)
    quiescent = len(stim) >= 3 and all(r[0] == 0 for r in stim[-3:])
    if ok:
        exp = expected_events(stim)
        got = observed_events(rows)
        if not quiescent:     # the last packet may still be on its way: compare the common prefix only
            m = min(len(exp), len(got))
            exp, got = exp[:m], got[:m]
        if exp != got:
            k = next((j for j, (a, b) in enumerate(zip(exp, got)) if a != b), min(len(exp), len(got)))
            a = exp[k] if k < len(exp) else None
            b = got[k] if k < len(got) else None
            if (a and a[0] == "strobe") or (b and b[0] == "strobe"):
                sig = "boundary-strobes"
            elif a and b and a[0] == "byte" and b[0] == "byte" and a[1] == b[1]:
                sig = "boundary-first-last"
            else:
                sig = "boundary-bytes"
            fails.append({"cycle": k, "sig": sig, "what":
                          "event %d of the processed stream is %s, the packets on the raw stream require %s "
                          "(byte events: payload, first, last; strobe events: complete, invalid)" % (k, b, a)})
        for t, r in enumerate(rows):
            if r[1] and not r[0]:
                fails.append({"cycle": t, "sig": "boundary-next-without-valid", "what": "processed next=1 while valid=0"})
                break
        for e in exp:
            if e[0] == "strobe": tags.add("strobe c=%d i=%d" % (e[1], e[2]))
            if e[0] == "byte" and e[2] and e[3]: tags.add("one-byte packet")
        tags.add("env-ok")
    else:
        tags.add("env-violated (model comparison only)")
    # payload/first/last are compared with the model in every cycle (the model has the registers)
    return Case([], stim, rows, fails, sorted(tags), desc,
                ["valid", "next", "payload", "complete_in", "invalid_in"],
                ["valid", "next", "payload", "first", "last", "complete_out", "invalid_out"])
