"""C10 — see harness/props/dev_ctl.py (event level, shared with the other control-endpoint properties),
harness/props/c07_cyc.py (cycle level, run through `extra_checks`) and harness/props/c10_unclaimed.py (monitor-only
cases, desc["kind"] == "unclaimed": control endpoints assembled by hand in which standard requests reach the request
multiplexer's fallback handler -- no StandardRequestHandler, or one with a skiplist)."""
from harness.common import framework
from harness.props import dev_ctl, c07_cyc, c07, c10_unclaimed

PROP = "C10"
# Lemmas/C10Mps.lean: the theorems of Props/C10.lean over coreM / stepM (every control max packet size: the model drv_dev steps
# and the event-level co-simulation runs at 8 / 16 / 32 / 64)
LEAN_MODULES = ["LunaVerif.Props.C10"] + dev_ctl.CYC_MODULES + c07.STREAM_MODULES + ["LunaVerif.Lemmas.C10Mps"]
DRIVER = dev_ctl.DRIVER
REQUIRED_THEOREMS = ["unsupported_never_answered", "unsupported_first_request_stalled", "unsupported_setup_establishes_handling", "handling_step",
                     "unhandled_stalls", "unhandled_waits_silently", "unclaimed_request_stalls", "cycle_refines_event",
                     "cycle_refines_event_run",
                     "coreM_ctl", "stepM_ctl", "unsupported_never_answered_mps", "handling_step_mps",
                     "unsupported_setup_establishes_handling_mps"]
RULE = dev_ctl.RULE + dev_ctl.CYC_RULE + c07.RULE_SYS + c10_unclaimed.RULE
ASSUMPTIONS = [a.replace("no skiplist", "no skiplist (the cases compared with the model; the fallback layouts of "
                         "c10_unclaimed.py have skiplists and are judged by the monitor only)")
               for a in dev_ctl.ASSUMPTIONS] + c10_unclaimed.ASSUMPTIONS
PARTIAL = c07.PARTIAL_STREAMS + dev_ctl.PARTIAL["C10"][len(dev_ctl.PARTIAL_COMMON):]


def gen_cases(tier, rng):
    # (the fallback-layout cases draw from a fork: the dev cases are the same as without them)
    return dev_ctl.gen_dev_cases(tier, rng, "c10") + c10_unclaimed.gen_cases(tier, rng.fork("unclaimed"))


def run_case(desc):
    if desc.get("kind") == "unclaimed":
        return c10_unclaimed.run_case(desc)
    if desc.get("mode") == "cyc":
        return c07_cyc.run_case(desc)
    return dev_ctl.run_dev_case(desc, PROP)


def extra_checks(tier, rng, proof):
    return c07_cyc.extra_checks(tier, rng, proof, nproc=framework.NPROC, profiles=("c10",))
