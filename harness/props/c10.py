"""C10 — see harness/props/dev_ctl.py (shared with the other control-endpoint properties)."""
from harness.props import dev_ctl

PROP = "C10"
LEAN_MODULES = ["LunaVerif.Props.C10"]
DRIVER = dev_ctl.DRIVER
REQUIRED_THEOREMS = ["unsupported_never_answered", "unsupported_first_request_stalled", "unsupported_setup_establishes_handling", "handling_step"]
RULE = dev_ctl.RULE
ASSUMPTIONS = dev_ctl.ASSUMPTIONS
PARTIAL = dev_ctl.PARTIAL["C10"]


def gen_cases(tier, rng):
    return dev_ctl.gen_dev_cases(tier, rng, "c10")


def run_case(desc):
    return dev_ctl.run_dev_case(desc, PROP)
