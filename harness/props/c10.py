"""C10 — see harness/props/dev_ctl.py (event level, shared with the other control-endpoint properties) and
harness/props/c07_cyc.py (cycle level, run through `extra_checks`)."""
from harness.common import framework
from harness.props import dev_ctl, c07_cyc, c07

PROP = "C10"
LEAN_MODULES = ["LunaVerif.Props.C10"] + dev_ctl.CYC_MODULES + c07.STREAM_MODULES
DRIVER = dev_ctl.DRIVER
REQUIRED_THEOREMS = ["unsupported_never_answered", "unsupported_first_request_stalled", "unsupported_setup_establishes_handling", "handling_step",
                     "unhandled_stalls", "unhandled_waits_silently", "unclaimed_request_stalls", "cycle_refines_event",
                     "cycle_refines_event_run"]
RULE = dev_ctl.RULE + dev_ctl.CYC_RULE + c07.RULE_SYS
ASSUMPTIONS = dev_ctl.ASSUMPTIONS
PARTIAL = c07.PARTIAL_STREAMS + dev_ctl.PARTIAL["C10"][len(dev_ctl.PARTIAL_COMMON):]


def gen_cases(tier, rng):
    return dev_ctl.gen_dev_cases(tier, rng, "c10")


def run_case(desc):
    if desc.get("mode") == "cyc":
        return c07_cyc.run_case(desc)
    return dev_ctl.run_dev_case(desc, PROP)


def extra_checks(tier, rng, proof):
    return c07_cyc.extra_checks(tier, rng, proof, nproc=framework.NPROC, profiles=("c10",))
