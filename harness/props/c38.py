"""C38 — link re-entry always re-advertises sequence number and credits
(luna/gateware/usb/usb3/link/receiver.py: HeaderPacketReceiver reset-on-disable handling; F14)."""
from harness.common.framework import Case
from harness.common.rng import Rng
from harness.props import sslink_util as U
from harness.props import c37

PROP = "C38"
LEAN_MODULES = ["LunaVerif.Props.C38"]
DRIVER = "Driver/C37.lean"          # same model (HeaderRx.step with fix = true), same port list
REQUIRED_THEOREMS = ["reenable_readvertises", "reenable_readvertises_abort", "reset_makes_fresh", "reenable_fails",
                     "reenable_stale_fails", "stale_completion_taken_for_lgood"]
RULE = ("cases = the C37 closed-loop partner + a link controller that drops `enable` and/or asserts `usb_reset` "
        "(1..40 cycles, usb_reset alone / enable alone / usb_reset one cycle ahead of enable as the LTSSM does) "
        "triggered on the generator phase seen on the source (idle / SLC header word / command word) after a random "
        "up-time, so that every dispatch state (SEND_ACKS, ISSUE_CREDITS, SEND_LBAD, SEND_LRTY, SEND_KEEPALIVE, "
        "SEND_LXU, DISPATCH) and every generator phase is hit; short and long down times, stalled and granted source")
ASSUMPTIONS = [
    "model = the REPAIRED receiver: F14 repairs (in /repo main) and the generator abort (fix: commit 727706c in branch "
    "wt-prove-c37: the LinkCommandGenerator is reset by link_reset); the model follows whichever generator the gateware "
    "under test has (functional probe -> Config.abort), the monitor states the property for both",
    "no header is being taken over in the very cycle the link goes down (raw receiver outside CHECK_PACKET/new_packet)",
    "while the link is down and until the advertisement is complete: no sink traffic is accepted, no retry request",
]
PARTIAL = ""

IN_NAMES, OUT_NAMES = c37.IN_NAMES, c37.OUT_NAMES


class Link:
    """decides enable / usb_reset per cycle from what is visible on the ports"""

    def __init__(self, rng, desc):
        self.rng = rng
        self.state = "boot"
        self.left = desc.get("en_delay", 0)
        self.plan = None
        self.style = desc.get("style", 0)
        self.arm()

    def arm(self):
        r = self.rng
        self.uptime = r.choice([3, 6, 10, 20, 40, 90, 150]) + r.below(12)
        self.trigger = r.choice(["idle", "header", "command", "command", "header", "any", "qvalid"])
        self.kind = r.choice(["disable", "disable", "usb_reset", "both", "both"])
        self.down = r.choice([1, 2, 3, 5, 8, 12, 20, 40]) if self.style == 0 else r.choice([10, 20, 40])
        self.rst_len = r.choice([1, 1, 2, 5, self.down + 1])

    def __call__(self, t, partner, prev):
        r = self.rng
        if self.state == "boot":
            if self.left > 0:
                self.left -= 1
                return 0, 0
            self.state = "up"
        if self.state == "up":
            self.uptime -= 1
            fire = False
            if self.uptime <= 0 and prev is not None:
                phase = "idle" if not prev[c37.O_SV] else ("header" if prev[c37.O_SC] == 15 else "command")
                fire = (self.trigger == "any" or self.trigger == phase or (self.trigger == "qvalid" and prev[c37.O_QV])
                        or self.uptime < -60)
            if not fire:
                return 1, 0
            partner.link_down()
            self.state = "down"
            self.t_down = 0
        # going / being down
        k = self.t_down
        self.t_down += 1
        if self.kind == "disable":
            en, rst = (0 if k < self.down else 1), 0
        elif self.kind == "usb_reset":
            en, rst = 1, (1 if k < self.rst_len else 0)
            if k >= self.rst_len:
                en = 1
        else:   # usb_reset rises, enable falls one cycle later (LTSSM leaves U0), reset held, link returns later
            rst = 1 if k < self.rst_len else 0
            en = 1 if k == 0 else (0 if k <= self.down else 1)
        done = (self.kind == "disable" and k >= self.down) or (self.kind == "usb_reset" and k >= self.rst_len) or \
               (self.kind == "both" and k > self.down and k >= self.rst_len)
        if done:
            self.state = "up"
            self.arm()
            partner.link_up()
            return 1, 0
        return en, rst


class Partner38(c37.Partner):
    def __init__(self, rng, desc):
        super().__init__(rng, desc, link=Link(rng.fork("link"), desc))
        self.is_down = False

    def link_down(self):
        self.is_down = True
        self.txq = []
        self.credits = 0
        self.next_seq = None
        self.unacked = []
        self.need_retry = False
        self.cmd_hdr = False

    def link_up(self):
        self.is_down = False
        self.cmd_hdr = False

    def observe(self, prev_in, prev_out):
        if self.is_down or not prev_in[c37.I_EN]:
            return                       # a partner does not hear us while the link is down
        super().observe(prev_in, prev_out)

    def plan(self):
        if self.is_down and self.mode != "chaos":
            self.txq.append((self.rng.below(2) if self.rng.chance(10) else 0, 0, 0, 0))
            return
        super().plan()

    def drive(self, t, prev_out):
        row = super().drive(t, prev_out)
        if self.is_down and self.mode != "chaos":
            row[c37.I_RRQ] = 0           # our transmitter sees no LBAD while the link is down
            if self.rng.chance(85):
                row[c37.I_RDY] = 1       # the physical layer keeps accepting (and discarding) words
        return row


def gen_cases(tier, rng):
    n = {"quick": 72, "widen": 160, "thorough": 720}[tier]
    out = []
    for k in range(n):
        mode = "chaos" if k % 12 == 11 else "legal"
        out.append({"mode": mode, "k": rng.below(64), "seed": rng.u64(), "cycles": 1500 if tier == "quick" else 2600,
                    "en_delay": rng.choice([0, 0, 1, 4]), "p_corrupt": rng.choice([0, 10, 30]),
                    "p_strobe": rng.choice([1, 3, 3, 6]), "style": k % 3 == 2 and 1 or 0})
    return out


def run_case(desc):
    problems = U.validate_reference_crcs()
    if problems:
        # the gateware's own CRC logic no longer computes the USB 3.2 CRCs the property is stated with:
        # headers with correct check fields would be rejected (or corrupted ones accepted)
        return Case([0], [[0]], [[None]], [{"cycle": 0, "sig": "gateware-crc-differs-from-specification",
                    "what": "the link-layer CRC logic of the gateware disagrees with the USB 3.2 CRC-5/CRC-16 "
                            "definitions: %r" % (problems[:2],)}], ["crc-reference-mismatch"], desc, ["-"], ["-"],
                    lean=False)
    dut, ins, outs = c37.build()
    if desc.get("stimulus"):
        irows, orows = U.run_open(dut, ins, outs, desc["stimulus"])
        ptags = set()
    else:
        p = Partner38(Rng(desc["seed"]), desc)
        irows, orows = U.run_closed(dut, ins, outs, p.drive, desc.get("cycles", 1500))
        ptags = p.tags
    mon = c37.Monitor()
    mon.run(irows, orows)
    tags = sorted(mon.tags | ptags | {"mode:" + desc.get("mode", "replay")})
    return Case([1, 0, c37.generator_abort()], irows, [list(r) for r in orows], mon.fails, tags, desc, IN_NAMES, OUT_NAMES)
