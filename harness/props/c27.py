"""C27 — ConstantStreamGenerator / StreamSerializer (luna/gateware/stream/generator.py)."""
from harness.common.framework import Case
from harness.common.rng import Rng
from harness.common import sim

PROP = "C27"
LEAN_MODULES = ["LunaVerif.Lemmas.StreamGenSpec", "LunaVerif.Props.C27",
                "LunaVerif.Lemmas.C27AllStartsArith", "LunaVerif.Props.C27AllStarts"]
DRIVER = "Driver/C27.lean"
REQUIRED_THEOREMS = ["emits_slice", "first_last_flags", "valid_mask_partial_word", "done_once", "nothing_when_len_zero",
                     "serializer_emits_slice", "validMask_eq", "onLast_eq", "step_sim", "ser_step_sim",
                     # every value of the start_position port (no 'within the data' hypothesis)
                     "emits_all_starts", "within_data_is_slice", "beyond_len_emits_last_word",
                     "beyond_data_not_the_slice", "unclamped_beyond_words", "first_iff", "first_last_flags_all",
                     "valid_mask_partial_word_all", "done_once_all", "serializer_emits_all_starts",
                     "ser_within_is_slice", "ser_beyond_emits_last", "validMask_gen", "posA_facts", "step_simA",
                     "ser_step_simA"]
RULE = ("cases = generator configuration (data length in {1,2,3,4,5,8,17,64}(+more thorough), word width 8/16/32 bits, "
        "little/big endian, max_length port (the class does not elaborate without one), 1-bit or per-byte valid; USB descriptor flavour) or serializer "
        "configuration (data_length 1..8, with/without max_length) x request script: every start position, max_length "
        "in 0..len+5, ready patterns always/random/stall-on-last-word/alternate, start held or pulsed, starts while busy; "
        "'in-domain' scripts (inputs stable during an emission; start positions within the data AND every kind of value beyond it: "
        "clamped at the byte length, unclamped between word count and byte length, truncated to the position register - "
        "coverage tags start-*) are judged by the monitor against the slice resp. the documented clamp / as-coded emission "
        "of emits_all_starts, 'wild' scripts (any signal value each cycle) only tie the model to the code; "
        "'sweep' generator configurations: max_length_width 3..8 x word width 1/2/4 bytes (1-bit and per-byte valid) x constant "
        "of 2**mlw + 2*wb + 3 bytes (longer than the port can count), start positions 0, 1, random, max_length swept over the "
        "top 2*wb+1 values of its range (2**mlw-1 downwards, where bytes_sent + bytes_per_word reaches 2**mlw) and the rest of "
        "the range (complete for mlw <= 4, sampled above), in-domain scripts judged by the monitor")
ASSUMPTIONS = ["start_position held stable while streaming (first is computed from the live input); emits_all_starts / "
               "serializer_emits_all_starts put NO restriction on the requested start position (emits_slice: within the data, in words)",
               "out-of-range ROM addresses (start_position between the word count and the byte length, multi-byte words) read 0, "
               "as in the Amaranth simulator",
               "serializer: data[], max_length held stable while streaming (they are not latched)",
               "bytes-like constant data, word width 1, 2 or 4 bytes, valid width 1 or one bit per byte"]
PARTIAL = ("ConstantStreamGenerator without max_length_width cannot be elaborated at all (AttributeError: bytes_sent is a "
           "Python int) and is therefore outside model and theorems")

LENS = [1, 2, 3, 4, 5, 8, 17, 64]


# ---------------------------------------------------------------- configurations
def gen_configs(tier, rng):
    cfgs = []
    lens = LENS if tier != "thorough" else LENS + [6, 7, 9, 15, 16, 31, 32, 33, 63, 65]
    for L in lens:
        for (wb, vw) in [(1, 1), (4, 4), (4, 1), (2, 1), (2, 2)]:
            for mlw in (8,):
                for big in ((0, 1) if wb > 1 else (0,)):
                    cfgs.append({"kind": 0, "len": L, "wb": wb, "vw": vw, "mlw": mlw, "big": big, "flavour": "plain"})
        cfgs.append({"kind": 0, "len": L, "wb": 1, "vw": 1, "mlw": 16, "big": 0, "flavour": "usb-descriptor"})
    for n in [1, 2, 3, 4, 5, 8]:
        for mlw in (0, 2 if n <= 2 else 4):
            cfgs.append({"kind": 1, "len": n, "wb": 1, "vw": 1, "mlw": mlw, "big": 0,
                         "flavour": "usb-in" if n == 2 else "plain"})
    # narrow max_length ports with constants LONGER than 2**mlw bytes: max_length is swept up to the very top of its
    # range, where bytes_sent + bytes_per_word reaches / exceeds 2**mlw (the comparison must not wrap at the port width)
    for mlw in (3, 4, 5, 6, 7, 8):
        for (wb, vw) in [(1, 1), (4, 4), (4, 1), (2, 1), (2, 2)]:
            extra = [2 * wb + 3] if tier != "thorough" else [1, wb + 1, 2 * wb + 3, 4 * wb + 2]
            for e in extra:
                cfgs.append({"kind": 0, "len": (1 << mlw) + e, "wb": wb, "vw": vw, "mlw": mlw,
                             "big": (mlw + wb) & 1 if wb > 1 else 0, "flavour": "plain", "sweep": 1})
    return cfgs


def gen_cases(tier, rng):
    cfgs = gen_configs(tier, rng)
    out = []
    per = {"quick": 1, "widen": 3, "thorough": 4}[tier]
    k = 0
    for c in cfgs:
        if tier == "quick" and c["kind"] == 0 and c["wb"] == 2 and c["len"] not in (3, 5, 17) and not c.get("sweep"):
            continue
        for j in range(1 if c.get("sweep") and tier != "thorough" else per + (1 if c["kind"] == 1 else 0)):
            d = dict(c)
            d.update({"seed": rng.u64(), "k": k, "mode": "wild" if (k % 4 == 3 and not c.get("sweep")) else "domain"})
            out.append(d)
            k += 1
    return out


def build(desc, data):
    from luna.gateware.stream import StreamInterface
    from luna.gateware.stream.generator import ConstantStreamGenerator, StreamSerializer
    kind, wb, vw, mlw = desc["kind"], desc["wb"], desc["vw"], desc["mlw"]
    if kind == 0:
        kw = {"max_length_width": mlw or None, "data_endianness": "big" if desc["big"] else "little"}
        if desc["flavour"] == "usb-descriptor":
            from luna.gateware.usb.usb2.descriptor import USBDescriptorStreamGenerator
            return USBDescriptorStreamGenerator(bytes(data)), "usb"
        if wb == 1:
            return ConstantStreamGenerator(bytes(data), **kw), "sync"
        if wb == 4 and vw == 4:
            from luna.gateware.usb.stream import SuperSpeedStreamInterface
            return ConstantStreamGenerator(bytes(data), stream_type=SuperSpeedStreamInterface, domain="ss", **kw), "ss"
        if vw == 1:
            return ConstantStreamGenerator(bytes(data), data_width=8 * wb, **kw), "sync"
        st = lambda payload_width=8 * wb: StreamInterface(payload_width=payload_width, valid_width=vw)  # noqa: E731
        return ConstantStreamGenerator(bytes(data), data_width=8 * wb, stream_type=st, **kw), "sync"
    if desc["flavour"] == "usb-in":
        from luna.gateware.usb.stream import USBInStreamInterface
        return StreamSerializer(data_length=desc["len"], domain="usb", stream_type=USBInStreamInterface,
                                max_length_width=mlw or None), "usb"
    return StreamSerializer(data_length=desc["len"], max_length_width=mlw or None), "sync"


# ---------------------------------------------------------------- the property, as a slice of the data
def expected_words(desc, data, s, ml):
    """Words (payload, valid_mask) the property requires for start position s (in words) and max length ml (in
    bytes; None = no limit): the data from the start position onward, limited to ml bytes."""
    kind, wb, vw = desc["kind"], desc["wb"], desc["vw"]
    if kind == 1:
        n = len(data)
        cnt = n - s if ml is None else min(ml, n - s)
        return [(data[s + k], 1) for k in range(max(cnt, 0))]
    total = len(data) - s * wb
    B = total if ml is None else min(ml, total)
    N = (B + wb - 1) // wb
    out = []
    for k in range(N):
        chunk = bytes(data[(s + k) * wb:(s + k + 1) * wb])
        payload = int.from_bytes(chunk, "big" if desc["big"] else "little")
        nbytes = min(wb, B - k * wb)
        out.append((payload, (1 << nbytes) - 1 if vw > 1 else 1))
    return out


def expected_emission(desc, data, sp, ml):
    """(words, first_flagged) for ANY value sp of the start_position port, as the code documents it ("If our starting
    position is greater than our data length, use our data length") and as emits_all_starts / serializer_emits_all_starts
    state it: within the data the slice; at or beyond the length (generator: the BYTE length) the clamp - the last word
    only, `first` not flagged; generator with multi-byte words and words <= sp < len(data): no clamp, truncation to the
    position register, then (if still beyond the last word) the out-of-range positions up to the wrap (payload None =
    not judged: an out-of-range ROM read) followed by the constant from its beginning, max_length counting all of it."""
    kind, wb, vw = desc["kind"], desc["wb"], desc["vw"]
    if kind == 1:
        n = len(data)
        if sp < n:
            return expected_words(desc, data, sp, ml), True
        return expected_words(desc, data, n - 1, ml), False
    L = len(data)
    W = (L + wb - 1) // wb
    if sp < W:
        return expected_words(desc, data, sp, ml), True
    if sp >= L:
        return expected_words(desc, data, W - 1, ml), False
    PW = 1 << max(W - 1, 0).bit_length()
    e = sp % PW
    if e < W:
        return expected_words(desc, data, e, ml), False      # e != sp: truncated
    lead = PW - e
    full = (1 << wb) - 1 if vw > 1 else 1
    if ml is not None and ml <= lead * wb:
        N = (ml + wb - 1) // wb
        return [(None, (1 << min(wb, ml - k * wb)) - 1 if vw > 1 else 1) for k in range(N)], e == sp
    return [(None, full)] * lead + expected_words(desc, data, 0, None if ml is None else ml - lead * wb), e == sp


def sp_region(desc, sp):
    wb, L = desc["wb"], desc["len"]
    W = n_words(desc)
    if sp < W:
        return "within"
    if sp >= L:
        return "clamped"
    PW = 1 << max(W - 1, 0).bit_length()
    if sp >= PW:
        return "truncated-into-data" if sp % PW < W else "truncated-beyond-words"
    return "unclamped-beyond-words"


def n_words(desc):
    return (desc["len"] + desc["wb"] - 1) // desc["wb"] if desc["kind"] == 0 else desc["len"]


def make_stimulus(desc, data, rng):
    """rows: start, start_position, max_length, ready [, d0..d_{n-1}]"""
    kind, mlw, L = desc["kind"], desc["mlw"], desc["len"]
    W = n_words(desc)
    spw = max(L - 1, 0).bit_length()
    ser = kind == 1
    rows = []
    wild = desc["mode"] == "wild"
    cur = list(data)

    def row(start, sp, ml, ready):
        r = [start, sp, ml, ready]
        if ser:
            r += cur
        return r
    if wild:
        n = 500
        sp, ml = 0, 1
        for t in range(n):
            if rng.chance(15):
                sp = rng.below(1 << spw) if spw else 0
            if rng.chance(15):
                ml = rng.choice([0, 1, 2, rng.below(1 << mlw)]) if mlw else 0
            if ser and rng.chance(10):
                cur = [rng.below(256) for _ in cur]
            rows.append(row(int(rng.chance(30)), sp, ml, int(rng.chance(60))))
        return rows
    # in-domain request script: every start position once (shuffled), max lengths around the interesting values
    sps = rng.shuffle(list(range(W)))
    if len(sps) > 12:
        sps = sps[:8] + [0, W - 1, W - 2, 1]
    # every kind of value the port can carry beyond the data: words <= sp < 2**width (clamped at the byte length,
    # unclamped between the word count and the byte length, truncated when wider than the position register)
    beyond = list(range(W, 1 << spw))
    if len(beyond) > 7:
        PWv = 1 << max(W - 1, 0).bit_length()
        pick = [v for v in (W, W + 1, PWv - 1, PWv, PWv + 1, PWv + W, 2 * PWv - 1, L - 1, L, L + 1, (1 << spw) - 1)
                if W <= v < (1 << spw)]
        beyond = sorted(set(pick + [rng.choice(beyond) for _ in range(2)]))
    if beyond and not desc.get("sweep"):
        sps = rng.shuffle(sps + beyond)
    ready_modes = ["always", "random", "stall-last", "alternate", "sparse"]
    t_budget = 2600
    sweep = bool(desc.get("sweep"))
    if sweep:
        # constant longer than 2**mlw: start at the beginning (the max-length end always comes first), one word in, and
        # somewhere else; max_length = every value of the top 2*wb+1 of the port's range first, then the rest of the
        # range (all of it for narrow ports)
        sps = [0, 1] + ([rng.below(W)] if mlw <= 6 else [])
        t_budget = 5000
        if mlw >= 6:
            ready_modes = ["always", "random", "stall-last"]
    for s in sps:
        if s < W:
            remaining = L - s * desc["wb"] if kind == 0 else L - s
        else:
            # bytes the as-coded emission plays without a limit
            full_exp = expected_emission(desc, cur if ser else data, s, None if not mlw else (1 << 30))[0]
            remaining = sum(bin(v).count("1") for _, v in full_exp) if desc["vw"] > 1 else len(full_exp) * desc["wb"]
        if sweep:
            top = list(range((1 << mlw) - 1, max((1 << mlw) - 2 * desc["wb"] - 2, 0), -1))
            rest = rng.shuffle([v for v in range(1, 1 << mlw) if v not in top])
            mls = top + rest[:len(rest) if mlw <= 4 else 6 if mlw == 5 else 2]
        elif mlw:
            cand = [0, 1, 2, remaining - 1, remaining, remaining + 1, L, L + 5, desc["wb"], desc["wb"] + 1,
                    rng.range(0, L + 5)]
            cand = [c for c in cand if 0 <= c < (1 << mlw)]
            mls = [rng.choice(cand) for _ in range(3)]
        else:
            mls = [0]
        for ml in mls:
            if len(rows) > t_budget:
                break
            if ser and rng.chance(50):
                cur = [rng.below(256) for _ in cur]
            exp = expected_emission(desc, cur if ser else data, s, ml if mlw else None)[0]
            for _ in range(rng.range(1, 3)):
                rows.append(row(0, s if rng.chance(70) else rng.below(W), ml if rng.chance(70) else rng.below(4), int(rng.chance(50))))
            hold = rng.chance(30)
            rows.append(row(1, s, ml, int(rng.chance(50))))
            if mlw and ml == 0:
                continue
            mode = rng.choice(ready_modes)
            left = len(exp)
            t = 0
            stall = rng.range(1, 5)
            while left > 0:
                if mode == "always":
                    rdy = 1
                elif mode == "random":
                    rdy = int(rng.chance(60))
                elif mode == "sparse":
                    rdy = int(rng.chance(20))
                elif mode == "alternate":
                    rdy = t & 1
                else:
                    if left == 1 and stall > 0:
                        rdy, stall = 0, stall - 1
                    else:
                        rdy = 1
                # max_length is latched by the generator (may change), live in the serializer (held)
                mlx = ml if (ser or rng.chance(70)) else rng.below(1 << mlw) if mlw else 0
                rows.append(row(1 if hold or rng.chance(10) else 0, s, mlx, rdy))
                left -= rdy
                t += 1
            rows.append(row(int(rng.chance(30)), s if rng.chance(50) else rng.below(W), ml, int(rng.chance(50))))   # DONE cycle
    rows.append(row(0, 0, 0, 0))
    rows.append(row(0, 0, 0, 1))
    return rows


def monitor(desc, data, stim, rows):
    """Plays the property against the real trace: after an accepted start the stream must offer exactly the
    expected words in order (each until taken), with first/last/valid-mask, then pulse done for one cycle."""
    kind, mlw, vw = desc["kind"], desc["mlw"], desc["vw"]
    ser = kind == 1
    fails = []

    def fail(t, sig, what):
        fails.append({"cycle": t, "sig": sig, "what": "%s len=%d wb=%d vw=%d mlw=%d cycle %d: %s" % (
            "serializer" if ser else "generator", desc["len"], desc["wb"], vw, mlw, t, what)})

    state, queue, idx, olen = "idle", [], 0, None
    flag_first = True
    regions = set()
    emissions = 0
    stalled_last = False
    for t, (i, o) in enumerate(zip(stim, rows)):
        start, sp, ml, ready = i[0] & 1, i[1], i[2], i[3] & 1
        valid, payload, first, last, done = o[0], o[1], o[2], o[3], o[4]
        if state == "idle":
            if valid or done or first or last:
                fail(t, "emits-when-idle", "valid=%d first=%d last=%d done=%d while nothing was requested" % (valid, first, last, done))
                break
            go = start and (ml > 0 if mlw else True)
            if go:
                cur = i[4:] if ser else data
                queue, flag_first = expected_emission(desc, cur, sp, ml if mlw else None)
                regions.add(sp_region(desc, sp) if not ser else ("within" if sp < desc["len"] else "clamped"))
                idx = 0
                olen = min(ml, desc["len"]) if mlw else None
                state = "play"
                emissions += 1
                if not queue:
                    fail(t, "monitor-script", "request outside the property's domain reached the monitor")
                    break
        elif state == "play":
            want_payload, want_valid = queue[idx]
            if valid != want_valid:
                fail(t, "valid-mask" if valid else "slice-gap", "valid=%#x, word %d of %d requires %#x" % (valid, idx, len(queue), want_valid))
                break
            if want_payload is not None and payload != want_payload:
                fail(t, "slice-payload", "payload=%#x, word %d of the slice is %#x" % (payload, idx, want_payload))
                break
            if first != int(idx == 0 and flag_first):
                fail(t, "first-flag", "first=%d on word %d (start_position %d %s)" % (
                    first, idx, sp, "as requested" if flag_first else "clamped/truncated: never equals the position"))
                break
            if last != int(idx == len(queue) - 1):
                fail(t, "last-flag", "last=%d on word %d of %d" % (last, idx, len(queue)))
                break
            if done:
                fail(t, "done-pulse", "done while streaming")
                break
            if olen is not None and not ser and o[5] != olen:
                fail(t, "output-length", "output_length=%d, requires min(max_length, len)=%d" % (o[5], olen))
                break
            if idx == len(queue) - 1 and not ready:
                stalled_last = True
            if ready:
                idx += 1
                if idx == len(queue):
                    state = "done"
        else:
            if not done or valid:
                fail(t, "done-pulse", "done=%d valid=%d in the cycle after the last word was taken" % (done, valid))
                break
            state = "idle"
    return fails, emissions, stalled_last, regions


def run_case(desc):
    rng = Rng(desc["seed"])
    L = desc["len"]
    data = desc.get("data") or [rng.below(256) for _ in range(L)]
    desc = dict(desc)
    desc["data"] = data
    dut, dom = build(desc, data)
    kind, mlw = desc["kind"], desc["mlw"]
    ser = kind == 1
    if desc["flavour"] == "usb-descriptor":
        assert len(dut.max_length) == 16
    stim = desc.get("stimulus") or make_stimulus(desc, data, rng)
    ins = [dut.start, dut.start_position]
    use = [0, 1]
    if mlw:
        ins.append(dut.max_length)
        use.append(2)
    ins.append(dut.stream.ready)
    use.append(3)
    if ser:
        for j in range(L):
            ins.append(dut.data[j])
            use.append(4 + j)
    outs = [dut.stream.valid, dut.stream.payload, dut.stream.first, dut.stream.last, dut.done]
    if mlw and not ser:
        outs.append(dut.output_length)
    spmask = (1 << len(dut.start_position)) - 1
    mlmask = (1 << mlw) - 1
    # normalise the stimulus to the signal widths (so that the Lean side sees what the gateware sees)
    stim = [[r[0] & 1, r[1] & spmask, r[2] & mlmask, r[3] & 1] + [x & 0xFF for x in r[4:]] for r in stim]
    rows = sim.run_cycles(dut, ins, outs, [[r[j] for j in use] for r in stim], domain=dom)
    rows = [list(r) + ([0] if (not ser and not mlw) else []) for r in rows]
    fails, emissions, stalled_last, regions = ([], 0, False, set())
    if desc["mode"] == "domain":
        fails, emissions, stalled_last, regions = monitor(desc, data, stim, rows)
    if ser:
        cfg = [1, L, mlw]
        names_out = ["valid", "payload", "first", "last", "done"]
    else:
        cfg = [0, desc["wb"], desc["big"], mlw, desc["vw"]] + list(data)
        names_out = ["valid", "payload", "first", "last", "done", "output_length"]
    tags = ["kind=%d" % kind, "wb=%d" % desc["wb"], "vw=%d" % desc["vw"], "mlw=%d" % mlw, "mode=" + desc["mode"],
            "flavour=" + desc["flavour"], "big=%d" % desc["big"],
            "len=%d" % L if L <= 8 else "len>8",
            "partial-valid" if any(r[0] not in (0, 1, (1 << desc["vw"]) - 1) for r in rows) else "no-partial-valid",
            "stalled-last" if stalled_last else "no-stalled-last",
            "emissions>=3" if emissions >= 3 else "emissions<3"]
    tags += ["start-" + r for r in sorted(regions)]
    if desc.get("sweep") and mlw:
        # a request at the top of the max_length range against a constant that is longer than 2**mlw from the start position
        tags.append("sweep")
        top = (1 << mlw) - desc["wb"]
        if any(r[0] and r[2] > top and L - r[1] * desc["wb"] > (1 << mlw) for r in stim):
            tags.append("maxlen-top-long-constant")
    return Case(cfg, stim, rows, fails, tags, desc, ["start", "start_position", "max_length", "ready"] +
                (["d%d" % j for j in range(L)] if ser else []), names_out)
