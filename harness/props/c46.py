"""C46 — SuperSpeedStreamInEndpoint (luna/gateware/usb/usb3/endpoints/stream.py), driven at its
SuperSpeedEndpointInterface (handshakes_in / handshakes_out / tx stream) by a reactive host model,
a stream producer and a tx.ready pattern.

Four case kinds:
  alone    the endpoint by itself; handshakes_out.ready / done are driven by a behavioural transaction packet
           generator (requests taken only while ready, done for every completed packet -- the endpoint's NRDY, its
           ERDY, packets of other endpoints --, bounded queue latency)
  loop     the endpoint wired to the REAL TransactionPacketGenerator (protocol/transaction.py) as
           USB3ProtocolLayer does (tp_generator.interface.connect(handshakes_out)); the header queue consumer applies
           random back-pressure; the monitor judges the transaction packets handed to the queue
  loopmux  the same through the REAL SuperSpeedEndpointMultiplexer (protocol/endpoint.py) with a second, idle
           endpoint interface, as USBSuperSpeedDevice wires it

  shared   (monitor only) loopmux with the multiplexer's second endpoint interface DRIVEN: another endpoint's ACK / STALL
           packets go through the shared generator between this endpoint's NRDY and its ERDY (shared_cases)

Every NRDY / ERDY header handed to the queue is decoded from the USB 3.2 header tables (decode_tp) and must name this
endpoint, IN, this device; the host model polls again only on such an ERDY.

Profile `wrap` (wrap_cases, all three kinds): >= 72 short packets per case so that the 5-bit sequence number wraps at
least twice, with retries, lost packets, ZLPs, ACKs without IN request and NRDY/ERDY episodes placed at the sequence
numbers 30, 31, 0, 1.
"""
from harness.common.framework import Case
from harness.common.rng import Rng
from harness.common import sim

PROP = "C46"
LEAN_MODULES = ["LunaVerif.Props.C46", "LunaVerif.Props.C46Erdy", "LunaVerif.Lemmas.C46View", "LunaVerif.Lemmas.C46Buf", "LunaVerif.Lemmas.C46Ghost",
                "LunaVerif.Lemmas.C46StepIdle", "LunaVerif.Lemmas.C46StepSend", "LunaVerif.Lemmas.C46StepAck",
                "LunaVerif.Props.C46Once", "LunaVerif.Lemmas.C46Frame", "LunaVerif.Lemmas.C46FrameStep1",
                "LunaVerif.Lemmas.C46FrameStep2", "LunaVerif.Props.C46Framing"]
DRIVER = "Driver/C46.lean"
REQUIRED_THEOREMS = ["seq_advances_only_on_ack", "seq_advances_on_accepting_ack", "retry_resends_same",
                     "nrdy_then_erdy", "in_request_answered", "header_fields_always", "last_word_held",
                     "ss_in_buffers_partial",
                     "hs_refines_core", "loop_refines_core", "loop_exactly_once", "loop_framing", "loop_inv_step",
                     "loop_nrdy_then_erdy", "loop_erdy_within_bound", "loop_tp_names_endpoint", "unrepaired_loses_erdy",
                     "view_next", "inv_step", "ss_in_exactly_once", "ss_in_delivered_prefix", "ss_in_all_delivered",
                     "invF_step", "ss_in_framing", "ss_in_packets_prefix", "ss_in_packets_bytes"]
RULE = ("cases = (max_packet_size in 8/16/32/64(/1024 thorough), endpoint 1..15) x reactive scripts: producer transfers with "
        "lengths around 0/mps/2*mps, partial last words, idle gaps, continuous (last=0) mode; host issuing IN requests "
        "(ACK TP with NumP>=1), accepting with NumP 0/1, asking for retries (Retry=1 or repeated sequence number), "
        "honouring NRDY/ERDY flow control, traffic for other endpoints; tx.ready always / random / bursts; plus "
        "unstructured random handshakes and ep_reset (co-simulation only); three kinds: endpoint alone with a behavioural "
        "transaction packet generator driving handshakes_out.ready/done (done for the endpoint's NRDY, its ERDY and foreign "
        "packets, queue latency 0..lmax), closed loop with the REAL TransactionPacketGenerator (direct connect as in "
        "USB3ProtocolLayer) and through the REAL SuperSpeedEndpointMultiplexer (as in USBSuperSpeedDevice) with random "
        "header-queue back-pressure <= lmax in {0,1,2,5,12}; 64 directed closed-loop races (completing word -3..+10 cycles "
        "around the IN request x queue latency 0/1/3/8 x direct/mux); 30 (thorough 90) sequence-number wrap cases over all "
        "three kinds: 72..84 (thorough ..104) packets from 1..8 byte transfers, max_packet_size 8/16, fast host, producer "
        "always ahead, so the 5-bit sequence number wraps at least twice; at the packets carrying the numbers 30, 31, 0, 1 of "
        "every wrap a producer-side event (ZLP / NRDY-ERDY episode / none) and a host-side event (Retry bit / lost packet = "
        "repeated number / Retry bit with the next number / ACK without IN request / none) placed by rotation over the case "
        "index so that all 15 combinations occur at each of the four numbers, further events at random elsewhere; the host "
        "view of the monitor numbers the accepted packets modulo 32 (coverage tags seq30:/seq31:/seq0:/seq1: x "
        "data/zlp/nrdy/erdy/retry-rty/retry-lost/retry-rtynext/ack-nump0/ack-nump1, seq-wraps=2, pkts>=70); 24 (widen 40, "
        "thorough 72) monitor-only `shared` cases: the endpoint behind the real multiplexer and the real generator, the "
        "multiplexer's SECOND endpoint interface driven: after this endpoint's NRDY header has been handed to the queue and "
        "before the withheld transfer-ending word is released, the other endpoint (endpoint 0 in 2 of 3 cases, another number "
        "otherwise) has the shared generator send 1..2 ACK / STALL packets of its own (requests only while the generator is "
        "ready and this endpoint is not requesting; word released after the foreign header was handed over, or while the "
        "foreign packet is still in the generator; queue latency 0/1/3/8), so that the ERDY is requested when the "
        "generator's previous packet was another endpoint's; every NRDY / ERDY header is decoded from the USB 3.2 tables "
        "(type TP, subtype, endpoint, direction IN, device address, ERDY NumP >= 1) and must name THIS endpoint; the host "
        "model polls again only on an ERDY naming this endpoint")
ASSUMPTIONS = [
    "producer: stream.valid is a byte-prefix mask, a partial word only together with last, word held until ready",
    "host: one outstanding data packet; ACK TPs answer the packet last sent; no IN request while flow-controlled by NRDY",
    "ss_in_exactly_once (EnvOK, checked in every cycle of the history): no ep_reset; stream.valid in {0,1,3,7,15} and a "
    "partial word only with last; an ACK TP for this endpoint only while tx.valid = 0 and carrying next_sequence = the "
    "number the host expects (the host accepts a packet iff it carries that number and the link did not lose it); "
    "Retry bit, NumP, tx.ready, done, flow control arbitrary; configuration: max_packet_size % 4 = 0, >= 8, "
    "max_packet_size/4 <= 2^address_width",
    "closed loop (loop_* theorems, loop/loopmux cases): the transaction packet generator serves this endpoint only (no "
    "send_ack/send_stall of other endpoints; the multiplexer performs no arbitration); loop_erdy_within_bound and the "
    "monitor clause ss-in-erdy-late: the header queue never lets more than L consecutive cycles pass without ready",
    "`shared` cases (monitor only): another endpoint uses the generator only between this endpoint's NRDY and its ERDY, "
    "never in the cycle of this endpoint's one-cycle NRDY strobe and never so that the generator is busy when the host's "
    "IN request arrives (the multiplexer performs no arbitration); at most one foreign packet is in the generator",
]
PARTIAL = ("the theorems are about SuperSpeedStreamInEndpoint as repaired by six fix: commits (branch wt-ssep: 1df4da8 ddf15b0 "
           "ce4a978 f170f77 50f0842 5e057c5, cherry-picked into /repo); the unrepaired code violated C46 in six ways "
           "(KNOWN_FINDINGS C46), all replayed. Proved at history level, for every history allowed by the environment: "
           "ss_in_exactly_once (bytes accepted by the host, keyed on sequence numbers, ++ bytes pending in the ping-pong "
           "buffers = bytes accepted from the producer) and ss_in_framing (packets accepted by the host ++ packets held by "
           "the endpoint = the reference packetization of the producer stream: short packet or full packet + ZLP at every "
           "transfer end, full packets in between), both by inductive invariants over a toggle-free formulation proved "
           "equal to the co-simulated model (view_next); nrdy_then_erdy; plus the one-step theorems (sequence number, "
           "retry, IN request answered, header fields, tx word held). NOT covered: max_packet_size = 4 (CfgOK needs >= 8): "
           "there the property is FALSE of the gateware -- with one-word buffers a word written in the cycle of an ACK+IN "
           "buffer swap is sent stale (Lean example hStale, replayed on the real gateware, notes/C46.md). "
           "NRDY/ERDY: the model and theorems are about the endpoint as repaired by three further fix: commits (branch "
           "wt-c46b: 5cb0fa7 the done of the endpoint's own NRDY was taken for the done of its ERDY -- no ERDY ever sent when "
           "the packet completes while the NRDY is in the generator; bb087f4 handshakes_out.endpoint_number never driven -- "
           "NRDY/ERDY named endpoint 0; 113cd23 SuperSpeedEndpointMultiplexer dropped send_nrdy/send_erdy); closed loop with "
           "the C45 generator model: loop_nrdy_then_erdy, loop_erdy_within_bound (ERDY handed to the header queue within "
           "2L+4 cycles), loop_exactly_once, loop_framing; not covered: a generator shared with other requesting endpoints "
           "(a one-cycle send_nrdy strobe is lost while the generator is busy with another endpoint's packet).")

T_ANSWER = 24
T_STUCK = 120
T_REQ = 4          # cycles the endpoint may take to raise send_erdy once a packet is complete after an NRDY
KINDS = {"alone": 0, "loop": 1, "loopmux": 2, "shared": 2}
# transaction packet header fields, USB 3.2 section 8.5 (Tables 8-12 .. 8-16): DW0 = Type[4:0] (00100b = transaction
# packet), route string[24:5], device address[31:25]; DW1 = SubType[3:0] (ACK 1, NRDY 2, ERDY 3, STATUS 4, STALL 5),
# direction[7] (1 = IN), endpoint number[11:8]; ERDY (Table 8-16) additionally NumP[20:16]
TYPE_TP = 4
SUB_ACK, SUB_NRDY, SUB_ERDY, SUB_STALL = 1, 2, 3, 5
SUB_NAMES = {SUB_ACK: "ack", SUB_NRDY: "nrdy", SUB_ERDY: "erdy", SUB_STALL: "stall"}


def decode_tp(dw0, dw1):
    """Header words of a transaction packet -> fields (independent of the Lean model and of the gateware's Records)."""
    return {"type": dw0 & 0x1F, "address": (dw0 >> 25) & 0x7F, "subtype": dw1 & 0xF, "direction": (dw1 >> 7) & 1,
            "endpoint": (dw1 >> 8) & 0xF, "nump": (dw1 >> 16) & 0x1F}


def erdy_names(dw0, dw1, ep, address):
    """Is this header an ERDY transaction packet that tells the host at `address` that endpoint `ep` IN has data?"""
    f = decode_tp(dw0, dw1)
    return (f["type"] == TYPE_TP and f["subtype"] == SUB_ERDY and f["endpoint"] == ep and f["direction"] == 1
            and f["address"] == address)


K_ERDY = T_REQ + 5
# K_ERDY: cycles, not counting those in which the transaction packet generator is stalled by the header queue, from
# "packet complete after an NRDY" to "ERDY handed to the header queue": T_REQ to raise the request, the hand-over of the
# packet possibly in progress (the NRDY or a foreign packet), one DISPATCH cycle, the hand-over of the ERDY, slack 2.
# With at most L consecutive stall cycles that is the bound 2 L + 4 of the Lean theorem loop_erdy_within_bound.


# ------------------------------------------------------------------------------------------ cases
def _idle():
    return [0, 0, 0, 1, 0, 0, 0, 0, 0, 0, 0, 1]


def _word(d, last):
    return [15, last, d, 1, 0, 0, 0, 0, 0, 0, 0, 1]


def _tp(retry, nxt, nump):
    return [0, 0, 0, 1, 1, 1, retry, nxt, nump, 0, 0, 1]


def directed():
    """The input histories on which the unrepaired endpoint failed (the `…repaired` examples of Props/C46.lean, mps 8,
    endpoint 1), replayed on the real gateware and compared with the model cycle by cycle."""
    sent_one = [_word(0x11111111, 0), _word(0x22222222, 0), _tp(0, 0, 1), _idle(), _idle(), _idle()]
    sent_full_last = [_word(0x11111111, 0), _word(0x22222222, 1), _tp(0, 0, 1), _idle(), _idle(), _idle()]
    nordy = _idle()
    nordy[3] = 0
    tail = [_idle()] * 6
    hist = {
        "seq_not_advanced": sent_one + [_tp(0, 1, 0)] + tail + [_word(0x33333333, 0), _word(0x44444444, 0), _tp(0, 1, 1)] + tail,
        "last_word_dropped": sent_one[:5] + [nordy] + tail,
        "zlp_header": sent_full_last + [_tp(0, 1, 0), _tp(0, 1, 1)] + tail,
        "zlp_retry_advances": sent_full_last + [_tp(0, 1, 1), _tp(1, 1, 1)] + tail,
        "in_request_unanswered": sent_one + [_tp(0, 1, 1)] + [_idle()] * 30,
        # a one-word transfer is accepted in the very cycle of the accepting ACK, the host polls, gets NRDY, and waits
        "short_packet_stuck": sent_one + [[15, 1, 0x55555555, 1, 1, 1, 0, 1, 0, 0, 0, 1]] + [_idle()] * 3 + [_tp(0, 1, 1)]
                              + [_idle()] * (T_STUCK + 20),
    }
    out = [{"mps": 8, "ep": 1, "mode": "script", "kind": "alone", "seed": 0, "k": 0, "directed": name, "stimulus": rows}
           for name, rows in sorted(hist.items())]
    # closed loop: an IN request `d` cycles after the word that completes the packet is offered (d <= 0: the request
    # comes first or in the very cycle of the buffer swap), every header waits `lat` cycles for the queue.  On the
    # unrepaired endpoint the NRDY's done was taken for the ERDY's whenever the packet completed while the NRDY was
    # still in the generator.
    for kind in ("loop", "loopmux"):
        for lat in (0, 1, 3, 8):
            for d in (-3, -1, 0, 1, 2, 4, 6, 10):
                out.append({"mps": 8, "ep": 3, "mode": "script", "kind": kind, "seed": 1000 * lat + d + 50, "k": 0,
                            "directed": "race_d%+d_lat%d" % (d, lat), "race": [d, lat], "lmax": lat})
    return out


def gen_cases(tier, rng):
    n = {"quick": 120, "widen": 300}.get(tier, 600)
    out = directed() if tier != "widen" else []
    for k in range(n):
        mps = rng.weighted([(4, 8), (4, 16), (3, 32), (1, 64)])
        if tier == "thorough" and k % 100 == 7:
            mps = 1024
        kind = "alone" if k % 3 == 0 else ("loop" if k % 3 == 1 else "loopmux")
        out.append({"mps": mps, "ep": rng.range(1, 15), "mode": "wild" if k % 8 == 7 else "script", "kind": kind,
                    "lmax": rng.choice([0, 1, 2, 5, 12]), "seed": rng.u64(), "k": k})
    out += wrap_cases({"quick": 30, "widen": 30}.get(tier, 90), rng, tier)
    out += shared_cases({"quick": 24, "widen": 40}.get(tier, 72), rng)
    return out


def shared_cases(n, rng):
    """The endpoint behind the REAL multiplexer and the REAL transaction packet generator, the generator SHARED with a
    second endpoint interface that is driven (monitor-only cases, the Lean model has no such input): after the IN
    endpoint was answered NRDY and before its data arrives, the other endpoint has the generator send an ACK / STALL
    transaction packet of its own (endpoint 0 = the control endpoint, or another number).  k = 2 selects the `teaser`
    producer, which withholds the word that ends a transfer until after the NRDY."""
    out = []
    for w in range(n):
        out.append({"mps": rng.choice([8, 8, 16, 32]), "ep": rng.range(1, 15), "mode": "script", "kind": "shared",
                    "lmax": [0, 1, 3, 8][w % 4], "seed": rng.u64(), "k": 2, "fgn": w})
    return out


HOT = (30, 31, 0, 1)                              # sequence numbers around the 5-bit wrap
WRAP_P = ["zlp", "nrdy", "none"]                  # producer-side event at a packet
WRAP_H = ["rty", "lost", "rtynext", "nump0", "none"]   # host-side event at a packet


def wrap_cases(n, rng, tier="quick"):
    """Sequence-number wrap-around cases: 72..100 packets from 1..8 byte transfers (small max_packet_size, fast host,
    producer always ahead), so the 5-bit sequence number wraps at least twice; at the packets carrying the numbers
    30, 31, 0, 1 of every wrap a producer-side event (ZLP = the packet is the ZLP after a full packet that ends a
    transfer / NRDY-ERDY episode = the word completing the packet is withheld until the NRDY / none) and a host-side
    event (Retry bit / lost packet = repeated number without Retry bit / Retry bit with the next number / ACK without
    IN request / none) are placed by rotation over the case index `wrap`, so that 15 consecutive indices see every
    combination at every one of the four numbers; further events at random elsewhere.  All three kinds."""
    out = []
    for w in range(n):
        kind = ("alone", "loop", "loopmux")[w % 3]
        mps = 16 if (w // 3) % 4 == 3 else 8
        if tier == "thorough" and w % 15 == 14:
            mps = rng.choice([32, 1024])
        out.append({"mps": mps, "ep": rng.range(1, 15), "mode": "script", "kind": kind, "lmax": rng.choice([0, 0, 1, 2]),
                    "seed": rng.u64(), "k": 0, "wrap": w, "npk": rng.range(72, 84) if tier != "thorough" else rng.range(72, 104)})
    return out


# ------------------------------------------------------------------------------------------ stimulus agents
IN_NAMES = ["s_valid", "s_last", "s_data", "tx_ready", "ack", "hs_ep", "retry", "next_seq", "nump", "done", "ep_reset",
            "hs_ready"]
# closed loop: column 9 is header_source.ready (the generator drives done), column 11 the generator's device address
IN_NAMES_LOOP = IN_NAMES[:9] + ["q_ready", "ep_reset", "address"]
OUT_NAMES = ["s_ready", "tx_valid", "tx_first", "tx_last", "tx_data", "tx_zlp", "tx_length", "tx_seq", "tx_ep",
             "send_nrdy", "send_erdy", "hs_out_ep"]
OUT_NAMES_LOOP = OUT_NAMES + ["gen_ready", "gen_done", "hdr_valid", "hdr_dw0", "hdr_dw1"]
O = {n: i for i, n in enumerate(OUT_NAMES_LOOP)}
I = {n: i for i, n in enumerate(IN_NAMES)}
I["q_ready"], I["address"] = 9, 11
# kind `shared`: requests of the second endpoint interface behind the multiplexer (handshakes_out of that interface)
IN_NAMES_SHARED = IN_NAMES_LOOP + ["f_ack", "f_stall", "f_ep", "f_seq", "f_retry"]
for _n in IN_NAMES_SHARED[12:]:
    I[_n] = IN_NAMES_SHARED.index(_n)


class PyGen:
    """Behavioural transaction packet generator for the `alone` kind (interface level): a request is taken only while
    ready (ERDY before NRDY), the packet then waits 0..lmax cycles for the header queue, done is pulsed when it is
    handed over; now and then the generator is busy with a packet of another endpoint.  Moore: ready/done of a cycle
    do not depend on the endpoint's outputs of that cycle."""

    def __init__(self, rng, lmax, p_foreign):
        self.r, self.lmax, self.pf = rng, lmax, p_foreign
        self.kind, self.wait, self.need = None, 0, 0

    def outputs(self):
        return int(self.kind is None), int(self.kind is not None and self.wait >= self.need)

    def update(self, send_nrdy, send_erdy):
        """returns the kind of the packet completed in this cycle, or None"""
        if self.kind is None:
            self.kind = "erdy" if send_erdy else "nrdy" if send_nrdy else "foreign" if self.r.chance(self.pf) else None
            self.wait, self.need = 0, self.r.range(0, self.lmax)
            return None
        if self.wait >= self.need:
            k, self.kind = self.kind, None
            return k
        self.wait += 1
        return None


class Agent:
    """Generates the inputs of cycle t from what was observed up to cycle t-1."""

    def __init__(self, rng, mps, ep, mode, k, kind="alone", lmax=3, race=None, wrap=None, npk=76, fgn=0):
        self.r, self.mps, self.ep, self.mode = rng, mps, ep, mode
        # kind `shared`: the other endpoint's request between this endpoint's NRDY and its ERDY
        self.shared = kind == "shared"
        self.f_state, self.f_at, self.f_left, self.f_req, self.last_o = "idle", 0, 0, None, None
        self.f_rel = "after"
        others = [e for e in range(16) if e != ep]
        self.f_ep = 0 if fgn % 3 != 2 else rng.choice(others)      # the control endpoint, or any other endpoint
        self.kind, self.lmax, self.race = kind, lmax, race
        self.wrap, self.hold, self.hev, self.pidx, self.npk, self.done_at, self.holding = wrap, set(), {}, 0, None, None, False
        # producer
        self.continuous = (k % 11 == 5)
        # "benign" profile: stays clear of the recorded defects for as long as the producer has data (producer always
        # ahead, tx always ready, no one-word packets, no ZLPs, every ACK also requests the next packet), so that the
        # monitor validates long runs of consecutive packets and retries instead of stopping at a known finding
        self.benign = (k % 4 == 1) and not self.continuous
        self.words = []          # [(valid, last, data)]
        ntr = rng.range(4, 9) if self.benign else rng.range(2, 7)
        for _ in range(ntr):
            ln = (rng.range(1, 3) * mps + rng.range(5, mps - 1)) if self.benign else rng.weighted([(4, mps), (3, 2 * mps), (3, rng.range(1, mps - 1)), (3, mps + rng.range(1, mps - 1)),
                               (2, 4), (2, rng.range(1, 3)), (2, 3 * mps), (1, mps - 4), (1, mps + 4)])
            data = rng.bytes(ln)
            for j in range(0, ln, 4):
                w = data[j:j + 4]
                v = (1 << len(w)) - 1
                d = sum(b << (8 * q) for q, b in enumerate(w))
                self.words.append((v, 0 if self.continuous and len(w) == 4 else int(j + 4 >= ln), d))
        self.wi = 0
        self.pgap = rng.choice([0, 0, 10, 40, 70])
        self.present = False
        self.pstart = rng.range(0, 30)
        # tx.ready
        self.rdy_kind = rng.weighted([(4, "all"), (3, "rand"), (2, "burst")])
        self.rdy_p = rng.choice([50, 80, 95])
        self.rdy_n, self.rdy_v = 0, 1
        # host
        self.hstate = "idle"
        self.hdelay = rng.range(0, 25)
        self.dseq = 0
        self.flow = False
        self.flow_t = 0
        self.tmo = 0
        self.p_retry = rng.choice([0, 10, 25, 40])
        self.issued_in = False
        if self.benign:
            self.pgap, self.pstart, self.rdy_kind = 0, 0, "all"
            self.hdelay = mps // 4 + 5 + rng.range(0, 5)
        self.teaser = (k % 5 == 2) and not self.continuous and not self.benign and mode == "script"
        self.tease_from, self.release_at, self.held = 0, None, 0
        # transaction packet generator side
        self.gen = PyGen(rng, lmax, rng.choice([0, 0, 3, 10]))
        self.q_wait, self.q_need = 0, rng.range(0, lmax)
        self.q_fixed = None
        self.address = rng.below(128)
        if race is not None:
            # one short transfer whose last word is offered `d` cycles after the first IN request; then normal traffic
            d, lat = race
            self.pgap, self.rdy_kind, self.continuous, self.benign = 0, "all", False, False
            self.hdelay = 20
            self.pstart = 20 + d - (mps // 4 - 1)          # mps/4 - 1 words before the completing one
            self.q_fixed = lat
            self.teaser = True
            first = rng.bytes(mps - 2)
            self.tease_from = (mps - 2 + 3) // 4
            self.words = [((1 << len(first[j:j + 4])) - 1, int(j + 4 >= mps - 2),
                           sum(b << (8 * q) for q, b in enumerate(first[j:j + 4]))) for j in range(0, mps - 2, 4)] + self.words
        if wrap is not None:
            self.init_wrap(rng, mps, wrap, npk)

    def init_wrap(self, rng, mps, wrap, npk):
        """see wrap_cases: many short packets, events placed at the packets that carry sequence numbers 30, 31, 0, 1"""
        self.continuous = self.benign = self.teaser = False
        self.pgap, self.pstart, self.hdelay = 0, 0, rng.range(0, 4)
        self.rdy_kind, self.rdy_p = rng.weighted([(5, ("all", 95)), (2, ("rand", 95)), (1, ("rand", 80))])
        self.p_retry = rng.choice([0, 3, 6])
        pev, q = {}, 0
        for w in range(1, npk // 32 + 2):
            for j in range(4):
                n = 32 * w - 2 + j                      # the packet that carries sequence number HOT[j]
                pev[n] = WRAP_P[(wrap + q) % 3]
                self.hev[n] = WRAP_H[(wrap // 3 + q) % 5]
                q += 1
        for n in range(npk):
            if n not in pev and rng.chance(5):
                pev[n] = rng.choice(["zlp", "nrdy"])
                self.hev[n] = rng.choice(WRAP_H)
        self.words, n = [], 0
        while n < npk:
            # the packet n + 1 is to be a ZLP: a transfer of exactly max_packet_size bytes takes the numbers n, n + 1
            full = pev.get(n + 1) == "zlp" and mps <= 16
            ln = mps if full else rng.range(1, min(8, mps - 1))
            data = rng.bytes(ln)
            for j in range(0, ln, 4):
                w = data[j:j + 4]
                self.words.append(((1 << len(w)) - 1, int(j + 4 >= ln), sum(b << (8 * q) for q, b in enumerate(w))))
            if pev.get(n) == "nrdy":
                self.hold.add(len(self.words) - 1)      # withheld until the host has been told NRDY
            n += 2 if full else 1
        self.npk = n

    def finished(self, t):
        return self.done_at is not None and t > self.done_at + 40

    def ready_bit(self):
        if self.rdy_kind == "all":
            return 1
        if self.rdy_kind == "rand":
            return int(self.r.chance(self.rdy_p))
        if self.rdy_n == 0:
            self.rdy_v ^= 1
            self.rdy_n = self.r.range(1, 5)
        self.rdy_n -= 1
        return self.rdy_v

    def drive(self, t):
        r = self.r
        row = [0] * len(IN_NAMES)
        # producer ("teaser": the word that ends a transfer is withheld until shortly after the next NRDY, so that the
        # packet completes while that NRDY is still in the transaction packet generator, or just after)
        if self.wrap is not None and not self.present and self.wi in self.hold:
            # withheld until 0..lmax+3 cycles after the NRDY that answers the IN request for this packet
            self.holding = True
            if self.release_at is None:
                self.held += 1
                if self.held > 150:
                    self.release_at = t
            if self.release_at is not None and t >= self.release_at:
                self.present, self.release_at, self.held, self.holding = True, None, 0, False
                self.hold.discard(self.wi)
        elif (self.teaser and not self.present and self.wi < len(self.words) and self.words[self.wi][1]
                and self.wi >= self.tease_from):
            if self.release_at is None:
                self.held += 1
                if self.held > 150:
                    self.release_at = t
            if self.release_at is not None and t >= self.release_at:
                self.present, self.release_at, self.held = True, None, 0
        elif not self.present and self.wi < len(self.words) and t >= self.pstart and not r.chance(self.pgap):
            self.present = True
        if self.present:
            v, l, d = self.words[self.wi]
            row[I["s_valid"]], row[I["s_last"]], row[I["s_data"]] = v, l, d
        else:
            row[I["s_data"]] = r.bits(32)
            row[I["s_last"]] = r.below(2)
        row[I["tx_ready"]] = self.ready_bit()
        # transaction packet generator: ready / done (alone), header queue back-pressure and address (closed loop)
        if self.kind == "alone":
            row[I["hs_ready"]], row[I["done"]] = self.gen.outputs()
            if self.mode == "wild" and r.chance(10):
                row[I["hs_ready"]], row[I["done"]] = r.below(2), r.below(2)
        else:
            need = self.q_fixed if self.q_fixed is not None else self.q_need
            row[I["q_ready"]] = int(self.q_wait >= need)
            if self.mode == "wild" and r.chance(2):
                self.address = r.below(128)
            row[I["address"]] = self.address
        # host
        self.issued_in = False
        hs = None
        if self.mode == "wild":
            if r.chance(12):
                hs = (self.ep if r.chance(85) else r.below(128), int(r.chance(20)),
                      r.choice([self.dseq, (self.dseq + 1) % 32, r.below(32)]), r.choice([0, 1, 1, 2, r.below(32)]))
            if r.chance(1):
                row[I["ep_reset"]] = 1
        elif self.hstate == "idle":
            if self.flow:
                self.flow_t += 1
                if self.flow_t > 2 * T_STUCK:
                    self.flow = False          # the host polls again after its ERDY time-out
            elif self.hdelay > 0:
                self.hdelay -= 1
            else:
                hs = (self.ep, 0, self.dseq, r.choice([1, 1, 1, 2, 16]))
                self.issued_in = True
                self.hstate, self.tmo = "wait", 0
        elif self.hstate == "respond" and self.wrap is not None:
            ev = None
            if self.hdelay > 0:
                self.hdelay -= 1
            else:
                ev = self.hev.pop(self.pidx, "none")
                if ev in ("none", "nump0") and r.chance(self.p_retry):
                    self.hev[self.pidx] = ev
                    ev = r.choice(["rty", "lost", "rtynext"])
                if ev in ("rty", "lost", "rtynext"):
                    if r.chance(25):
                        self.hev[self.pidx] = r.choice(["rty", "lost", "rtynext"])     # asked for once more afterwards
                    hs = {"rty": (self.ep, 1, self.dseq, 1), "lost": (self.ep, 0, self.dseq, 1),
                          "rtynext": (self.ep, 1, (self.dseq + 1) % 32, 1)}[ev]
                    self.hstate, self.tmo = "wait", 0
                else:
                    self.dseq = (self.dseq + 1) % 32
                    self.pidx += 1
                    nump = 0 if ev == "nump0" else r.choice([1, 1, 1, 1, 2, 0])
                    hs = (self.ep, 0, self.dseq, nump)
                    if nump:
                        self.hstate, self.tmo, self.issued_in = "wait", 0, True
                    else:
                        self.hstate, self.hdelay = "idle", r.range(0, 6)
                    if self.pidx >= self.npk and self.done_at is None:
                        self.done_at = t
        elif self.hstate == "respond":
            if self.hdelay > 0:
                self.hdelay -= 1
            elif r.chance(self.p_retry):
                # Retry bit with the repeated number, a repeated number alone, or the Retry bit with the next number
                hs = r.weighted([(5, (self.ep, 1, self.dseq, 1)), (3, (self.ep, 0, self.dseq, 1)),
                                 (2, (self.ep, 1, (self.dseq + 1) % 32, 1))])
                self.hstate, self.tmo = "wait", 0
            else:
                self.dseq = (self.dseq + 1) % 32
                nump = 1 if self.benign else r.choice([0, 1, 1])
                hs = (self.ep, 0, self.dseq, nump)
                if nump:
                    self.hstate, self.tmo = "wait", 0
                    self.issued_in = True
                else:
                    self.hstate, self.hdelay = "idle", r.range(0, 30)
        if hs is None and self.mode != "wild" and r.chance(4):
            other = (self.ep + r.range(1, 14)) % 16
            hs = (other if other != self.ep else (self.ep + 1) % 16, r.below(2), r.below(32), r.below(4))
        if hs is not None:
            row[I["ack"]] = 1
            row[I["hs_ep"]], row[I["retry"]], row[I["next_seq"]], row[I["nump"]] = hs
        else:
            # idle handshake bus carries junk fields
            row[I["hs_ep"]], row[I["next_seq"]], row[I["nump"]] = r.below(16), r.below(32), r.below(3)
        if self.shared:
            row += self.foreign_cols(t)
        return row

    def foreign_cols(self, t):
        """[f_ack, f_stall, f_ep, f_seq, f_retry]: a one-cycle request of the other endpoint, made only while the generator
        was ready and this endpoint was not requesting in the previous cycle (the multiplexer does not arbitrate)."""
        r, lo = self.r, self.last_o
        cols = [0, 0, r.below(16), r.below(32), r.below(2)]          # idle interface: junk parameters
        self.f_req = None
        if (self.f_state == "armed" and t >= self.f_at and lo is not None and lo[O["gen_ready"]]
                and not lo[O["send_nrdy"]] and not lo[O["send_erdy"]]):
            stall = int(r.chance(25))
            cols = [1 - stall, stall, self.f_ep, r.below(32), r.below(2)]
            self.f_req = t
        return cols

    def observe(self, t, row, o):
        if self.present and o[O["s_ready"]]:
            self.present = False
            self.wi += 1
        if self.wrap is not None and self.holding and o[O["send_nrdy"]] and self.release_at is None:
            self.release_at = t + 1 + self.r.choice([0, 0, 1, 2, 3, self.lmax + 1, self.lmax + 3])
        self.last_o = o
        if self.shared and self.teaser and o[O["send_nrdy"]] and self.release_at is None and self.f_state == "idle" \
                and self.r.chance(85):
            # the other endpoint's packet comes between this NRDY and the ERDY: the withheld word is released only
            # after that packet has been requested ("during": while it is in the generator) or handed to the queue
            self.f_state, self.f_left = "wait-nrdy", self.r.choice([1, 1, 1, 2])
            self.f_rel = self.r.choice(["after", "after", "after", "during"])
        elif self.teaser and o[O["send_nrdy"]] and self.release_at is None and self.f_state == "idle":
            self.release_at = t + 1 + self.r.choice([0, 0, 1, 2, 3, self.lmax, self.lmax + 1, self.lmax + 3])
        if self.shared:
            if self.f_req == t:
                # taken iff the generator was ready and this endpoint did not request in the same cycle
                if o[O["gen_ready"]] and not o[O["send_nrdy"]] and not o[O["send_erdy"]]:
                    self.f_state = "sent"
                    if self.f_rel == "during" and self.f_left == 1 and self.release_at is None:
                        self.release_at = t + 1 + self.r.choice([0, 1, 2])
            if o[O["hdr_valid"]] and row[I["q_ready"]]:
                sub = o[O["hdr_dw1"]] & 15
                if self.f_state == "wait-nrdy" and sub == SUB_NRDY:
                    self.f_state, self.f_at = "armed", t + 1 + self.r.choice([0, 0, 1, 3])
                elif self.f_state == "sent" and sub in (SUB_ACK, SUB_STALL):
                    self.f_left -= 1
                    if self.f_left > 0:
                        self.f_state, self.f_at = "armed", t + 1 + self.r.choice([0, 1, 4])
                    else:
                        self.f_state = "idle"
                        if self.release_at is None:
                            self.release_at = t + 1 + self.r.choice([0, 0, 1, 2, 5])
            if self.f_state != "idle" and self.release_at is not None and t >= self.release_at + 2 and self.f_state != "sent":
                self.f_state = "idle"          # the word was released by the hold time-out: no further foreign requests
        # has an ERDY for this endpoint been handed to the header queue in this cycle?
        if self.kind == "alone":
            erdy_sent = self.gen.update(o[O["send_nrdy"]], o[O["send_erdy"]]) == "erdy"
        else:
            erdy_sent = False
            if o[O["hdr_valid"]]:
                if row[I["q_ready"]]:
                    # the host polls again only on an ERDY that names THIS endpoint, direction IN, and its device address
                    erdy_sent = erdy_names(o[O["hdr_dw0"]], o[O["hdr_dw1"]], self.ep, row[I["address"]])
                    self.q_wait, self.q_need = 0, self.r.range(0, self.lmax)
                else:
                    self.q_wait += 1
        if erdy_sent:
            self.flow = False
            self.hdelay = self.r.range(0, 3 if self.wrap is not None else 10)
        if self.mode == "wild":
            if o[O["tx_ep"]] == self.ep:
                self.dseq = o[O["tx_seq"]]
            return
        if o[O["tx_ep"]] == self.ep and o[O["tx_length"]]:
            self.dseq = o[O["tx_seq"]]          # the host's belief follows the device (see module doc)
        rmax = 2 if self.wrap is not None else 6
        if o[O["tx_zlp"]]:
            self.hstate, self.hdelay = "respond", self.r.range(0, rmax)
        elif self.hstate == "wait":
            if self.issued_in and o[O["send_nrdy"]]:
                self.flow, self.flow_t = True, 0
                self.hstate = "idle"
            elif o[O["tx_valid"]]:
                self.hstate = "recv"
            else:
                self.tmo += 1
                if self.tmo > T_ANSWER + 8:
                    self.hstate, self.hdelay = "idle", self.r.range(0, 20)
        if self.hstate == "recv":
            if (o[O["tx_valid"]] and row[I["tx_ready"]] and o[O["tx_last"]]) or not o[O["tx_valid"]]:
                self.hstate, self.hdelay = "respond", self.r.range(0, rmax)


def run_reactive(dut, inputs, outputs, agent, ncycles, fixed=None, domain="ss"):
    from amaranth.sim import Simulator
    top = sim._Wrap(dut, [domain])
    s = Simulator(top)
    s.add_clock(1e-6, domain=domain)
    stim, rows = [], []
    imask = [(1 << len(x)) - 1 for x in inputs]
    omask = [(1 << len(x)) - 1 for x in outputs]

    async def tb(ctx):
        n = len(fixed) if fixed is not None else ncycles
        for t in range(n):
            row = list(fixed[t]) if fixed is not None else agent.drive(t)
            row = row + [1] * (len(inputs) - len(row))      # rows recorded before the hs_ready column existed
            row = [v & m for v, m in zip(row, imask)]
            for sig, v in zip(inputs, row):
                ctx.set(sig, v)
            outs = tuple(ctx.get(o) & m for o, m in zip(outputs, omask))
            stim.append(row)
            rows.append(outs)
            if fixed is None:
                agent.observe(t, row, outs)
                if agent.finished(t):
                    break
            await ctx.tick(domain)

    s.add_testbench(tb)
    s.run()
    return stim, rows


# ------------------------------------------------------------------------------------------ monitor
def mask_bytes(v, d):
    n = {1: 1, 3: 2, 7: 3, 15: 4}.get(v, 0)
    return [(d >> (8 * j)) & 0xFF for j in range(n)]


def monitor(mps, ep, stim, rows, kind="alone"):
    """The host-view property on the real trace.  Returns (failures, tags); stops at the first failure."""
    tags = set()
    loop = kind != "alone"
    shared = kind == "shared"
    foreign_since_nrdy = False      # kind shared: the generator sent another endpoint's packet since this endpoint's NRDY
    gen_busy = None        # what the transaction packet generator is working on: (kind, cycle of the request)
    requests = []          # closed loop: requests the real generator has taken, not yet seen on the header queue
    taken_at = None        # closed loop: cycle in which the generator took a request (its header is due one cycle later)
    busy_cycles = 0        # cycles counted towards K_ERDY
    accepted = []          # bytes the endpoint accepted from the producer
    ends = set()           # byte offsets at which a transfer ended
    ndeliv = 0             # bytes the host has accepted
    hseq = 0
    outstanding = None     # packet sent, not yet answered by the host
    want_retx = False
    cur = None             # data packet being transmitted
    pending_in = None      # cycle of an unanswered IN request
    flow = False
    avail_since = None
    prev = None
    last_full = False      # the last delivered packet was max size and ended its transfer exactly
    nacc = 0               # packets the host has accepted; packet number n carries sequence number n mod 32
    acked = None           # the packet the host acknowledged last

    noted = []             # failures that do not end the evaluation (wrong endpoint number in NRDY / ERDY)

    def fail(t, sig, what):
        return noted + [{"cycle": t, "sig": sig, "what": what}], sorted(tags | wrap_tags())

    def hot(what):
        # coverage of the 5-bit wrap: what happened while the host expected / held sequence number 30, 31, 0, 1 (wraps only)
        if hseq in HOT and nacc >= 30:
            tags.add("seq%d:%s" % (hseq, what))

    def wrap_tags():
        return {"seq-wraps=%d" % min(3, nacc // 32), "pkts>=70" if nacc >= 70 else "pkts>=33" if nacc >= 33 else "pkts<33"}

    def check_packet(t, p):
        nonlocal outstanding, want_retx, pending_in
        pending_in = None
        kind = "zlp" if p["zlp"] else "data"
        tags.add("pkt:" + kind)
        if flow:
            return "ss-in-data-without-erdy", "a %s packet was sent at cycle %d after NRDY without an ERDY in between" % (kind, t)
        if want_retx and outstanding is not None:
            tags.add("pkt:retransmission")
            q = outstanding
            if p["bytes"] != q["bytes"] or p["zlp"] != q["zlp"]:
                return "ss-in-retry-diff", "retransmission %s differs from the original %s" % (p["bytes"][:16], q["bytes"][:16])
            if p["seq"] != q["want_seq"]:
                return ("ss-in-seq-retry-" + kind, "retransmitted %s packet carries sequence number %d, the original had %d"
                        % (kind, p["seq"], q["want_seq"]))
            want_retx = False
            return None
        p["want_seq"] = hseq
        outstanding = p
        want_retx = False
        n = len(p["bytes"])
        hot(kind)
        if (acked is not None and p["seq"] == acked["want_seq"] and p["seq"] != hseq and p["bytes"] == acked["bytes"]
                and p["zlp"] == acked["zlp"]):
            return "ss-in-acked-resent", ("the %s packet with sequence number %d (packet number %d of the stream) was "
                                          "acknowledged by an ACK TP naming the next sequence number %d, but is sent again"
                                          % (kind, p["seq"], nacc - 1, hseq))
        if p["bytes"] != accepted[ndeliv:ndeliv + n]:
            return "ss-in-data", ("packet payload %s is not the next %d bytes of the stream %s"
                                  % (p["bytes"][:16], n, accepted[ndeliv:ndeliv + n][:16]))
        if p["zlp"]:
            if not (ndeliv in ends and last_full):
                return "ss-in-framing", "ZLP sent at cycle %d although the transfer did not end on a full packet" % t
        elif n != mps and (ndeliv + n) not in ends:
            return "ss-in-framing", "short packet of %d bytes at cycle %d does not end a transfer" % (n, t)
        hdr_bad = p["seq"] != hseq or p["ep"] != ep or (not p["zlp"] and p["len"] != n)
        hdr = "sequence number %d (host expects %d), endpoint %d (is %d), length %d (carries %d)" % (
            p["seq"], hseq, p["ep"], ep, p["len"], n)
        if hdr_bad and p["zlp"]:
            return "ss-in-header-zlp", "ZLP announced with " + hdr
        if hdr_bad and n <= 4:
            return "ss-in-header-oneword", "one-word data packet announced with " + hdr
        if p["seq"] != hseq:
            return "ss-in-seq-data", "data packet announced with " + hdr
        if hdr_bad:
            return "ss-in-header-data", "data packet announced with " + hdr
        return None

    for t, (i, o) in enumerate(zip(stim, rows)):
        # producer side
        if i[I["s_valid"]] and o[O["s_ready"]]:
            accepted.extend(mask_bytes(i[I["s_valid"]], i[I["s_data"]]))
            if i[I["s_last"]]:
                ends.add(len(accepted))
        # tx stream must hold a word until it is taken
        if prev is not None and prev[0] and not prev[1]:
            nowv = (o[O["tx_valid"]], o[O["tx_first"]], o[O["tx_last"]], o[O["tx_data"]])
            if nowv != prev[2]:
                return fail(t, "ss-in-word-dropped", "tx word (valid=%d last=%d) offered at cycle %d was withdrawn "
                            "although tx.ready was low" % (prev[2][0], prev[2][2], t - 1))
        prev = (o[O["tx_valid"]], i[I["tx_ready"]],
                (o[O["tx_valid"]], o[O["tx_first"]], o[O["tx_last"]], o[O["tx_data"]]))
        # device transmissions
        done_pkt = None
        if o[O["tx_valid"]]:
            if cur is None:
                # the data packet transmitter latches the header fields when the stream goes valid
                cur = {"seq": o[O["tx_seq"]], "len": o[O["tx_length"]], "ep": o[O["tx_ep"]], "bytes": [], "zlp": False,
                       "t": t}
            if i[I["tx_ready"]]:
                cur["bytes"] += mask_bytes(o[O["tx_valid"]], o[O["tx_data"]])
                if o[O["tx_last"]]:
                    done_pkt, cur = cur, None
        if o[O["tx_zlp"]]:
            done_pkt = {"seq": o[O["tx_seq"]], "len": 0, "ep": o[O["tx_ep"]], "bytes": [], "zlp": True, "t": t}
        # host handshakes (evaluated before the packet of the same cycle: a follow-up ZLP answers this very ACK)
        if i[I["ack"]] and i[I["hs_ep"]] == ep:
            if outstanding is None:
                if i[I["nump"]]:
                    tags.add("host:in")
                    if o[O["send_nrdy"]]:
                        tags.add("dev:nrdy")
                        hot("nrdy")
                        flow = True
                    elif flow:
                        # the host polls although it is flow-controlled (its ERDY time-out): outside the environment
                        # assumption; REQUEST_IN_TOKEN gives no answer, the ERDY is on its way
                        tags.add("host:in-while-flow-controlled")
                    else:
                        pending_in = t
            else:
                adv = (i[I["next_seq"]] == (hseq + 1) % 32) and not i[I["retry"]]
                if adv and not want_retx:
                    tags.add("host:ack-nump%d" % min(1, i[I["nump"]]))
                    hot("ack-nump%d" % min(1, i[I["nump"]]))
                    n = len(outstanding["bytes"])
                    last_full = (n == mps and (ndeliv + n) in ends)
                    ndeliv += n
                    hseq = (hseq + 1) % 32
                    nacc += 1
                    acked, outstanding = outstanding, None
                    if i[I["nump"]]:
                        if o[O["send_nrdy"]]:
                            hot("nrdy")
                            flow = True
                        else:
                            pending_in = t
                else:
                    tags.add("host:retry")
                    hot("retry-" + ("rty" if i[I["retry"]] and i[I["next_seq"]] == hseq else "lost" if i[I["next_seq"]] == hseq
                                    else "rtynext" if i[I["retry"]] and i[I["next_seq"]] == (hseq + 1) % 32
                                    else "other"))
                    want_retx = True
                    pending_in = t
        # transaction packets: which requests does the generator take, which packets does it complete
        if o[O["send_erdy"]]:
            tags.add("dev:erdy")
        if (o[O["send_nrdy"]] or o[O["send_erdy"]]) and o[O["hs_out_ep"]] != ep and not noted:
            noted = fail(t, "ss-in-tp-endpoint", "%s requested for endpoint %d (handshakes_out.endpoint_number), this is "
                         "endpoint %d" % ("ERDY" if o[O["send_erdy"]] else "NRDY", o[O["hs_out_ep"]], ep))[0]
        erdy_sent = False
        if not loop:
            # done completes the request the generator took last; ready means it is idle and takes the request of this
            # cycle (ERDY before NRDY).  (Rows recorded before the hs_ready column existed have ready = 1 throughout.)
            if i[I["done"]]:
                tags.add("gen:done-" + (gen_busy or "foreign"))
                if gen_busy == "nrdy" and o[O["send_erdy"]]:
                    tags.add("gen:nrdy-done-while-erdy-requested")
                erdy_sent = gen_busy == "erdy"
                gen_busy = None
            if i[I["hs_ready"]]:
                gen_busy = "erdy" if o[O["send_erdy"]] else "nrdy" if o[O["send_nrdy"]] else None
        else:
            # a request made while the generator is ready is taken: its header is offered to the queue from the next cycle
            if taken_at is not None and not o[O["hdr_valid"]]:
                return fail(t, "ss-in-tp-missing", "%s requested at cycle %d while the transaction packet generator was "
                            "ready produced no transaction packet" % (requests[-1][0].upper(), taken_at))
            taken_at = None
            if (o[O["send_nrdy"]] or o[O["send_erdy"]]) and o[O["gen_ready"]]:
                requests.append(("erdy" if o[O["send_erdy"]] else "nrdy", t))
                taken_at = t
            elif shared and (i[I["f_ack"]] or i[I["f_stall"]]) and o[O["gen_ready"]]:
                # a request of the OTHER endpoint interface (this endpoint is not requesting: the multiplexer passes it on)
                requests.append(("ack" if i[I["f_ack"]] else "stall", t))
                taken_at = t
                foreign_since_nrdy = flow
                tags.add("foreign:%s-ep%s%s" % (requests[-1][0], "0" if i[I["f_ep"]] == 0 else "N",
                                                 "-between-nrdy-and-erdy" if flow else ""))
            if o[O["hdr_valid"]] and i[I["q_ready"]]:
                f = decode_tp(o[O["hdr_dw0"]], o[O["hdr_dw1"]])
                sub, hep, dirn = f["subtype"], f["endpoint"], f["direction"]
                name = SUB_NAMES.get(sub, "subtype %d" % sub)
                tags.add("tp:" + name)
                if o[O["gen_done"]] and o[O["send_erdy"]] and name == "nrdy":
                    tags.add("gen:nrdy-done-while-erdy-requested")
                if not requests or requests[0][0] != name:
                    return fail(t, "ss-in-tp-wrong", "transaction packet %s handed to the header queue, requested were %s"
                                % (name, [k for k, _ in requests]))
                own = name in ("nrdy", "erdy")          # sent on behalf of THIS endpoint (the other endpoint's ACK / STALL
                #                                         packets are not this property's business)
                if own and (hep != ep or dirn != 1) and not noted:
                    return fail(t, "ss-in-tp-endpoint", "%s transaction packet names endpoint %d direction %d, this is "
                                "endpoint %d IN%s" % (name.upper(), hep, dirn, ep,
                                                      " (the generator's previous packet was another endpoint's)"
                                                      if foreign_since_nrdy else ""))
                if own and f["type"] != TYPE_TP:
                    return fail(t, "ss-in-tp-type", "%s header for endpoint %d has DW0 type %d, a transaction packet has "
                                "type %d" % (name.upper(), ep, f["type"], TYPE_TP))
                if own and f["address"] != i[I["address"]]:
                    return fail(t, "ss-in-tp-address", "%s transaction packet for endpoint %d carries device address %d, "
                                "the device's address is %d" % (name.upper(), ep, f["address"], i[I["address"]]))
                if name == "erdy" and f["nump"] == 0:
                    return fail(t, "ss-in-erdy-nump", "ERDY for endpoint %d announces NumP = 0 packets" % ep)
                requests.pop(0)
                # the host is notified by an ERDY naming this endpoint, IN, and this device (checked just above)
                erdy_sent = name == "erdy"
                if erdy_sent and foreign_since_nrdy:
                    tags.add("erdy:after-foreign-packet")
                if erdy_sent:
                    foreign_since_nrdy = False
        if erdy_sent:
            if not flow:
                tags.add("dev:erdy-unsolicited")
            else:
                hot("erdy")
            flow = False
        if done_pkt is not None:
            bad = check_packet(t, done_pkt)
            if bad:
                return fail(t, bad[0], bad[1])
        # an IN request is answered by data, a ZLP or NRDY
        if pending_in is not None and cur is None and t - pending_in > T_ANSWER:
            return fail(t, "ss-in-unanswered", "IN request at cycle %d got neither data nor NRDY within %d cycles"
                        % (pending_in, T_ANSWER))
        if cur is not None:
            pending_in = None
        # after NRDY: ERDY once a complete packet is buffered
        # and the ERDY is handed to the header queue within K_ERDY cycles, not counting the cycles in which the generator
        # is stalled by the header queue
        complete = (len(accepted) - ndeliv >= mps) or any(ndeliv < e <= len(accepted) for e in ends)
        stalled = (o[O["hdr_valid"]] and not i[I["q_ready"]]) if loop else (not i[I["hs_ready"]] and not i[I["done"]])
        if flow and complete and outstanding is None:
            if not stalled:
                busy_cycles += 1
            if avail_since is None:
                avail_since, busy_cycles = t, 0
                tags.add("erdy:owed")
            elif t - avail_since >= T_REQ and not o[O["send_erdy"]]:
                return fail(t, "ss-in-no-erdy", "NRDY was sent, a complete packet has been buffered since cycle %d, the "
                            "ERDY has not been sent, but send_erdy is not asserted" % avail_since)
            elif busy_cycles > K_ERDY:
                return fail(t, "ss-in-erdy-late", "NRDY was sent, a complete packet has been buffered since cycle %d, but "
                            "no ERDY was handed to the header queue within %d cycles (%d of them not stalled by the queue)"
                            % (avail_since, t - avail_since, busy_cycles))
        else:
            if avail_since is not None:
                tags.add("erdy:latency<=%d" % (4 * ((t - avail_since + 3) // 4)))
            avail_since = None
    return noted, sorted(tags | wrap_tags())


# ------------------------------------------------------------------------------------------ run
def build_loop(ep_dut, via_mux):
    """The endpoint wired to the real TransactionPacketGenerator as the library does it: directly
    (USB3ProtocolLayer: tp_generator.interface.connect(endpoint_interface.handshakes_out)) or through the
    SuperSpeedEndpointMultiplexer (USBSuperSpeedDevice) together with a second, idle endpoint interface."""
    from amaranth import Elaboratable, Module
    from luna.gateware.usb.usb3.protocol.transaction import TransactionPacketGenerator
    from luna.gateware.usb.usb3.protocol.endpoint import SuperSpeedEndpointMultiplexer, SuperSpeedEndpointInterface

    class Loop(Elaboratable):
        def __init__(self):
            self.ep = ep_dut
            self.gen = TransactionPacketGenerator()
            self.mux = None
            if via_mux:
                self.mux = SuperSpeedEndpointMultiplexer()
                self.other = SuperSpeedEndpointInterface()                  # never requests anything (kind shared: driven)
                self.mux.add_interface(self.other)
                self.mux.add_interface(ep_dut.interface)
            self.shared = self.mux.shared if via_mux else ep_dut.interface

        def elaborate(self, platform):
            m = Module()
            m.submodules.ep = self.ep
            m.submodules.tp_generator = self.gen
            if self.mux is not None:
                m.submodules.endpoint_mux = self.mux
            m.d.comb += self.gen.interface.connect(self.shared.handshakes_out)
            return m

    return Loop()


def run_case(desc):
    from luna.gateware.usb.usb3.endpoints.stream import SuperSpeedStreamInEndpoint
    mps, ep = desc["mps"], desc["ep"]
    kind = desc.get("kind", "alone")
    dut = SuperSpeedStreamInEndpoint(endpoint_number=ep, max_packet_size=mps)
    itf = dut.interface
    hout = itf.handshakes_out
    outs = [dut.stream.ready, itf.tx.valid, itf.tx.first, itf.tx.last, itf.tx.payload, itf.tx_zlp, itf.tx_length,
            itf.tx_sequence_number, itf.tx_endpoint_number, hout.send_nrdy, hout.send_erdy, hout.endpoint_number]
    if kind == "alone":
        top, hin, tx = dut, itf.handshakes_in, itf.tx
        ins = [dut.stream.valid, dut.stream.last, dut.stream.payload, tx.ready, hin.ack_received, hin.endpoint_number,
               hin.retry_required, hin.next_sequence, hin.number_of_packets, hout.done, itf.ep_reset, hout.ready]
        names_in, names_out = IN_NAMES, OUT_NAMES
    else:
        top = build_loop(dut, kind in ("loopmux", "shared"))
        hin, tx, gen = top.shared.handshakes_in, top.shared.tx, top.gen
        # through the multiplexer ep_reset is the shared config_changed strobe, which an endpoint raises
        ep_reset = itf.config_changed if kind in ("loopmux", "shared") else itf.ep_reset
        ins = [dut.stream.valid, dut.stream.last, dut.stream.payload, tx.ready, hin.ack_received, hin.endpoint_number,
               hin.retry_required, hin.next_sequence, hin.number_of_packets, gen.header_source.ready, ep_reset, gen.address]
        outs = outs + [gen.interface.ready, gen.interface.done, gen.header_source.valid, gen.header_source.header.dw0,
                       gen.header_source.header.dw1]
        names_in, names_out = IN_NAMES_LOOP, OUT_NAMES_LOOP
        if kind == "shared":
            fo = top.other.handshakes_out
            ins = ins + [fo.send_ack, fo.send_stall, fo.endpoint_number, fo.next_sequence, fo.retry_required]
            names_in = IN_NAMES_SHARED
    rng = Rng(desc["seed"])
    lmax = desc.get("lmax")
    agent = Agent(rng, mps, ep, desc["mode"], desc.get("k", 0), kind, 3 if lmax is None else lmax, desc.get("race"),
                  desc.get("wrap"), desc.get("npk", 76), desc.get("fgn", 0))
    ncycles = min(6000, 200 + 14 * len(agent.words) + (400 if mps <= 64 else 3000))
    if agent.wrap is not None:
        ncycles = 6000          # the run ends 40 cycles after the host has accepted the last planned packet
    n_own = len(outs)
    if kind in ("loopmux", "shared"):
        # what the data packet transmitter sees behind the multiplexer (sampled, judged below, not sent to the model)
        sh = top.shared
        outs = outs + [sh.tx.valid, sh.tx_zlp, sh.tx_sequence_number, sh.tx_endpoint_number, sh.tx_length]
    stim, rows = run_reactive(top, ins, outs, agent, ncycles, fixed=desc.get("stimulus"))
    mux_fails = []
    if kind in ("loopmux", "shared"):
        for t, r in enumerate(rows):
            own = (r[O["tx_valid"]], r[O["tx_zlp"]], r[O["tx_seq"]], r[O["tx_ep"]], r[O["tx_length"]])
            if (own[0] or own[1]) and tuple(r[n_own:n_own + 5]) != own and not mux_fails:
                mux_fails.append({"cycle": t, "sig": "mux-forwards-packet-fields", "what":
                                  "cycle %d: the endpoint presents tx.valid=%d tx_zlp=%d sequence=%d endpoint=%d length=%d, "
                                  "behind SuperSpeedEndpointMultiplexer the transmitter sees valid=%d zlp=%d sequence=%d "
                                  "endpoint=%d length=%d: the packet (or ZLP) goes out with other header fields than the "
                                  "endpoint's" % ((t,) + own + tuple(r[n_own:n_own + 5]))})
        rows = [list(r[:n_own]) + list(r[n_own + 5:]) for r in rows]
    fails, tags = [], []
    if desc["mode"] == "script":
        fails, tags = monitor(mps, ep, stim, rows, kind)
    fails = list(fails) + mux_fails
    tags = ["mps=%d" % mps, "mode=" + desc["mode"], "kind=" + kind] + tags
    if desc.get("directed"):
        tags.append("directed:" + desc["directed"])
    if desc["mode"] == "script":
        # how far the strict host view got before the first (known) finding
        npk = sum(1 for i in stim[:(fails[0]["cycle"] if fails else len(stim))] if i[I["ack"]] and i[I["hs_ep"]] == ep)
        tags.append("tps-before-finding>=%d" % (20 if npk >= 20 else 10 if npk >= 10 else 5 if npk >= 5 else 0))
        if agent.benign:
            tags.append("profile=benign")
        if agent.teaser:
            tags.append("profile=teaser")
        if agent.wrap is not None:
            tags.append("profile=wrap")
            tags.append("wrap:finished" if agent.done_at is not None or desc.get("stimulus") else "wrap:unfinished")
    aw = max(0, (mps // 4 - 1).bit_length())
    # kind shared: monitor-only (the Lean model has no second requesting endpoint)
    return Case([mps, ep, aw, KINDS[kind]], stim, rows, fails, tags, desc, names_in, names_out, lean=(kind != "shared"))
