"""C30 — every CRC implementation equals its standard definition.

Tie to /repo:
  (a) translator `harness/translate/affine.py` regenerates the XOR tables of all eight CRC networks
      into lean/LunaVerif/Generated/Affine.lean; `Props/C30.lean` proves table = bit-serial CRC for
      all inputs (symbolic run + homomorphism), so a changed tap breaks `*_table`;
  (b) the sequential wrappers (USBDataPacketCRC, HeaderPacketCRC, DataPacketPayloadCRC), the token
      detector's acceptance test and compute_usb_crc5 are co-simulated against the Lean models
      (which evaluate the generated tables), and a monitor recomputes every observed CRC with the
      independent bit-serial Python reference (harness/common/usbref.py).

Failing-input search (`proof_search`): coefficient-wise comparison of the regenerated tables with
the reference, then a directed stimulus (steer the register to the unit vector, apply the unit
data word) on the real module in pysim.
"""
from harness.common.framework import Case
from harness.common.rng import Rng
from harness.common import sim
from harness.common import usbref as U
from harness.translate import affine
from harness.props import c30_accept

PROP = "C30"
LEAN_MODULES = ["LunaVerif.Core.XorAlg", "LunaVerif.Props.C30"]
DRIVER = "Driver/C30.lean"
TRANSLATORS = [affine.translate_crc]
REQUIRED_THEOREMS = [
    "evalHom", "transfer",
    "usb2_crc5_table", "usb2_crc16_step_table", "usb3_crc5_table", "usb3_crc16_word_table",
    "usb3_crc32_word_table", "usb3_crc32_3B_table", "usb3_crc32_2B_table", "usb3_crc32_1B_table",
    "usb2_crc5_generated_eq_serial", "usb2_crc16_step_generated_eq_serial", "usb3_crc5_generated_eq_serial",
    "usb3_crc16_word_generated_eq_serial", "usb3_crc32_word_generated_eq_serial",
    "usb3_crc32_3B_generated_eq_serial", "usb3_crc32_2B_generated_eq_serial", "usb3_crc32_1B_generated_eq_serial",
    "usb2_crc16_history", "usb3_crc16_history", "usb3_crc32_history", "usb3_crc32_after_payload",
    "token_accept_iff_check_field_correct", "data_accept_iff_check_field_correct",
    "header_accept_iff_check_field_correct",
]
RULE = ("cases = (module, initial_value) x stimulus: tok = random token packets through the real USBTokenDetector "
        "(correct / one-bit-off / random CRC5 fields, one row per token); d16/h16/p32 = cycle-level runs of "
        "USBDataPacketCRC / HeaderPacketCRC / DataPacketPayloadCRC with packet-shaped traffic (clear, words, tail) and "
        "with unconstrained strobe mixes (clear+advance, rx+tx, several tail strobes at once); lc5 = all 2^11 inputs "
        "of compute_usb_crc5; net = the repository's equation builders evaluated on zero/unit/random vectors; "
        "acceptance by the consumers (monitor-only, harness/props/c30_accept.py, appended last from an rng fork), one "
        "instance per case fed with 14..32 well-formed packets, each intact or with one kind of corruption, verdict "
        "recomputed from the words sent with the reference CRCs: a16 = USBDataPacketReceiver standalone / wired to the "
        "shared CRC unit at HS / FS (CRC16 correct / one bit off / random / payload bit flipped -> packet_complete vs "
        "crc_mismatch); alc = LinkCommandDetector (CRC-5 field correct / one bit off / random / protected bit flipped, "
        "both copies alike); ahp = RawHeaderPacketReceiver with the expected sequence number (CRC-5 field, link control "
        "word bit, CRC-16 field, DW0..2 bit, both); adp = DataPacketReceiver (the same header corruptions, CRC-32 field, "
        "payload bit; payloads of 0..24 bytes, every tail length; invalid cycles in between)")
ASSUMPTIONS = [
    "initial_value parameters at their defaults (0xFFFF / 0xFFFFFFFF) in the theorems; the co-simulation also varies them",
    "USBDataPacketCRC with exactly one attached DataCRCInterface (the module ORs the start strobes of all interfaces)",
]
PARTIAL = ""
TRUSTED_EXTRA = [
    "reference CRCs of Core/Crc.lean and usbref.py checked against the specifications' residuals "
    "(01100b, 800Dh, F6AAh, C704DD7Bh), the crcdes.pdf token example, zlib.crc32 and the repo's recorded packets",
]

M32 = 0xFFFFFFFF


# ------------------------------------------------------------------ reference register arithmetic
def ref_next(poly, width, reg, data, nbits):
    return U._crc_serial(U._lsb_bits(data, nbits), poly, width, reg)


def out_of(reg, width):
    """~crc[::-1]"""
    return U._rev(reg ^ ((1 << width) - 1), width)


NETSPEC = {   # name: (register width, data bits, polynomial)
    "usb2Crc16Step": (16, 8, 0x8005), "usb3Crc16Word": (16, 32, 0x100B), "usb3Crc32Word": (32, 32, 0x04C11DB7),
    "usb3Crc32Tail3": (32, 24, 0x04C11DB7), "usb3Crc32Tail2": (32, 16, 0x04C11DB7), "usb3Crc32Tail1": (32, 8, 0x04C11DB7),
}


def ref_net(name, x):
    """The standard definition of network `name` on the packed input vector x (register bits first)."""
    if name == "usb2Crc5":
        return U.usb2_crc5(x & 0x7FF)
    if name == "usb3Crc5":
        return U.usb3_crc5(x & 0x7FF)
    w, nb, poly = NETSPEC[name]
    return ref_next(poly, w, x & ((1 << w) - 1), x >> w, nb)


# ------------------------------------------------------------------ case generation
def gen_cases(tier, rng):
    # Elaborating + compiling one DataPacketPayloadCRC in pysim costs seconds, a simulated cycle
    # microseconds: few DUT instances, long runs (each run contains many clear/packet episodes).
    n = {"quick": 1, "widen": 3, "thorough": 8}.get(tier, 1)
    cyc = {"quick": 1500, "widen": 2500, "thorough": 4000}.get(tier, 1500)
    out = []
    for k in range(4 * n):
        out.append({"kind": "tok", "seed": rng.u64(), "n": 200, "k": k})
    for kind, ivs in (("d16", [0xFFFF, 0xFFFF, 0xFFFF, 0x0000]),
                      ("h16", [0xFFFF, 0xFFFF, 0x0000, None]),
                      ("p32", [M32, M32, None, M32])):
        for k in range(len(ivs) * n):
            iv = ivs[k % len(ivs)]
            if iv is None or (k >= len(ivs) and iv == 0):
                iv = rng.bits(32 if kind == "p32" else 16)
            out.append({"kind": kind, "iv": iv, "seed": rng.u64(), "k": k, "cycles": cyc})
    for c in range(2):
        out.append({"kind": "lc5", "base": 1024 * c, "n": 1024})
    for name in ["usb2Crc5", "usb3Crc5"] + list(NETSPEC):
        for k in range(n if tier != "thorough" else 3):
            out.append({"kind": "net", "net": name, "seed": rng.u64(), "k": k})
    # appended last, from a fork (the seeds of the cases above do not move): acceptance by the consumers of each CRC
    out += c30_accept.gen_cases(tier, rng.fork("accept"))
    return out


# ------------------------------------------------------------------ token detector (row = one token)
def run_tok(desc):
    from luna.gateware.usb.usb2.packet import USBTokenDetector
    from luna.gateware.interface.utmi import UTMIInterface
    rng = Rng(desc["seed"])
    if desc.get("stimulus"):
        words = [r[0] for r in desc["stimulus"]]
        pids = [r[1] for r in desc["stimulus"]]
    else:
        words, pids = [], []
        for _ in range(desc["n"]):
            d = rng.weighted([(6, rng.bits(11)), (1, 0), (1, 0x7FF), (1, 1 << rng.below(11))])
            good = U.usb2_crc5(d)
            c = rng.weighted([(5, good), (3, good ^ (1 << rng.below(5))), (2, rng.bits(5))])
            words.append(d | (c << 11))
            pids.append(rng.choice([U.PID_OUT, U.PID_IN, U.PID_SETUP, U.PID_SOF, U.PID_PING]))
    utmi = UTMIInterface()
    dut = USBTokenDetector(utmi=utmi, filter_by_address=False)
    stim, starts = [], []
    for w, pid in zip(words, pids):
        starts.append(len(stim))
        for a, v, b in U.render_rx([U.pid_byte(pid), w & 0xFF, w >> 8], rng if not desc.get("stimulus") else None):
            stim.append([a, v, b])
        stim.extend([[0, 0, 0]] * 3)
    starts.append(len(stim))
    ifc = dut.interface
    rows = sim.run_cycles(dut, [utmi.rx_active, utmi.rx_valid, utmi.rx_data],
                          [ifc.new_token, ifc.new_frame, ifc.address, ifc.endpoint, ifc.frame], stim, domain="usb")
    fails, outs, tags = [], [], set()
    for k, w in enumerate(words):
        seg = rows[starts[k] + 1:starts[k + 1] + 1]
        acc = int(any(r[0] or r[1] for r in seg))
        want = int((w >> 11) == U.usb2_crc5(w & 0x7FF))
        tags.add("tok-accepted" if acc else "tok-rejected")
        if acc != want and not fails:
            fails.append({"cycle": k, "sig": "token-crc5-accept", "what":
                          "token word %#06x (pid %#x): detector %s it, but its CRC5 field %#04x is %s (USB2 CRC5 of "
                          "the 11 token bits = %#04x)" % (w, pids[k], "accepted" if acc else "rejected", w >> 11,
                                                          "correct" if want else "wrong", U.usb2_crc5(w & 0x7FF))})
        outs.append([acc, None])
    return Case([0, 0], [[w, p] for w, p in zip(words, pids)], outs, fails, sorted(tags), desc,
                ["token_word", "pid"], ["accepted", "crc5"])


# ------------------------------------------------------------------ USBDataPacketCRC
def stim_d16(rng, cycles, k):
    rows = []
    mode = k % 3
    while len(rows) < cycles:
        if mode == 0:      # packet shaped: start, then bytes with gaps on rx or tx
            rows.append([1, 0, rng.bits(8), 0, rng.bits(8)])
            tx = rng.chance(50)
            for _ in range(rng.choice([0, 1, 2, 3, 8, 17, 64])):
                for _ in range(rng.choice([0, 0, 0, 1, 3])):
                    rows.append([0, 0, rng.bits(8), 0, rng.bits(8)])
                rows.append([0, 0 if tx else 1, rng.bits(8), 1 if tx else 0, rng.bits(8)])
            rows.extend([[0, 0, 0, 0, 0]] * rng.range(0, 3))
        elif mode == 1:    # unconstrained strobes
            rows.append([int(rng.chance(8)), int(rng.chance(50)), rng.bits(8), int(rng.chance(50)), rng.bits(8)])
        else:              # boundary data: unit bytes / zeros / ones, every cycle valid
            rows.append([int(rng.chance(3)), 1, rng.choice([0, 0xFF, 1 << rng.below(8)]), 0, 0])
    return rows[:cycles]


def run_d16(desc):
    from luna.gateware.usb.usb2.packet import USBDataPacketCRC, DataCRCInterface
    iv = desc["iv"]
    dut = USBDataPacketCRC(initial_value=iv)
    ifc = DataCRCInterface()
    dut.add_interface(ifc)
    stim = desc.get("stimulus") or stim_d16(Rng(desc["seed"]), desc["cycles"], desc.get("k", 0))
    rows = sim.run_cycles(dut, [ifc.start, dut.rx_valid, dut.rx_data, dut.tx_valid, dut.tx_data], [ifc.crc], stim,
                          domain="usb")
    fails, tags = [], set()
    reg, data = iv, []
    for t, ((st, rv, rd, tv, td), (crc,)) in enumerate(zip(stim, rows)):
        want = out_of(reg, 16)
        if iv == 0xFFFF:
            assert want == U.usb2_crc16(data)
        if crc != want and not fails:
            fails.append({"cycle": t, "sig": "usb2-crc16-output", "what":
                          "USBDataPacketCRC(initial_value=%#x).crc = %#06x after bytes %s since the last start; the "
                          "USB2 CRC16 of those bytes is %#06x" % (iv, crc, [hex(b) for b in data[-12:]], want)})
        if st:
            reg, data = iv, []
            tags.add("d16-start+valid" if (rv or tv) else "d16-start")
        elif rv:
            reg, data = ref_next(0x8005, 16, reg, rd, 8), data + [rd]
            tags.add("d16-rx+tx" if tv else "d16-rx")
        elif tv:
            reg, data = ref_next(0x8005, 16, reg, td, 8), data + [td]
            tags.add("d16-tx")
    return Case([1, iv], stim, rows, fails, sorted(tags), desc,
                ["start", "rx_valid", "rx_data", "tx_valid", "tx_data"], ["crc"])


# ------------------------------------------------------------------ HeaderPacketCRC
def word_choice(rng):
    return rng.weighted([(6, rng.bits(32)), (1, 0), (1, M32), (2, 1 << rng.below(32))])


def stim_h16(rng, cycles, k):
    rows = []
    while len(rows) < cycles:
        if k % 2 == 0:     # header shaped: clear, three words (with stalls)
            rows.append([1, 0, word_choice(rng)])
            for _ in range(3):
                for _ in range(rng.choice([0, 0, 1, 2])):
                    rows.append([0, 0, word_choice(rng)])
                rows.append([0, 1, word_choice(rng)])
            rows.extend([[0, 0, word_choice(rng)]] * rng.range(1, 3))
        else:
            rows.append([int(rng.chance(6)), int(rng.chance(60)), word_choice(rng)])
    return rows[:cycles]


def run_h16(desc):
    from luna.gateware.usb.usb3.link.crc import HeaderPacketCRC
    iv = desc["iv"]
    dut = HeaderPacketCRC(initial_value=iv)
    stim = desc.get("stimulus") or stim_h16(Rng(desc["seed"]), desc["cycles"], desc.get("k", 0))
    rows = sim.run_cycles(dut, [dut.clear, dut.advance_crc, dut.data_input], [dut.crc], stim, domain="ss")
    fails, tags = [], set()
    reg, words = iv, []
    for t, ((clr, adv, d), (crc,)) in enumerate(zip(stim, rows)):
        want = out_of(reg, 16)
        if iv == 0xFFFF:
            assert want == U.usb3_crc16(words)
        if crc != want and not fails:
            fails.append({"cycle": t, "sig": "usb3-crc16-output", "what":
                          "HeaderPacketCRC(initial_value=%#x).crc = %#06x after words %s since the last clear; the "
                          "USB3 CRC-16 of those words is %#06x" % (iv, crc, [hex(w) for w in words[-6:]], want)})
        if clr:
            reg, words = iv, []
            tags.add("h16-clear+advance" if adv else "h16-clear")
        elif adv:
            reg, words = ref_next(0x100B, 16, reg, d, 32), words + [d]
            tags.add("h16-advance")
    return Case([2, iv], stim, rows, fails, sorted(tags), desc, ["clear", "advance_crc", "data_input"], ["crc"])


# ------------------------------------------------------------------ DataPacketPayloadCRC
def stim_p32(rng, cycles, k):
    rows = []
    while len(rows) < cycles:
        if k % 2 == 0:     # payload shaped: clear, n full words, optional tail
            rows.append([1, 0, 0, 0, 0, word_choice(rng)])
            for _ in range(rng.choice([0, 1, 2, 5, 16, 40])):
                if rng.chance(15):
                    rows.append([0, 0, 0, 0, 0, word_choice(rng)])
                rows.append([0, 1, 0, 0, 0, word_choice(rng)])
            tail = rng.below(4)
            if tail:
                rows.append([0, 0, int(tail == 3), int(tail == 2), int(tail == 1), word_choice(rng)])
            rows.extend([[0, 0, 0, 0, 0, word_choice(rng)]] * rng.range(1, 3))
        else:              # unconstrained strobe mixes (priority word > 3B > 2B > 1B, clear first)
            rows.append([int(rng.chance(5)), int(rng.chance(35)), int(rng.chance(35)), int(rng.chance(35)),
                         int(rng.chance(35)), word_choice(rng)])
    return rows[:cycles]


def run_p32(desc):
    from luna.gateware.usb.usb3.link.crc import DataPacketPayloadCRC
    iv = desc["iv"]
    dut = DataPacketPayloadCRC(initial_value=iv)
    stim = desc.get("stimulus") or stim_p32(Rng(desc["seed"]), desc["cycles"], desc.get("k", 0))
    rows = sim.run_cycles(dut, [dut.clear, dut.advance_word, dut.advance_3B, dut.advance_2B, dut.advance_1B,
                                dut.data_input],
                          [dut.crc, dut.next_crc_3B, dut.next_crc_2B, dut.next_crc_1B], stim, domain="ss")
    fails, tags = [], set()
    reg, data = iv, []
    P = 0x04C11DB7

    def le(d, n):
        return [(d >> (8 * i)) & 0xFF for i in range(n)]

    for t, ((clr, aw, a3, a2, a1, d), got) in enumerate(zip(stim, rows)):
        want = (out_of(reg, 32), out_of(ref_next(P, 32, reg, d & 0xFFFFFF, 24), 32),
                out_of(ref_next(P, 32, reg, d & 0xFFFF, 16), 32), out_of(ref_next(P, 32, reg, d & 0xFF, 8), 32))
        if iv == M32:
            assert want[0] == U.usb3_crc32(data) and want[2] == U.usb3_crc32(data + le(d, 2))
        for name, g, w in zip(("output", "next3B", "next2B", "next1B"), got, want):
            if g != w and not fails:
                fails.append({"cycle": t, "sig": "usb3-crc32-" + name, "what":
                              "DataPacketPayloadCRC(initial_value=%#x) %s = %#010x with data_input=%#010x after %d "
                              "payload bytes (last %s) since the last clear; the USB3 CRC-32 says %#010x"
                              % (iv, name, g, d, len(data), [hex(b) for b in data[-8:]], w)})
        if clr:
            reg, data = iv, []
            tags.add("p32-clear")
        else:
            nb = 4 if aw else 3 if a3 else 2 if a2 else 1 if a1 else 0
            if nb:
                reg, data = ref_next(P, 32, reg, d & ((1 << (8 * nb)) - 1), 8 * nb), data + le(d, nb)
                tags.add("p32-adv%d%s" % (nb, "-multi" if (aw + a3 + a2 + a1) > 1 else ""))
    return Case([3, iv], stim, rows, fails, sorted(tags), desc,
                ["clear", "advance_word", "advance_3B", "advance_2B", "advance_1B", "data_input"],
                ["crc", "next_crc_3B", "next_crc_2B", "next_crc_1B"])


# ------------------------------------------------------------------ compute_usb_crc5 (pure)
def run_lc5(desc):
    from amaranth import Signal
    from luna.gateware.usb.usb3.link.crc import compute_usb_crc5
    xs = [r[0] for r in desc["stimulus"]] if desc.get("stimulus") else list(range(desc["base"], desc["base"] + desc["n"]))
    bits = Signal(11)
    got = affine._comb_eval([bits], compute_usb_crc5(bits), 5, xs)
    fails = []
    for t, (x, g) in enumerate(zip(xs, got)):
        if g != U.usb3_crc5(x) and not fails:
            fails.append({"cycle": t, "sig": "usb3-crc5-output", "what":
                          "compute_usb_crc5(%#05x) = %#04x, the USB3 CRC-5 is %#04x" % (x, g, U.usb3_crc5(x))})
    return Case([4, 0], [[x] for x in xs], [[g] for g in got], fails, ["lc5"], desc, ["protected_bits"], ["crc5"])


# ------------------------------------------------------------------ the equation builders themselves
def run_net(desc):
    """The repository's equation builder for one network, evaluated on explicit input vectors and
    compared with the standard definition (monitor only)."""
    name = desc["net"]
    nets = {n[0]: n for n in affine.crc_networks()}
    _, _doc, inputs, value, width, err = nets[name]
    total = sum(len(s) for s in inputs)
    if desc.get("stimulus"):
        xs = [r[0] for r in desc["stimulus"]]
    else:
        rng = Rng(desc["seed"])
        xs = [0, (1 << total) - 1] + [1 << i for i in range(total)] + [rng.bits(total) for _ in range(64)]
    fails = []
    if err:
        fails.append({"cycle": 0, "sig": "crc-net-" + name, "what": "the builder of %s failed: %s" % (name, err)})
        return Case([9, 0], [[x] for x in xs], [[None] for _ in xs], fails, ["net-" + name], desc, ["inputs"], ["out"],
                    lean=False)
    got = affine._comb_eval(inputs, value, width, xs)
    for t, (x, g) in enumerate(zip(xs, got)):
        w = ref_net(name, x)
        if g != w and not fails:
            fails.append({"cycle": t, "sig": "crc-net-" + name, "what":
                          "%s on input vector %#x (register bits first, then data bits) gives %#x; the bit-serial "
                          "standard CRC gives %#x" % (nets[name][1], x, g, w)})
    return Case([9, 0], [[x] for x in xs], [[g] for g in got], fails, ["net-" + name], desc, ["inputs"], ["out"],
                lean=False)


RUNNERS = {"tok": run_tok, "d16": run_d16, "h16": run_h16, "p32": run_p32, "lc5": run_lc5, "net": run_net}
RUNNERS.update(c30_accept.RUNNERS)


def run_case(desc):
    return RUNNERS[desc["kind"]](desc)


# ------------------------------------------------------------------ failing-input search
def gf2_solve(cols, target, nbits):
    """Find x with XOR of cols[j] over set bits j of x == target (all as ints of nbits bits), or None."""
    basis = {}   # pivot bit -> (vector, combination)
    for j, c in enumerate(cols):
        v, comb = c, 1 << j
        for p in sorted(basis, reverse=True):
            if (v >> p) & 1:
                v ^= basis[p][0]
                comb ^= basis[p][1]
        if v:
            basis[v.bit_length() - 1] = (v, comb)
    x, t = 0, target
    for p in sorted(basis, reverse=True):
        if (t >> p) & 1:
            t ^= basis[p][0]
            x ^= basis[p][1]
    return x if t == 0 else None


def steer(poly, width, nb, nwords, init, target):
    """Data words (nb bits each) that take the *reference* register from init to target."""
    def f(ws):
        r = init
        for w in ws:
            r = ref_next(poly, width, r, w, nb)
        return r
    zero = f([0] * nwords)
    cols = []
    for j in range(nb * nwords):
        ws = [0] * nwords
        ws[j // nb] = 1 << (j % nb)
        cols.append(f(ws) ^ zero)
    x = gf2_solve(cols, target ^ zero, width)
    if x is None:
        return None
    return [(x >> (nb * i)) & ((1 << nb) - 1) for i in range(nwords)]


def directed_case(name, idx, rng):
    """A stimulus for the real module exercising input bit `idx` (None = the constant term) of `name`."""
    if name in ("usb2Crc5", "usb3Crc5"):
        d = 0 if idx is None else 1 << idx
        if name == "usb3Crc5":
            return {"kind": "lc5", "stimulus": [[d], [0], [0x7FF]]}
        good = U.usb2_crc5(d)
        words = [d | (good << 11)] + [d | ((good ^ (1 << b)) << 11) for b in range(5)]
        return {"kind": "tok", "seed": 0, "stimulus": [[w, U.PID_OUT] for w in words]}
    w, nb, poly = NETSPEC[name]
    state = (1 << idx) if (idx is not None and idx < w) else 0
    data = (1 << (idx - w)) if (idx is not None and idx >= w) else 0
    iv = (1 << w) - 1
    if name == "usb2Crc16Step":
        pre = steer(poly, 16, 8, 2, iv, state)
        stim = [[1, 0, 0, 0, 0]] + [[0, 1, b, 0, 0] for b in pre] + [[0, 1, data, 0, 0], [0, 0, 0, 0, 0], [0, 0, 0, 0, 0]]
        return {"kind": "d16", "iv": iv, "stimulus": stim}
    if name == "usb3Crc16Word":
        pre = steer(poly, 16, 32, 1, iv, state)
        stim = [[1, 0, 0]] + [[0, 1, x] for x in pre] + [[0, 1, data], [0, 0, 0], [0, 0, 0]]
        return {"kind": "h16", "iv": iv, "stimulus": stim}
    pre = steer(0x04C11DB7, 32, 32, 1, iv, state)
    strobe = {"usb3Crc32Word": [1, 0, 0, 0], "usb3Crc32Tail3": [0, 1, 0, 0], "usb3Crc32Tail2": [0, 0, 1, 0],
              "usb3Crc32Tail1": [0, 0, 0, 1]}[name]
    stim = [[1, 0, 0, 0, 0, 0]] + [[0, 1, 0, 0, 0, x] for x in pre] + [[0] + strobe + [data], [0, 0, 0, 0, 0, data],
                                                                     [0, 0, 0, 0, 0, 0]]
    return {"kind": "p32", "iv": iv, "stimulus": stim}


def table_differences(limit=6):
    """[(network, input index or None)] where the regenerated table differs from the standard definition."""
    tables, nin, _c, _errors, _docs, _nets = affine.build_tables("crc")
    diffs = []
    for name, rows in tables.items():
        n = nin[name]
        if rows is None:
            diffs.append((name, None))
            continue
        z = ref_net(name, 0)
        if affine.eval_table(rows, 0) != z:
            diffs.append((name, None))
        k = 0
        for i in range(n):
            if affine.eval_table(rows, 1 << i) != ref_net(name, 1 << i):
                diffs.append((name, i))
                k += 1
                if k >= limit:
                    break
    return diffs


def proof_search(tier, rng, proof):
    found = []
    for name, idx in table_differences():
        d = directed_case(name, idx, rng)
        c = run_case(d)
        if c.failures:
            f = dict(c.failures[0])
            d = dict(c.desc)
            d["stimulus"] = c.inputs
            f["desc"] = d
            f["what"] = "[directed at %s input bit %s] %s" % (name, idx, f["what"])
            found.append(f)
            break
        # the wrapper did not expose it (e.g. the translator could not read the network): evaluate the builder itself
        c = run_case({"kind": "net", "net": name, "seed": rng.u64()})
        if c.failures:
            f = dict(c.failures[0])
            t = f["cycle"]
            f["desc"] = {"kind": "net", "net": name, "stimulus": [c.inputs[t]]}
            f["cycle"] = 0
            found.append(f)
            break
    return found


def replay_desc(desc):
    """Replays must see the tables of the tree they run on: regenerate, rebuild the driver, run."""
    from harness.common import framework, leanrun
    import sys
    for tr in TRANSLATORS:
        try:
            tr()
        except Exception as e:      # an untranslatable network: the monitor below still runs on the real code
            print("translator:", e)
    leanrun.lake_build([leanrun.exe_name(DRIVER)])
    r = framework.run_cases(sys.modules[__name__], [desc], nproc=1)[0]
    if r.get("error"):
        raise RuntimeError(r["error"])
    fails = list(r["failures"])
    if r.get("disagree"):
        fails.append({"cycle": r["disagree"]["cycle"], "sig": "model-gateware-disagreement",
                      "what": "Lean model and gateware disagree: %r" % (r["disagree"],)})
    return fails
