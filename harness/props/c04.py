"""C04 — handshake generator / detector (luna/gateware/usb/usb2/packet.py:
USBHandshakeGenerator, USBHandshakeDetector)."""
from harness.common.framework import Case
from harness.common.rng import Rng
from harness.common import sim, usbref

PROP = "C04"
LEAN_MODULES = ["LunaVerif.Props.C04"]
DRIVER = "Driver/C04.lean"
REQUIRED_THEOREMS = ["gen_one_packet_per_idle_request", "gen_outputs_exact", "gen_byte_has_valid_check_nibble",
                     "det_exact", "det_strobe_iff_handshake_packet"]
RULE = ("generator: request strobes (all 8 combinations) x tx_ready patterns, requests at every phase of a stalled "
        "transmission, thorough: all 16^3 input triples after each of 7 state-reaching prefixes; detector: packets "
        "rendered with rx_valid gaps -- all 256 one-byte packets, 0..4 byte packets starting with handshake and other "
        "PIDs, aborted (byte-less) packets, random legal UTMI streams, random ILLEGAL streams (model comparison only); "
        "thorough: exhaustive first byte 0..255 x length 1..3 x every gap pattern with gaps 0..2")
ASSUMPTIONS = [
    "detector: the UTMI receive history is legal (rx_valid only while rx_active, not in the cycle rx_active rises); a "
    "'received packet' is the list of rx_valid bytes between rx_active rising and falling",
    "generator: when several request strobes coincide the property does not say which wins; the code's priority "
    "(stall over nak over ack, later Amaranth If wins) is modelled, proved and co-simulated; the monitor accepts any "
    "of the requested handshakes",
]
PARTIAL = ""

HS_BYTES = {"ack": 0xD2, "nak": 0x5A, "stall": 0x1E, "nyet": 0x96}
DET_NAMES = ["ack", "nak", "stall", "nyet"]


# ------------------------------------------------------------------------------------------ generator
def gen_stimulus(desc, rng):
    kind = desc["kind"]
    rows = []
    if kind == "gen-random":
        L = 600
        p_req = rng.choice([3, 10, 30, 70])
        p_rdy = rng.choice([5, 30, 60, 100])
        multi = rng.chance(40)
        for _ in range(L):
            if rng.chance(p_req):
                if multi:
                    m = rng.range(1, 7)
                else:
                    m = 1 << rng.below(3)
            else:
                m = 0
            rows.append([m & 1, (m >> 1) & 1, (m >> 2) & 1, int(rng.chance(p_rdy))])
    elif kind == "gen-phases":
        # a request, then a stall of n cycles during which another request arrives at offset k, then ready
        for n in range(0, 7):
            for k in range(0, n + 2):
                first = rng.range(1, 7)
                second = rng.range(1, 7)
                rows.append([first & 1, (first >> 1) & 1, (first >> 2) & 1, rng.below(2)])
                for j in range(n + 1):
                    m = second if j == k else 0
                    rows.append([m & 1, (m >> 1) & 1, (m >> 2) & 1, int(j == n)])
                rows.extend([[0, 0, 0, rng.below(2)]] * rng.range(0, 2))
    elif kind == "gen-exhaustive":
        # every triple of the 16 input values after a prefix that reaches one of the reachable states
        prefixes = [[], [[1, 0, 0, 0]], [[0, 1, 0, 0]], [[0, 0, 1, 0]],
                    [[1, 0, 0, 0], [0, 0, 0, 1]], [[0, 1, 0, 0], [0, 0, 0, 1]], [[0, 0, 1, 0], [0, 0, 0, 1]]]
        pre = prefixes[desc["prefix"]]
        a = desc["first"]
        for b in range(16):
            for c in range(16):
                # return to IDLE with the data register as after reset is impossible; instead each triple is
                # preceded by a drain (ready) and the prefix; the data register then holds a known value
                rows.append([0, 0, 0, 1])
                rows.extend(pre)
                for v in (a, b, c):
                    rows.append([v & 1, (v >> 1) & 1, (v >> 2) & 1, (v >> 3) & 1])
    return rows


def gen_monitor(stim, rows):
    """Property on the real trace: a request seen while idle yields tx_valid from the next cycle with the
    requested PID byte (correct check nibble), held until the cycle tx_ready is high; nothing else is sent."""
    fails = []
    pending = None     # set of acceptable bytes while busy (narrowed to the observed byte in the first cycle)
    tags = set()
    sent = 0
    for t, ((ack, nak, stall, ready), (valid, data)) in enumerate(zip(stim, rows)):
        if pending is None:
            if valid:
                fails.append({"cycle": t, "sig": "gen-unsolicited-valid",
                              "what": "tx_valid high at cycle %d without an outstanding handshake request" % t})
                break
            req = [b for f, b in ((ack, 0xD2), (nak, 0x5A), (stall, 0x1E)) if f]
            if req:
                pending = set(req)
                tags.add("gen-req-%d" % len(req))
        else:
            if not valid:
                fails.append({"cycle": t, "sig": "gen-valid-dropped",
                              "what": "tx_valid low at cycle %d although the requested handshake was not yet accepted" % t})
                break
            if data not in pending:
                fails.append({"cycle": t, "sig": "gen-wrong-byte",
                              "what": "tx_data=0x%02x at cycle %d, requested handshake byte(s) %s"
                              % (data, t, sorted(hex(b) for b in pending))})
                break
            if not usbref.pid_ok(data):
                fails.append({"cycle": t, "sig": "gen-check-nibble", "what": "tx_data=0x%02x has a bad check nibble" % data})
                break
            pending = {data}
            if ack or nak or stall:
                tags.add("gen-req-while-busy")
            if ready:
                pending = None
                sent += 1
            else:
                tags.add("gen-stalled")
    if sent:
        tags.add("gen-sent")
    return fails, tags


# ------------------------------------------------------------------------------------------- detector
def legal_rx(rows):
    prev = 0
    for a, v, _d in rows:
        if v and not (a and prev):
            return False
        prev = a
    return True


def render(packet, gaps, lead=1, idle=1, rng=None):
    """packet bytes, gaps[i] = wait cycles after byte i (gaps[-1] after the last byte)."""
    fill = (lambda: rng.below(256)) if rng else (lambda: 0)
    rows = [[1, 0, fill()] for _ in range(lead)]
    for b, g in zip(packet, gaps):
        rows.append([1, 1, b])
        rows.extend([1, 0, fill()] for _ in range(g))
    rows.extend([0, 0, fill()] for _ in range(idle))
    return rows


def det_stimulus(desc, rng):
    kind = desc["kind"]
    rows = [[0, 0, 0]] * rng.range(0, 3)
    if kind == "det-onebyte":
        for b in rng.shuffle(list(range(256))):
            rows += render([b], [rng.choice([0, 0, 1, 3])], lead=rng.choice([1, 1, 2, 4]), idle=rng.choice([1, 1, 2]), rng=rng)
    elif kind == "det-grammar":
        hs = list(HS_BYTES.values())
        for _ in range(120):
            n = rng.weighted([(2, 0), (8, 1), (4, 2), (2, 3), (1, 4), (1, rng.range(5, 12))])
            first = rng.weighted([(6, rng.choice(hs)), (2, usbref.pid_byte(rng.below(16))), (2, rng.below(256)),
                                  (1, rng.choice(hs) ^ (1 << rng.below(8)))])
            pkt = ([first] + [rng.weighted([(2, rng.below(256)), (1, first), (1, rng.choice(hs))]) for _ in range(n - 1)])[:n]
            rows += render(pkt, [rng.choice([0, 0, 0, 1, 2, 9]) for _ in pkt], lead=rng.choice([1, 1, 2, 5]),
                           idle=rng.choice([1, 1, 1, 2, 7]), rng=rng)
    elif kind == "det-random-legal":
        prev = 0
        p_act = rng.choice([50, 80, 95])
        p_val = rng.choice([20, 50, 90])
        for _ in range(900):
            a = int(rng.chance(p_act)) if not prev else int(rng.chance(p_act + (100 - p_act) // 2))
            v = int(a and prev and rng.chance(p_val))
            d = rng.weighted([(3, rng.choice(list(HS_BYTES.values()))), (2, rng.below(256))])
            rows.append([a, v, d])
            prev = a
    elif kind == "det-random-illegal":
        for _ in range(600):
            rows.append([int(rng.chance(70)), int(rng.chance(50)),
                         rng.weighted([(3, rng.choice(list(HS_BYTES.values()))), (2, rng.below(256))])])
    elif kind == "det-exhaustive":
        tails = [0x00, 0xD2, rng.below(256)]
        for first in desc["firsts"]:
            for n in (1, 2, 3):
                pkt = [first] + [rng.choice(tails) for _ in range(n - 1)]
                for code in range(3 ** (n + 1)):
                    g = [(code // 3 ** i) % 3 for i in range(n + 1)]
                    rows += render(pkt, g[1:], lead=1 + g[0], idle=1, rng=None)
    return [list(r) for r in rows]


def det_monitor(stim, rows):
    """Property on the real trace: one strobe, in the cycle after the packet ends, for exactly the one-byte
    packets ACK/NAK/STALL/NYET; never otherwise."""
    fails = []
    tags = set()
    cur = None
    expect = (0, 0, 0, 0)
    for t, ((a, v, d), out) in enumerate(zip(stim, rows)):
        if tuple(out) != expect:
            k = [i for i in range(4) if out[i] != expect[i]][0]
            fails.append({"cycle": t, "sig": "det-%s-strobe" % DET_NAMES[k],
                          "what": "detected.%s=%d at cycle %d, required %d (last completed packet decides)"
                          % (DET_NAMES[k], out[k], t, expect[k])})
            break
        expect = (0, 0, 0, 0)
        if cur is None:
            if a:
                cur = []
        else:
            if not a:
                expect = tuple(int(cur == [HS_BYTES[n]]) for n in DET_NAMES)
                tags.add("det-len%d" % min(len(cur), 4))
                if any(expect):
                    tags.add("det-hit-" + DET_NAMES[expect.index(1)])
                elif len(cur) >= 1 and cur[0] in HS_BYTES.values():
                    tags.add("det-long-handshake-ignored")
                elif len(cur) == 1 and usbref.pid_ok(cur[0]):
                    tags.add("det-other-valid-pid")
                elif len(cur) == 1:
                    tags.add("det-bad-nibble")
                cur = None
            elif v:
                cur.append(d)
    return fails, tags


# --------------------------------------------------------------------------------------------- cases
def gen_cases(tier, rng):
    out = []
    n = {"quick": 3, "widen": 6, "thorough": 10}[tier]
    for k in range(12 * n):
        out.append({"dut": "gen", "kind": "gen-random", "seed": rng.u64()})
    for k in range(4 * n):
        out.append({"dut": "gen", "kind": "gen-phases", "seed": rng.u64()})
    for k in range(2 * n):
        out.append({"dut": "det", "kind": "det-onebyte", "seed": rng.u64()})
    for k in range(12 * n):
        out.append({"dut": "det", "kind": "det-grammar", "seed": rng.u64()})
    for k in range(8 * n):
        out.append({"dut": "det", "kind": "det-random-legal", "seed": rng.u64()})
    for k in range(4 * n):
        out.append({"dut": "det", "kind": "det-random-illegal", "seed": rng.u64()})
    if tier == "thorough":
        for pre in range(7):
            for first in range(16):
                out.append({"dut": "gen", "kind": "gen-exhaustive", "prefix": pre, "first": first, "seed": rng.u64()})
        for lo in range(0, 256, 8):
            out.append({"dut": "det", "kind": "det-exhaustive", "firsts": list(range(lo, lo + 8)), "seed": rng.u64()})
    return out


def run_case(desc):
    from luna.gateware.usb.usb2.packet import USBHandshakeGenerator, USBHandshakeDetector
    from luna.gateware.interface.utmi import UTMIInterface
    rng = Rng(desc["seed"])
    if desc["dut"] == "gen":
        dut = USBHandshakeGenerator()
        stim = desc.get("stimulus") or gen_stimulus(desc, rng)
        rows = sim.run_cycles(dut, [dut.issue_ack, dut.issue_nak, dut.issue_stall, dut.tx.ready],
                              [dut.tx.valid, dut.tx.data], stim, domain="usb")
        fails, tags = gen_monitor(stim, rows)
        tags.add("kind=" + desc["kind"])
        return Case([0], stim, rows, fails, sorted(tags), desc,
                    ["issue_ack", "issue_nak", "issue_stall", "tx_ready"], ["tx_valid", "tx_data"])
    utmi = UTMIInterface()
    dut = USBHandshakeDetector(utmi=utmi)
    stim = desc.get("stimulus") or det_stimulus(desc, rng)
    d = dut.detected
    rows = sim.run_cycles(dut, [utmi.rx_active, utmi.rx_valid, utmi.rx_data], [d.ack, d.nak, d.stall, d.nyet],
                          stim, domain="usb")
    legal = legal_rx(stim)
    if desc["kind"] != "det-random-illegal" and not desc.get("stimulus") and not legal:
        raise AssertionError("stimulus generator %s left the LegalRx predicate" % desc["kind"])
    if legal:
        fails, tags = det_monitor(stim, rows)
    else:
        fails, tags = [], {"det-illegal-history(model comparison only)"}
    tags.add("kind=" + desc["kind"])
    return Case([1], stim, rows, fails, sorted(tags), desc, ["rx_active", "rx_valid", "rx_data"],
                ["detected." + n for n in DET_NAMES])
