"""C07 (cycle level) -- the REAL `USBControlEndpoint` + `USBRequestHandlerMultiplexer` + `StandardRequestHandler`,
standalone, co-simulated clock cycle by clock cycle against lean/LunaVerif/Model/Usb2/ControlCyc.lean
(driver lean/Driver/C07Cyc.lean).  Independent of the event-level check in dev_ctl.py: another DUT (no USBDevice,
no token detector: the `EndpointInterface` is driven directly), another driver, another monitor.

DUT      `USBControlEndpoint(utmi, endpoint_number, max_packet_size)` with `add_standard_request_handlers`
         (block-RAM or distributed descriptor handler) and a `USBDataPacketCRC` wired to its `data_crc` port as device.py does.
Driven   the tokenizer record (pid / endpoint / new_token / ready_for_response / is_in / is_out / is_setup / is_ping),
         the UTMI receive lines (so that the real setup decoder produces `packet.received`, the fields and `ack`),
         `timer.tx_allowed`, `speed`, `rx_ready_for_response`, `handshakes_in.*`, `active_config`, `tx.ready`.
Sampled  as INPUTS of the model (abstracted submodules): the setup decoder's packet + ack, the descriptor handler's
         tx stream + stall, the transmitter's stream;
         as OUTPUTS compared with the model: every EndpointInterface output, data_requested / status_requested / the
         forwarded handshake, the handler's own claim / ack / stall / start strobes / ready, and the registers (both FSM
         states, start_position, tx_data_pid, expecting_ack).
Monitor  the cycle-level facts behind C07/C08/C10 stated on the real trace (see `monitor`).

Additional request handlers (spec["handlers"], devharness.make_handler; 0-2 per case): added with `add_request_handler`
after the standard handlers, so the real `USBRequestHandlerMultiplexer` has 1-3 interfaces + the stall-only fallback.
Their interface outputs are sampled as INPUTS of the model (15 values per handler, Model/Usb2/ControlCycX.lean `stepX`:
the handlers are abstract, the multiplexer is the model's).
"""
import multiprocessing
import traceback

from harness.common import sim as _sim          # noqa: F401  (selects and checks the repository)
from harness.common import usbref as U
from harness.common import devharness as DH
from harness.common import leanrun
from harness.common.framework import Case
from harness.common.rng import Rng
from harness.props import dev_ctl

DRIVER = "Driver/C07Cyc.lean"

NAMES_IN = ["tokEp", "newToken", "readyForResponse", "isIn", "isOut", "isSetup", "isPing", "rxReady", "hsAck",
            "activeConfig", "txReady", "received", "sdAck", "su.isIn", "su.type", "su.recipient", "su.request",
            "su.value", "su.index", "su.length", "dValid", "dFirst", "dLast", "dPayload", "dStall",
            "tValid", "tFirst", "tLast", "tPayload"]
NAMES_OUT = ["ack", "nak", "stall", "txValid", "txFirst", "txLast", "txPayload", "txPidToggle", "addressChanged",
             "newAddress", "configChanged", "newConfig", "cehEnable", "cehDirection", "cehNumber",
             "dataRequested", "statusRequested", "hsAckForwarded",
             "h.claim", "h.ack", "h.stall", "h.dStart", "h.dReady", "h.tStart", "h.tReady", "h.tMaxLen", "h.tData0",
             "stage", "hstate", "startPos", "txPid", "expectingAck",
             # the serializer MODEL (Model/Usb2/ControlCycSys.lean) driven by the model's wires; expected = the real
             # transmitter's outputs of the same cycle (which are also the inputs tValid … tPayload)
             "ser.valid", "ser.first", "ser.last", "ser.payload",
             # the block descriptor handler MODEL in the loop (cases with GetDescriptorHandlerBlock; the columns echo the
             # inputs for the distributed handler); expected = the real handler's outputs of the same cycle
             "blk.valid", "blk.first", "blk.last", "blk.payload", "blk.stall"]

NAMES_X = ["claim", "ack", "stall", "txValid", "txFirst", "txLast", "txPayload", "txDataPid", "addressChanged",
           "newAddress", "configChanged", "newConfig", "cehEnable", "cehDirection", "cehNumber"]


def names_in(nx):
    return NAMES_IN + ["x%d.%s" % (k, n) for k in range(nx) for n in NAMES_X]


STAGES = ["SETUP", "DATA_IN", "DATA_OUT", "STATUS_IN", "STATUS_OUT"]
HSTATES = ["IDLE", "GET_STATUS", "CLEAR_FEATURE", "SET_ADDRESS", "SET_CONFIGURATION", "GET_DESCRIPTOR",
           "GET_CONFIGURATION", "UNHANDLED"]

PID_FLAGS = {U.PID_IN: "is_in", U.PID_OUT: "is_out", U.PID_SETUP: "is_setup", U.PID_PING: "is_ping"}


# ----------------------------------------------------------------------------- DUT
class _Built:
    pass


def build(desc_table, ep_num, mps, avoid_blockram=False, handlers=()):
    """Elaborates the real control endpoint; returns the fragment to simulate and the signals to drive / sample.
    The objects created inside `elaborate` (setup decoder, transmitter, descriptor handler, the two FSMs) are
    captured by wrapping the instances' `elaborate` -- observation only, nothing is changed."""
    from amaranth import Module, Elaboratable
    from amaranth.hdl import Fragment
    from usb_protocol.emitters import DeviceDescriptorCollection
    from luna.gateware.interface.utmi import UTMIInterface
    from luna.gateware.usb.usb2.control import USBControlEndpoint
    from luna.gateware.usb.usb2.packet import USBDataPacketCRC

    utmi = UTMIInterface()
    ep = USBControlEndpoint(utmi=utmi, endpoint_number=ep_num, max_packet_size=mps)
    coll = DeviceDescriptorCollection(automatic_language_descriptor=False)
    for t, i, b in desc_table:
        coll.add_descriptor(bytes(b), index=i, descriptor_type=t)
    ep.add_standard_request_handlers(coll, avoid_blockram=bool(avoid_blockram))
    handler = ep._request_handlers[0]
    extra = [DH.make_handler(h) for h in handlers]
    for x in extra:
        ep.add_request_handler(x)
    cap = {}

    def wrap(obj, key):
        orig = obj.elaborate

        def el(platform):
            m = orig(platform)
            cap[key] = m
            return m
        obj.elaborate = el

    wrap(ep, "ep")
    wrap(handler, "handler")

    class Top(Elaboratable):
        def elaborate(self, platform):
            m = Module()
            m.submodules.crc = crc = USBDataPacketCRC()
            crc.add_interface(ep.interface.data_crc)
            m.d.comb += [crc.rx_data.eq(utmi.rx_data), crc.rx_valid.eq(utmi.rx_valid), crc.tx_valid.eq(0)]
            m.submodules.ep = ep
            return m

    frag = Fragment.get(Top(), None)
    b = _Built()
    b.frag, b.utmi, b.ep, b.handler, b.extra = frag, utmi, ep, handler, extra
    epm, hm = cap["ep"], cap["handler"]
    def sub(m, name):
        x = m._named_submodules[name]
        return x[0] if isinstance(x, tuple) else x
    b.setup_decoder = sub(epm, "setup_decoder")
    b.transmitter = sub(hm, "transmitter")
    b.descriptor = sub(hm, "get_descriptor")
    b.stage_sig = epm._generated["fsm"]._data["signal"]
    b.stage_enc = dict(epm._generated["fsm"].encoding)
    b.hstate_sig = hm._generated["fsm"]._data["signal"]
    b.hstate_enc = dict(hm._generated["fsm"].encoding)
    ea = _sim.find_signal(frag, "expecting_ack")
    if len(ea) != 1:
        raise RuntimeError("cannot locate expecting_ack in the elaborated design (%d candidates)" % len(ea))
    b.expecting_ack = ea[0]
    if sorted(b.stage_enc) != sorted(STAGES) or sorted(b.hstate_enc) != sorted(HSTATES):
        raise RuntimeError("unexpected FSM states: %r %r" % (b.stage_enc, b.hstate_enc))
    return b


def signal_lists(b):
    i, h, sd, d, t = b.ep.interface, b.handler.interface, b.setup_decoder, b.descriptor, b.transmitter
    tk = i.tokenizer
    driven = {
        "rx_data": b.utmi.rx_data, "rx_valid": b.utmi.rx_valid, "rx_active": b.utmi.rx_active,
        "pid": tk.pid, "endpoint": tk.endpoint, "new_token": tk.new_token, "ready_for_response": tk.ready_for_response,
        "is_in": tk.is_in, "is_out": tk.is_out, "is_setup": tk.is_setup, "is_ping": tk.is_ping,
        "tx_allowed": i.timer.tx_allowed, "speed": i.speed,
        "rx_ready": i.rx_ready_for_response, "hs_ack": i.handshakes_in.ack, "hs_nak": i.handshakes_in.nak,
        "hs_stall": i.handshakes_in.stall, "active_config": i.active_config, "tx_ready": i.tx.ready,
        "rx_invalid": i.rx_invalid,
    }
    sampled_in = [  # abstracted submodules -> model inputs (order = NAMES_IN[11:])
        sd.packet.received, sd.ack, sd.packet.is_in_request, sd.packet.type, sd.packet.recipient, sd.packet.request,
        sd.packet.value, sd.packet.index, sd.packet.length,
        d.tx.valid, d.tx.first, d.tx.last, d.tx.payload, d.stall,
        t.stream.valid, t.stream.first, t.stream.last, t.stream.payload,
    ]
    for x in b.extra:          # additional request handlers -> model inputs (order = NAMES_X)
        xi = x.interface
        sampled_in += [xi.claim, xi.handshakes_out.ack, xi.handshakes_out.stall, xi.tx.valid, xi.tx.first, xi.tx.last,
                       xi.tx.payload, xi.tx_data_pid, xi.address_changed, xi.new_address, xi.config_changed, xi.new_config,
                       xi.clear_endpoint_halt.enable, xi.clear_endpoint_halt.direction, xi.clear_endpoint_halt.number]
    ceh = i.clear_endpoint_halt_out
    outs = [
        i.handshakes_out.ack, i.handshakes_out.nak, i.handshakes_out.stall,
        i.tx.valid, i.tx.first, i.tx.last, i.tx.payload, i.tx_pid_toggle,
        i.address_changed, i.new_address, i.config_changed, i.new_config,
        ceh.enable, ceh.direction, ceh.number,
        h.data_requested, h.status_requested, h.handshakes_in.ack,
        h.claim, h.handshakes_out.ack, h.handshakes_out.stall, d.start, d.tx.ready, t.start, t.stream.ready,
        t.max_length, t.data[0],
        b.stage_sig, b.hstate_sig, d.start_position, h.tx_data_pid, b.expecting_ack,
    ]
    return driven, sampled_in, outs


# ----------------------------------------------------------------------------- the micro host
class MicroHost:
    """Produces the driven inputs cycle by cycle.  `regs` holds the level inputs (token detector registers, speed,
    configuration), every yielded dict adds the strobes of that cycle.  The generator receives the sampled row of
    the cycle it yielded (dict name -> value) so that it can wait for the end of a transmission."""

    def __init__(self, rng, spec, ep_num, tags, profile):
        self.rng, self.spec, self.ep_num, self.tags, self.profile = rng, spec, ep_num, tags, profile
        self.regs = {"pid": 0, "endpoint": 0, "is_in": 0, "is_out": 0, "is_setup": 0, "is_ping": 0,
                     "speed": rng.choice([0, 1, 1]), "active_config": rng.choice([0, 1, 2, 255]), "tx_ready": 0}
        self.consistent = True       # the token flags follow the pid (monitor M3 relies on it)

    def cyc(self, **strobes):
        row = dict(self.regs)
        row["tx_ready"] = int(self.rng.chance(75))
        row.update(strobes)
        return row

    def idle(self, n):
        for _ in range(n):
            yield self.cyc()

    # -- emulated token detector
    def set_token(self, pid, ep):
        self.regs.update({"pid": pid, "endpoint": ep, "is_in": 0, "is_out": 0, "is_setup": 0, "is_ping": 0})
        if pid in PID_FLAGS:
            self.regs[PID_FLAGS[pid]] = 1

    def token(self, pid, ep, respond=True):
        rng = self.rng
        yield from self.idle(rng.choice([0, 1, 2, 4]))
        self.set_token(pid, ep)
        yield self.cyc(new_token=1)
        if respond:
            yield from self.idle(rng.choice([0, 1, 2, 3, 7]))
            yield self.cyc(ready_for_response=1)

    def foreign_token(self):
        """A token for another device: the detector clears its PID and reports nothing."""
        self.set_token(0, self.regs["endpoint"])
        yield from self.idle(self.rng.choice([1, 3]))

    def data(self, pid, payload, ok=True, rx_ready=True):
        rng = self.rng
        pkt = U.data_packet(pid, payload)
        if not ok:
            pkt[-1] ^= 1 << rng.below(8)
        for a, v, d in U.render_rx(pkt, rng):
            yield self.cyc(rx_active=a, rx_valid=v, rx_data=d)
        yield from self.idle(rng.choice([0, 1, 2, 5]))
        # interpacket timer / receiver strobes of the device core
        k = rng.below(4)
        if k == 0:
            yield self.cyc(tx_allowed=1, rx_ready=int(ok and rx_ready))
        elif k == 1:
            yield self.cyc(tx_allowed=1)
            yield self.cyc(rx_ready=int(ok and rx_ready))
        elif k == 2:
            yield self.cyc(rx_ready=int(ok and rx_ready))
            yield from self.idle(rng.choice([0, 2]))
            yield self.cyc(tx_allowed=1)
        else:
            yield self.cyc(tx_allowed=1, rx_ready=int(ok and rx_ready))
            yield self.cyc(tx_allowed=1)
        yield from self.idle(rng.choice([0, 1, 3]))

    def handshake(self, kind="ack"):
        yield from self.idle(self.rng.choice([0, 1, 2]))
        yield self.cyc(**{"hs_" + kind: 1})
        yield from self.idle(self.rng.choice([0, 1]))

    def drain(self, limit=90):
        """Let a transmission (if any) run to its end."""
        seen = False
        for k in range(limit):
            r = yield self.cyc()
            if r["txValid"]:
                seen = True
            elif seen or k >= 3:
                break
        return seen

    def wild(self, n):
        """Cycles with arbitrary (inconsistent) tokenizer flags and strobes: the model takes them as free inputs."""
        rng = self.rng
        self.consistent = False
        for _ in range(n):
            if rng.chance(30):
                self.regs.update({"pid": rng.below(16), "endpoint": rng.choice([0, 0, self.ep_num, self.ep_num, rng.below(16)]),
                                  "is_in": rng.below(2), "is_out": rng.below(2), "is_setup": rng.below(2),
                                  "is_ping": rng.below(2)})
            if rng.chance(10):
                self.regs["active_config"] = rng.below(256)
            yield self.cyc(new_token=int(rng.chance(25)), ready_for_response=int(rng.chance(25)),
                           rx_ready=int(rng.chance(20)), hs_ack=int(rng.chance(20)), hs_nak=int(rng.chance(5)),
                           hs_stall=int(rng.chance(5)), tx_allowed=int(rng.chance(20)), rx_invalid=int(rng.chance(5)))
        self.set_token(self.regs["pid"] if self.regs["pid"] in PID_FLAGS else 0, self.regs["endpoint"])
        yield self.cyc()
        self.consistent = True

    # -- one control transfer (same request mix as the event-level check)
    def transfer(self):
        rng, ep0 = self.rng, self.ep_num
        kind, su = dev_ctl.rand_setup(rng, self.spec, self.profile)
        if self.spec.get("handlers") and rng.chance(40):
            # a request one of the additional handlers claims (both directions, with and without data stage)
            h = rng.choice(self.spec["handlers"])
            kind = "extra-handler"
            su = DH.setup_bytes((h[1] << 5) | rng.choice([0x00, 0x00, 0x80, 0x01]), h[2], rng.below(65536), rng.below(65536),
                                rng.choice([0, 0, 0, 2, 8]))
        self.tags.add("req:" + kind)
        is_in, length = bool(su[0] & 0x80), su[6] | (su[7] << 8)
        tgt = ep0 if rng.chance(92) else rng.choice([e for e in range(16) if e != ep0])
        if tgt != ep0:
            self.tags.add("setup:other-endpoint")
        yield from self.token(U.PID_SETUP, tgt, respond=rng.chance(50))
        mode = rng.weighted([(86, "good"), (5, "badcrc"), (3, "short"), (3, "foreign"), (3, "retok")])
        if mode == "good":
            yield from self.data(U.PID_DATA0, su)
        elif mode == "badcrc":
            self.tags.add("setup:badcrc")
            yield from self.data(U.PID_DATA0, su, ok=False)
            return
        elif mode == "short":
            yield from self.data(U.PID_DATA0, su[:rng.below(8)])
            return
        elif mode == "foreign":
            self.tags.add("setup:foreign-token-between")
            yield from self.foreign_token()
            yield from self.data(U.PID_DATA0, su)
            return
        else:
            return
        if rng.chance(10):
            self.tags.add("abandon:after-setup")
            return
        yield from self.maybe_other()
        # ---- data stage
        if length and is_in:
            for _k in range(rng.choice([1, 2, 3, 5])):
                yield from self.token(U.PID_IN, ep0)
                sent = yield from self.drain()
                if sent:
                    h = rng.weighted([(80, "ack"), (10, "none"), (10, "nak")])
                    if h != "none":
                        yield from self.handshake(h)
                if rng.chance(6):
                    self.tags.add("abandon:in-data")
                    return
                yield from self.maybe_other()
                if rng.chance(35):
                    break
        elif length:
            for _k in range(rng.choice([1, 1, 2])):
                if rng.chance(15):
                    self.tags.add("ping")
                    yield from self.token(U.PID_PING, ep0)
                yield from self.token(U.PID_OUT, ep0, respond=False)
                yield from self.data(rng.choice([U.PID_DATA0, U.PID_DATA1]), rng.bytes(min(length, rng.choice([1, 8, 8]))),
                                     ok=rng.chance(90))
                yield from self.maybe_other()
        if rng.chance(8):
            self.tags.add("abandon:before-status")
            return
        # ---- status stage
        if length and is_in:
            if rng.chance(10):
                yield from self.token(U.PID_PING, ep0)
            yield from self.token(U.PID_OUT, ep0, respond=False)
            yield from self.data(U.PID_DATA1, [], ok=rng.chance(92))
        else:
            for _k in range(rng.choice([1, 2])):
                yield from self.token(U.PID_IN, ep0)
                sent = yield from self.drain(12)
                h = rng.weighted([(75, "ack"), (15, "none"), (10, "nak")])
                if h != "none" and (sent or rng.chance(30)):
                    yield from self.handshake(h)
                    if h == "ack":
                        break
                yield from self.maybe_other()

    def maybe_other(self):
        """Traffic that must not disturb the transfer: transactions on other endpoints (with their handshakes),
        tokens for other devices."""
        rng = self.rng
        while rng.chance(30):
            k = rng.weighted([(5, "in"), (3, "out"), (2, "foreign"), (1, "ack-after-foreign")])
            self.tags.add("other:" + k)
            oe = rng.choice([e for e in range(16) if e != self.ep_num])
            if k == "in":
                yield from self.token(U.PID_IN, oe)
                yield from self.handshake(rng.choice(["ack", "ack", "nak"]))
            elif k == "out":
                yield from self.token(U.PID_OUT, oe, respond=False)
                yield from self.data(rng.choice([U.PID_DATA0, U.PID_DATA1]), rng.bytes(rng.choice([0, 3, 8])))
            elif k == "foreign":
                yield from self.foreign_token()
            else:
                yield from self.foreign_token()
                yield from self.handshake("ack")

    def script(self, transfers, wild_pct):
        yield from self.idle(self.rng.choice([1, 3]))
        for _ in range(transfers):
            if self.rng.chance(wild_pct):
                self.tags.add("wild")
                yield from self.wild(self.rng.choice([5, 20, 40]))
            yield from self.maybe_other()
            yield from self.transfer()


# ----------------------------------------------------------------------------- one case
def make_cyc_spec(rng):
    shape = rng.weighted([(4, "std"), (3, "long"), (2, "sparse"), (1, "tiny")])
    spec = {"shape": shape, "desc": DH.descriptor_table(shape, rng), "eps": [], "handlers": [],
            "ep_num": rng.weighted([(5, 0), (1, rng.range(1, 15))]), "mps": rng.choice([64, 64, 64, 32, 16, 8]),
            # the descriptor handler is an INPUT of the model: exercise both implementations (their stall / stream timing differs)
            "avoid_blockram": int(rng.chance(30))}
    # additional request handlers behind the multiplexer (drawn last: the draws above are those of the earlier versions):
    # vendor / class requests, the SAME request twice (two claimants), a standard request (claimed by the standard handler too)
    hr = rng.fork("handlers")
    for _ in range(hr.weighted([(5, 0), (3, 1), (2, 2)])):
        spec["handlers"].append(["zlpreg", hr.weighted([(4, 2), (3, 1), (2, 0)]), hr.choice([0x20, 0x22, 0x20, 5, 6, 9])])
    return spec


def simulate(b, host_gen, max_cycles):
    """Runs the real gateware; returns (driven rows (dict), sampled-input rows, output rows)."""
    from amaranth.sim import Simulator
    driven, sampled_in, outs = signal_lists(b)
    top = _sim._Wrap(b.frag, ["usb"])
    s = Simulator(top)
    s.add_clock(1e-6, domain="usb")
    names = list(driven)
    dmask = {n: (1 << len(driven[n])) - 1 for n in names}
    imask = [(1 << len(x)) - 1 for x in sampled_in]
    omask = [(1 << len(x)) - 1 for x in outs]
    rows_d, rows_i, rows_o = [], [], []

    async def tb(ctx):
        fb = None
        try:
            row = next(host_gen)
        except StopIteration:
            return
        while len(rows_d) < max_cycles:
            for n in names:
                ctx.set(driven[n], row.get(n, 0) & dmask[n])
            si = tuple(ctx.get(x) & m for x, m in zip(sampled_in, imask))
            so = tuple(ctx.get(x) & m for x, m in zip(outs, omask))
            rows_d.append({n: row.get(n, 0) & dmask[n] for n in names})
            rows_i.append(si)
            rows_o.append(so)
            await ctx.tick("usb")
            fb = dict(zip(NAMES_OUT, so))
            try:
                row = host_gen.send(fb)
            except StopIteration:
                return

    s.add_testbench(tb)
    s.run()
    return rows_d, rows_i, rows_o


def monitor(b, ep_num, rows_d, rows_i, rows_o, consistent_flags, nx=0, mps=64):
    """The one-step facts behind C07 / C08 / C10 on the REAL trace (independent of the Lean model)."""
    fails = []
    O = {n: k for k, n in enumerate(NAMES_OUT)}
    ST = {v: k for k, v in b.stage_enc.items()}
    HS = {v: k for k, v in b.hstate_enc.items()}

    def fail(t, sig, what):
        if len(fails) < 5:
            fails.append({"cycle": t, "sig": sig, "what": "cycle %d: %s" % (t, what)})

    n = len(rows_o)
    armed = False                  # ghost of Lemmas/C07CycInv.lean: a SETUP token strobe was the last token strobe
    t_starts = t_completes = d_starts = 0   # stream contract of Lemmas/C07Stream.lean ("silent unless started")
    for t in range(n):
        d, si, o = rows_d[t], rows_i[t], rows_o[t]
        # the stream contract assumed by cycle_refines_event_streams, on the real transmitter / descriptor handler:
        # the transmitter offers a byte only while an emission it was started for is still running (every emission has
        # its own `start` pulse and ends with the accepted `last` byte); the descriptor handler is silent before the
        # cycle of its first `start`
        if si[14] and not t_starts > t_completes:
            fail(t, "c07cyc-env-transmitter-unstarted", "transmitter.stream.valid although every started emission is over "
                 "(%d start pulses, %d completed emissions)" % (t_starts, t_completes))
        if (si[9] or si[13]) and d_starts == 0 and not o[O["h.dStart"]]:   # (the distributed handler stalls in the start cycle)
            fail(t, "c07cyc-env-descriptor-unstarted", "descriptor handler drives tx.valid / stall before its first start")
        if si[14] and si[16] and o[O["h.tReady"]]:
            t_completes += 1
        if o[O["h.tStart"]] and o[O["h.tMaxLen"]] > 0:
            t_starts += 1
        if o[O["h.dStart"]]:
            d_starts += 1
        # the environment contract assumed by cyc_stage_follows_setup / cyc_requests_follow_setup, on the real setup decoder
        if si[0] and not armed:
            fail(t, "c07cyc-env-received-unarmed", "setup decoder reported a packet although no SETUP token strobe precedes it")
        if t > 0 and not si[0] and tuple(si[2:9]) != tuple(rows_i[t - 1][2:9]):
            fail(t, "c07cyc-env-setup-regs-changed", "the SetupPacket registers changed without packet.received")
        if d["new_token"]:
            armed = d["pid"] == U.PID_SETUP
        elif si[0]:
            armed = False
        stage, hst = ST[o[O["stage"]]], HS[o[O["hstate"]]]
        own_in = d["endpoint"] == ep_num and d["is_in"] == 1
        su_type, su_value = si[3], si[6]
        # who claims the request: the standard handler claims exactly the standard requests; additional handlers by their outputs
        xcl = [k for k in range(nx) if si[18 + 15 * k]]
        n_claims = (1 if su_type == 0 else 0) + len(xcl)
        std_owner = su_type == 0 and not xcl       # the standard handler is the only claimant: its outputs are the shared ones
        # handshakes reach the handlers only for an IN transaction of this endpoint
        if o[O["hsAckForwarded"]] and not (d["hs_ack"] and own_in):
            fail(t, "c07cyc-handshake-forwarded-foreign", "handshakes_in.ack reached the request handler although the last "
                 "token is not an IN for endpoint %d (endpoint=%d is_in=%d ack=%d)" % (ep_num, d["endpoint"], d["is_in"], d["hs_ack"]))
        # the address / configuration strobes
        if o[O["addressChanged"]] and not (n_claims == 1 and xcl):     # (an additional handler that owns the request may strobe)
            if not (d["hs_ack"] and own_in and hst == "SET_ADDRESS" and su_type == 0):
                fail(t, "c07cyc-address-strobe-ungated", "address_changed outside (own IN token, host ACK, SET_ADDRESS): "
                     "state %s endpoint=%d is_in=%d ack=%d" % (hst, d["endpoint"], d["is_in"], d["hs_ack"]))
            elif o[O["newAddress"]] != (su_value & 0x7F):
                fail(t, "c07cyc-address-value", "new_address %d != wValue[6:0] %d" % (o[O["newAddress"]], su_value & 0x7F))
        if o[O["configChanged"]] and not (n_claims == 1 and xcl):
            if not (d["hs_ack"] and own_in and hst == "SET_CONFIGURATION" and su_type == 0):
                fail(t, "c07cyc-config-strobe-ungated", "config_changed outside (own IN token, host ACK, SET_CONFIGURATION): "
                     "state %s endpoint=%d is_in=%d ack=%d" % (hst, d["endpoint"], d["is_in"], d["hs_ack"]))
            elif o[O["newConfig"]] != (su_value & 0xFF):
                fail(t, "c07cyc-config-value", "new_config %d != wValue[7:0] %d" % (o[O["newConfig"]], su_value & 0xFF))
        if d["hs_ack"] and own_in and std_owner and hst == "SET_ADDRESS" and not o[O["addressChanged"]]:
            fail(t, "c07cyc-address-strobe-missing", "host ACK of the own IN transaction in SET_ADDRESS without address_changed")
        # requests to the handlers come from the right stage only, and only for this endpoint
        if o[O["dataRequested"]] and not (stage == "DATA_IN" and own_in and d["ready_for_response"]):
            fail(t, "c07cyc-data-requested-outside-data-in", "data_requested in stage %s (endpoint=%d is_in=%d)" % (stage, d["endpoint"], d["is_in"]))
        if o[O["statusRequested"]] and not ((stage == "STATUS_IN" and own_in and d["ready_for_response"]) or
                                            (stage == "STATUS_OUT" and d["endpoint"] == ep_num and d["is_out"] and d["rx_ready"])):
            fail(t, "c07cyc-status-requested-outside-status", "status_requested in stage %s (endpoint=%d)" % (stage, d["endpoint"]))
        # UNHANDLED stalls the first opportunity and transmits nothing
        if hst == "UNHANDLED" and su_type == 0 and (o[O["dataRequested"]] or o[O["statusRequested"]]):
            if not o[O["stall"]] or o[O["txValid"]] or (o[O["ack"]] and not si[1]):
                fail(t, "c07cyc-unhandled-not-stalled", "UNHANDLED request polled but stall=%d tx_valid=%d ack=%d"
                     % (o[O["stall"]], o[O["txValid"]], o[O["ack"]]))
        # the request multiplexer: the standard handler claims exactly the standard requests; the shared outputs are those
        # of the ONLY claiming handler; a request nobody claims, or more than one handler claims, is stalled by the fallback
        polled = o[O["dataRequested"]] or o[O["statusRequested"]]
        if bool(o[O["h.claim"]]) != (su_type == 0):
            fail(t, "c07cyc-standard-claim", "standard handler claim=%d for request type %d" % (o[O["h.claim"]], su_type))
        if n_claims == 0 and polled and not o[O["stall"]]:
            fail(t, "c07cyc-unclaimed-not-stalled", "request that no handler claims polled without STALL")
        if n_claims >= 2 and polled and not o[O["stall"]]:
            fail(t, "c07cyc-multiply-claimed-not-stalled", "request claimed by %d handlers polled without STALL" % n_claims)
        if n_claims != 1 and (o[O["txValid"]] or o[O["addressChanged"]] or o[O["configChanged"]] or o[O["cehEnable"]]):
            fail(t, "c07cyc-unowned-request-drives", "%d claiming handlers but tx.valid=%d address_changed=%d config_changed=%d"
                 % (n_claims, o[O["txValid"]], o[O["addressChanged"]], o[O["configChanged"]]))
        if n_claims == 1 and xcl:
            x = si[18 + 15 * xcl[0]: 18 + 15 * xcl[0] + 15]
            got = (o[O["stall"]], o[O["txValid"]], o[O["txFirst"]], o[O["txLast"]], o[O["txPayload"]], o[O["txPidToggle"]],
                   o[O["addressChanged"]], o[O["newAddress"]], o[O["configChanged"]], o[O["newConfig"]])
            want = (x[2], x[3], x[4], x[5], x[6], x[7], x[8], x[9], x[10], x[11])
            if got != want:
                fail(t, "c07cyc-mux-not-transparent", "additional handler %d is the only claimant but the shared outputs %r differ "
                     "from its outputs %r" % (xcl[0], got, want))
        # GET_DESCRIPTOR: the gated host ACK of a data packet advances start_position by max_packet_size (11-bit register) and
        # toggles the data PID; start_position changes in no other way except back to 0 (new SETUP packet, IDLE)
        if t + 1 < n:
            sp, sp1 = o[O["startPos"]], rows_o[t + 1][O["startPos"]]
            adv = bool(o[O["hsAckForwarded"]] and hst == "GET_DESCRIPTOR" and o[O["expectingAck"]] and su_type == 0)
            if adv and not si[0]:
                if sp1 != (sp + mps) % 2048:
                    fail(t, "c07cyc-start-position-advance", "host ACK of a GET_DESCRIPTOR data packet: start_position %d -> %d, "
                         "expected %d (max_packet_size %d)" % (sp, sp1, (sp + mps) % 2048, mps))
                if rows_o[t + 1][O["txPid"]] == o[O["txPid"]]:
                    fail(t, "c07cyc-data-pid-not-toggled", "host ACK of a GET_DESCRIPTOR data packet without data PID toggle")
            elif sp1 != sp and sp1 != 0:
                fail(t, "c07cyc-start-position-changed", "start_position %d -> %d without an acknowledged data packet" % (sp, sp1))
        # every SETUP token restarts the stage FSM
        if t + 1 < n and consistent_flags[t] and d["new_token"] and d["is_setup"] and not si[0]:
            nxt = ST[rows_o[t + 1][O["stage"]]]
            if nxt != "SETUP":
                fail(t, "c07cyc-no-restart-on-setup", "SETUP token in stage %s, next stage %s" % (stage, nxt))
        # a latched SETUP for this endpoint leaves the SETUP stage for the stage its direction / length call for
        if t + 1 < n and stage == "SETUP" and si[0] and d["endpoint"] == ep_num:
            nxt = ST[rows_o[t + 1][O["stage"]]]
            want = ("DATA_IN" if si[2] else "DATA_OUT") if si[8] else "STATUS_IN"
            if nxt != want:
                fail(t, "c07cyc-stage-after-setup", "SETUP packet (is_in=%d length=%d) -> stage %s, expected %s" % (si[2], si[8], nxt, want))
    return fails


def run_cyc(desc):
    """desc -> dict(cfg, inputs, outputs, failures, tags, desc)."""
    rng = Rng(desc["seed"])
    spec = desc.get("spec") or make_cyc_spec(rng.fork("spec"))
    ep_num, mps = spec["ep_num"], spec["mps"]
    handlers = spec.get("handlers", [])
    nx = len(handlers)
    b = build(spec["desc"], ep_num, mps, spec.get("avoid_blockram", 0), handlers)
    tags = set()
    host = MicroHost(rng.fork("host"), spec, ep_num, tags, desc.get("profile", "c07"))
    consistent = []

    def gen():
        g = host.script(desc["transfers"], desc.get("wild", 10))
        fb = None
        while True:
            try:
                row = g.send(fb) if fb is not None else next(g)
            except StopIteration:
                return
            consistent.append(host.consistent)
            fb = yield row

    rows_d, rows_i, rows_o = simulate(b, gen(), desc.get("max_cycles", 6000))
    inputs = []
    for d, si in zip(rows_d, rows_i):
        inputs.append([d["endpoint"], d["new_token"], d["ready_for_response"], d["is_in"], d["is_out"], d["is_setup"],
                       d["is_ping"], d["rx_ready"], d["hs_ack"], d["active_config"], d["tx_ready"]] + list(si))
    # + what the serializer model must show: the real transmitter's stream outputs of the cycle
    outputs = [list(o) + list(si[14:18]) + list(si[9:14]) for o, si in zip(rows_o, rows_i)]
    # the simulator's FSM encodings -> the driver's fixed numbering
    smap = {b.stage_enc[n]: k for k, n in enumerate(STAGES)}
    hmap = {b.hstate_enc[n]: k for k, n in enumerate(HSTATES)}
    ks, kh = NAMES_OUT.index("stage"), NAMES_OUT.index("hstate")
    for o in outputs:
        o[ks], o[kh] = smap[o[ks]], hmap[o[kh]]
    fails = monitor(b, ep_num, rows_d, rows_i, rows_o, consistent[:len(rows_o)] + [False] * len(rows_o), nx, mps)
    for o in outputs:
        tags.add("stage:" + STAGES[o[ks]])
        tags.add("hstate:" + HSTATES[o[kh]])
    for name in ("ack", "stall", "txValid", "addressChanged", "configChanged", "cehEnable", "dataRequested",
                 "statusRequested", "hsAckForwarded", "h.dStart", "h.tStart", "expectingAck"):
        k = NAMES_OUT.index(name)
        if any(o[k] for o in outputs):
            tags.add("seen:" + name)
    if any(o[NAMES_OUT.index("h.claim")] == 0 and (o[NAMES_OUT.index("stall")]) for o in outputs):
        tags.add("seen:fallback-stall")
    if any(o[NAMES_OUT.index("startPos")] for o in outputs):
        tags.add("seen:startPos>0")
    tags.add("mps:%d" % mps)
    if mps < 64 and any(o[NAMES_OUT.index("startPos")] for o in outputs):
        tags.add("seen:startPos>0:mps<64")
    tags.add("extra-handlers:%d" % nx)
    kq = [NAMES_OUT.index(n) for n in ("dataRequested", "statusRequested", "stall", "txValid")]
    for o, si in zip(outputs, rows_i):
        ncl = (1 if si[3] == 0 else 0) + sum(1 for k in range(nx) if si[18 + 15 * k])
        if o[kq[0]] or o[kq[1]]:
            tags.add("polled:claims=%d%s" % (min(ncl, 2), "" if si[3] == 0 else ":nonstd"))
        if nx and ncl == 1 and si[3] != 0 and o[kq[3]]:
            tags.add("seen:extra-handler-transmits")
    tags.add("descriptor-handler:%s" % ("distributed" if spec.get("avoid_blockram") else "block"))
    tags.add("ep:%s" % ("0" if ep_num == 0 else "other"))
    d2 = dict(desc)
    d2["spec"] = spec
    # the descriptor table for the block handler model in the loop (kind 0), in insertion order
    cfg = [ep_num, mps, (1 if spec.get("avoid_blockram") else 0) + 2 * nx, len(spec["desc"])]
    for t, i, bts in spec["desc"]:
        cfg += [t, i, len(bts)] + list(bts)
    return {"cfg": cfg, "inputs": inputs, "outputs": outputs, "failures": fails, "tags": sorted(tags), "desc": d2, "nx": nx}


def run_case(desc):
    """Framework entry (replays): the monitor on the real trace; the model comparison of these cases runs in
    `extra_checks` (their driver is not the property's DRIVER)."""
    r = run_cyc(desc)
    return Case(r["cfg"], r["inputs"], r["outputs"], r["failures"], ["cyc:" + t for t in r["tags"]], r["desc"],
                names_in(r["nx"]), NAMES_OUT, lean=False)


# ----------------------------------------------------------------------------- the check-independent co-simulation
def gen_cyc_cases(tier, rng, profiles=("c07", "c08", "c10")):
    n, transfers = {"quick": (16, 14), "widen": (48, 20)}.get(tier, (160, 24))
    return [{"mode": "cyc", "seed": rng.u64(), "transfers": transfers, "wild": rng.choice([0, 10, 10, 30]),
             "profile": rng.choice(list(profiles)), "k": k} for k in range(n)]


def _fmt(r):
    return " ".join(str(int(v)) for v in r)


def _work(descs):
    out = []
    runs = []
    for d in descs:
        try:
            runs.append(run_cyc(d))
        except Exception:
            out.append({"desc": d, "error": traceback.format_exc()})
            runs.append(None)
    live = [r for r in runs if r is not None]
    if live:
        lines = []
        for r in live:
            lines.append("# " + _fmt(r["cfg"]))
            lines.extend(_fmt(x) for x in r["inputs"])
        try:
            got = leanrun.run_driver(DRIVER, "\n".join(lines) + "\n")
        except Exception:
            return out + [{"desc": live[0]["desc"], "error": "lean driver: " + traceback.format_exc()}]
        pos = 0
        for r in live:
            pos += 1
            g = got[pos:pos + len(r["inputs"])]
            pos += len(r["inputs"])
            dis, ncmp = None, 0
            if len(g) != len(r["inputs"]):
                out.append({"desc": r["desc"], "error": "driver produced %d lines for %d cycles" % (len(g), len(r["inputs"]))})
                continue
            for t, (exp, line) in enumerate(zip(r["outputs"], g)):
                gv = [int(x) for x in line.split()]
                ncmp += len(exp)
                if gv != exp:
                    k = next(k for k in range(len(exp)) if k >= len(gv) or gv[k] != exp[k])
                    dis = {"cycle": t, "port": NAMES_OUT[k], "gateware": exp[k], "model": gv[k] if k < len(gv) else None,
                           "inputs": dict(zip(names_in(r["nx"]), r["inputs"][t]))}
                    break
            out.append({"desc": {k: v for k, v in r["desc"].items() if k != "spec"}, "cycles": len(r["inputs"]),
                        "compared": ncmp, "disagree": dis, "failures": r["failures"], "tags": r["tags"],
                        "full_desc": r["desc"] if (dis or r["failures"]) else None})
    return out


def extra_checks(tier, rng, proof, nproc=4, profiles=("c07", "c08", "c10")):
    """Hook of framework.main: builds the cycle-level driver, runs the standalone co-simulation, returns evidence.
    A model/gateware disagreement is a broken correspondence (recorded in proof['broken']), a monitor failure on the
    real trace is a failure with the case as replay."""
    ok, log = leanrun.lake_build([leanrun.exe_name(DRIVER)])
    if not ok:
        proof["broken"].append({"what": "lake build of the cycle-level driver failed", "detail": log[-2000:]})
        return {"cycle_level": {"built": False}}
    descs = gen_cyc_cases(tier, rng, profiles)
    buckets = [b for b in (descs[i::nproc] for i in range(nproc)) if b]
    if len(buckets) == 1:
        parts = [_work(buckets[0])]
    else:
        with multiprocessing.get_context("fork").Pool(len(buckets)) as pool:
            parts = pool.map(_work, buckets)
    res = [r for p in parts for r in p]
    errs = [r for r in res if r.get("error")]
    if errs:
        raise RuntimeError("cycle-level co-simulation infrastructure error:\n" + errs[0]["error"])
    failures = []
    for r in res:
        for f in r["failures"]:
            f = dict(f)
            f["desc"] = r["full_desc"]
            failures.append(f)
    dis = [r for r in res if r.get("disagree")]
    if dis:
        proof["broken"].append({"what": "cycle-level model (Model/Usb2/ControlCyc.lean) disagrees with the real "
                                        "USBControlEndpoint + StandardRequestHandler", "detail": dis[0]["disagree"],
                                "desc": dis[0]["full_desc"]})
    tags = sorted({t for r in res for t in r["tags"]})
    return {"failures": failures,
            "cycle_level": {"driver": DRIVER, "cases": len(res), "cycles": sum(r["cycles"] for r in res),
                            "port_values_compared": sum(r["compared"] for r in res), "disagreements": len(dis),
                            "monitor_failures": len(failures), "coverage_tags": tags}}
