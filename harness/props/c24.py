"""C24 — ULPI control registers (luna/gateware/interface/ulpi.py: ULPIControlTranslator, ULPIRegisterWindow,
bus_idle cross gating in UTMITranslator)."""
from harness.common.framework import Case
from harness.common.rng import Rng
from harness.common import sim
from harness.props import ulpi_phy as U

PROP = "C24"
LEAN_MODULES = ["LunaVerif.Props.C24", "LunaVerif.Lemmas.C24World", "LunaVerif.Lemmas.C24Coh",
                "LunaVerif.Lemmas.C24RankDefs", "LunaVerif.Lemmas.C24RankStep", "LunaVerif.Lemmas.C24Converge"]
DRIVER = "Driver/C24.lean"
REQUIRED_THEOREMS = ["write_carries_own_value", "converges_partial", "no_mutual_blocking", "phy_tracks_window",
                     "settled_regs_equal_requested", "write_carries_requested_value", "converges", "converges_from_reset", "tx_delay_bounded",
                     "write_delay_bounded", "dir_low_often_is_not_enough", "coh_step", "rank_step",
                     "rank_reaches_zero"]
RULE = ("(utmi; the hypotheses safeCycle / liveCycle of the theorems are evaluated on every trace, by the Lean driver and "
        "independently by the monitor, and `converges` is checked at its explicit bound) the real UTMITranslator with a behavioural PHY holding a register file (a write is accepted when the "
        "PHY sees command, data, STP uninterrupted), control inputs changing at random cycles — single signals, both "
        "registers at once, reverts to the previous/reset value, i.e. at every phase of an in-flight write and at the "
        "start of a transmission — while the UTMI side transmits and the PHY interleaves receive episodes and "
        "aborts register writes with DIR; (win) the real ULPIRegisterWindow alone with reads, writes, argument "
        "changes during transactions, DIR interruptions")
ASSUMPTIONS = [
    "safeCycle (phy_tracks_window, settled_regs_equal_requested; every cycle, stated on the pins and the PHY's own bus "
    "parser): E1 no NXT in the turnaround cycle after DIR fell; E2 the PHY does not raise DIR inside a link "
    "transmission it has accepted (the transmit translator ignores such an abort, C23); E3 with its parser idle and "
    "DIR low the PHY asserts NXT only when a byte is on the data lines.  The UTMI transmitter and the control inputs "
    "are unconstrained there",
    "liveCycle K T (converges, tx_delay_bounded, write_delay_bounded; K, T universally quantified): safeCycle, and a "
    "presented command / data byte is answered by NXT after at most K wait cycles, a link transmission occupies the "
    "PHY for at most T cycles from the acceptance of its command to STP (T is a hypothesis on the pin trace; it is "
    "not derived from the packet length and C23's NXT schedule), and the UTMI transmitter keeps tx_valid up until "
    "the byte it presents is accepted",
    "converges: control inputs constant over the history considered, start-up timer expired at its beginning (the "
    "60000-cycle timer of a record with rst is not part of the bound), history at least 3(2K+6) + T + (2K+5)N cycles "
    "long, N = number of DIR-high cycles in it.  The DIR hypothesis is this budget and not 'DIR low at least once "
    "every D cycles', which is insufficient for any ULPI link (dir_low_often_is_not_enough: DIR high every third "
    "cycle, all other hypotheses satisfied, no register write ever completes)",
    "monitor bounds: control changes are rare enough (<= 2 % of cycles) and packets short enough that 200 DIR-low "
    "cycles with stable control inputs suffice for both registers",
]
PARTIAL = ""

WIN_IN = ["ulpi_data_in", "ulpi_dir", "ulpi_next", "address", "write_data", "read_request", "write_request"]
WIN_OUT = ["ulpi_data_out", "ulpi_out_req", "ulpi_stop", "busy", "done", "read_data"]
EXTRA = ["phy_bus", "phy_r04", "phy_r0A", "phy_other", "phy_writes", "spec_act", "spec_last", "spec_legal",
         "spec_data", "env_safe", "env_waited", "env_tlen"]
BOUND = 200


def converge_bound(k, t, n):
    """convergeBound K T N of Props/C24.lean."""
    return 3 * (2 * k + 6) + t + (2 * k + 5) * n


def gen_cases(tier, rng):
    n_utmi, n_win = {"quick": (120, 40), "widen": (400, 100)}.get(tier, (450, 150))
    out = []
    for k in range(n_utmi):
        out.append({"kind": "utmi", "seed": rng.u64(), "k": k})
    for k in range(n_win):
        out.append({"kind": "win", "seed": rng.u64(), "k": k})
    return out


def run_utmi(desc):
    # Replays of reactive (closed-loop) cases re-run the behavioural PHY from the recorded seed instead of
    # applying the recorded pin values open loop: the PHY's inputs depend on what the gateware does, so an
    # open-loop replay on a different tree would present an incoherent (illegal) PHY.
    if desc.get("stimulus") and not desc.get("corpus") and not desc.get("note"):   # hand-made corpus traces stay open loop
        desc = dict(desc)
        desc["cycles"] = max(1, len(desc.pop("stimulus")))
    rng = Rng(desc["seed"])
    k = desc.get("k", 0)
    n = desc.get("cycles", 700)
    has_rst = bool(desc.get("has_rst", k % 8 == 7))
    dut, ins, outs = U.make_translator(has_rst)
    cfg, preload = [0, 0, 0], None
    if has_rst:
        pre = U.CYCLES_1_MS - rng.range(2, 20)
        cfg, preload = [0, 1, pre], ("startup_counter", pre)
    agent = None
    if not desc.get("stimulus"):
        p = {"ctrl_mode": "wild", "ctrl_rate": rng.choice([3, 8, 20]), "tx_rate": rng.choice([0, 30, 150, 1000]),
             "max_len": rng.choice([3, 12]), "throttle": rng.choice([0, 20, 50]), "nxt_delay": rng.choice([0, 1, 3, 8]),
             "rx_rate": rng.choice([0, 10, 40]), "rx_max_items": 10, "abort_rate": rng.choice([0, 20, 80]),
             "abort_tx": False, "tx_gap_min": rng.choice([1, 1, 3])}
        agent = U.Agent(rng, p, dict(U.DEFAULT_CTRL) if k % 3 else U.random_ctrl(rng))
    rows_in, rows_out = U.run_reactive(dut, ins, outs, n, agent=agent, stimulus=desc.get("stimulus"), preload=preload)
    tags = set(agent.tags) if agent else set()
    tags.add("rst" if has_rst else "norst")
    fails, extra, env = monitor_regs(rows_in, rows_out, tags,
                                     ready_at=(U.CYCLES_1_MS - cfg[2] + 1) if has_rst else 1)
    view = U.phy_rx_view(rows_in)
    outs_cmp = [list(o) + e + [v["act"], v["last"], v["legal"], 256 if v["data"] is None else v["data"]] + ev
                for o, e, v, ev in zip(rows_out, extra, view, env)]
    return Case(cfg, rows_in, outs_cmp, fails, sorted(tags), desc, U.UTMI_IN, U.UTMI_OUT + EXTRA)


def monitor_regs(rows_in, rows_out, tags, ready_at=1):
    """The property on the real pins: what the PHY's register file holds vs. what is requested."""
    I, O = U.I, U.O
    obs = U.PhyBusObserver()
    extra, fails = [], []
    hist04, hist0A = [], []          # requested values since the previous committed write, per register
    stable = 0                       # DIR-low cycles since the control inputs last changed
    quiet = 0                        # consecutive cycles: not busy, no tx_valid, inputs unchanged
    tx_wait = 0                      # DIR-low cycles a transmission has been waiting for its first tx_ready
    prev_ctrl = None
    nwrites = 0
    # the hypotheses of the closed-system theorems (safeCycle / liveCycle of Lemmas/C24World.lean), evaluated here
    # from the ULPI text and the observer's parser state, and compared with the Lean definitions column by column
    env, env_safe, waited, tlen, prev_dir, must_hold, hold_ok = [], 1, 0, 0, 0, 0, True
    k_obs = t_obs = 0
    trace = []                       # per cycle: (control inputs, dir, PHY registers match after the cycle)
    for t, (ri, ro) in enumerate(zip(rows_in, rows_out)):
        c = U.ctrl_of_row(ri)
        want04, want0A = U.function_control(c), U.otg_control(c)
        hist04.append(want04)
        hist0A.append(want0A)
        dir_, nxt = ri[I["dir"]], ri[I["nxt"]]
        bus, b = ro[O["data_o"]], obs.state
        if (prev_dir and not dir_ and nxt) or (b == "tx" and dir_) or (b == "idle" and not dir_ and nxt and bus == 0):
            env_safe = 0
        presented = (not dir_) and (not prev_dir) and ((b == "idle" and bus >> 6 in (1, 2)) or b == "wdata")
        waited = waited + 1 if (presented and not nxt) else 0
        tlen = tlen + 1 if b == "tx" else 0
        k_obs, t_obs = max(k_obs, waited), max(t_obs, tlen)
        if must_hold and not ri[I["tx_valid"]]:
            hold_ok = False
        must_hold = ri[I["tx_valid"]] and not ro[O["tx_ready"]]
        prev_dir = dir_
        env.append([env_safe, waited, tlen])
        obs.step(t, dir_, nxt, ro[O["data_o"]], ro[O["stp"]])
        extra.append([U.bus_code(obs.state), obs.regs[4], obs.regs[10], obs.other_writes, len(obs.writes)])
        if len(obs.writes) > nwrites and not fails:
            nwrites = len(obs.writes)
            _, a, v = obs.writes[-1]
            tags.add("phy-write-%02x" % a)
            hist = hist04 if a == 4 else hist0A if a == 10 else None
            if hist is None or v not in hist:
                fails.append({"cycle": t, "sig": "write-carries-wrong-value", "what":
                              "PHY register 0x%02x was written with 0x%02x, which was not the requested value of that "
                              "register at any cycle since its previous write (requested: %s)"
                              % (a, v, sorted(set(hist))[:6] if hist else "not a control register")})
            if a == 4:
                hist04 = hist04[-1:]
            elif a == 10:
                hist0A = hist0A[-1:]
        changed = (prev_ctrl is not None and c != prev_ctrl) or t <= ready_at   # start-up timer still running
        prev_ctrl = c
        if t <= ready_at:
            tx_wait = 0
        if changed:
            stable = 0
        elif not dir_:
            stable += 1
        match = obs.regs[4] == want04 and obs.regs[10] == want0A
        trace.append((tuple(sorted(c.items())), dir_, match))
        if ro[O["busy"]] == 0 and not ri[I["tx_valid"]] and not changed:
            quiet += 1
        else:
            quiet = 0
        if quiet >= 4 and not match and not fails:
            fails.append({"cycle": t, "sig": "regs-differ-with-nothing-pending", "what":
                          "translator idle for 4 cycles with stable inputs, but PHY registers 04=0x%02x 0A=0x%02x, requested "
                          "04=0x%02x 0A=0x%02x" % (obs.regs[4], obs.regs[10], want04, want0A)})
        if stable > BOUND and not match and not fails:
            fails.append({"cycle": t, "sig": "regs-not-converged", "what":
                          "control inputs stable for %d DIR-low cycles, PHY registers 04=0x%02x 0A=0x%02x still differ from "
                          "requested 04=0x%02x 0A=0x%02x" % (stable, obs.regs[4], obs.regs[10], want04, want0A)})
        if ri[I["tx_valid"]] and obs.state != "tx" and t > ready_at:
            if not dir_:
                tx_wait += 1
        else:
            tx_wait = 0
        if tx_wait > BOUND and not fails:
            fails.append({"cycle": t, "sig": "transmission-blocked", "what":
                          "tx_valid has been waiting for %d DIR-low cycles without the PHY receiving a transmit command"
                          % tx_wait})
    if match:
        tags.add("converged-at-end")
    # `converges` at its explicit bound: the trace satisfies liveCycle K T for K = k_obs, T = t_obs (when the PHY
    # was legal and the transmitter held tx_valid); for every window of constant control inputs that starts after
    # the start-up timer and is at least convergeBound K T N long (N DIR-high cycles in it) the PHY's registers
    # must equal the requested settings at its end
    if env_safe:
        tags.add("env-safe")
    if env_safe and hold_ok:
        tags.add("env-live")
        start, n_high = None, 0
        for t, (ctrl, dir_, ok) in enumerate(trace):
            if t <= ready_at:                      # the state before cycle `start` must have phy_ready set
                start = None
                continue
            if start is None or ctrl != trace[t - 1][0]:
                start, n_high = t, 0
            n_high += dir_
            if t - start + 1 >= converge_bound(k_obs, t_obs, n_high):
                tags.add("theorem-bound-reached")
                if not ok and not fails:
                    fails.append({"cycle": t, "sig": "regs-not-converged-within-theorem-bound", "what":
                                  "control inputs constant for %d cycles with %d DIR-high cycles, the trace satisfies "
                                  "liveCycle K=%d T=%d, convergeBound = %d, but the PHY registers differ from the "
                                  "requested settings" % (t - start + 1, n_high, k_obs, t_obs,
                                                          converge_bound(k_obs, t_obs, n_high))})
    return fails, extra, env


def run_win(desc):
    from luna.gateware.interface.ulpi import ULPIRegisterWindow
    rng = Rng(desc["seed"])
    dut = ULPIRegisterWindow()
    ins = [dut.ulpi_data_in, dut.ulpi_dir, dut.ulpi_next, dut.address, dut.write_data, dut.read_request,
           dut.write_request]
    outs = [dut.ulpi_data_out, dut.ulpi_out_req, dut.ulpi_stop, dut.busy, dut.done, dut.read_data]
    stim = desc.get("stimulus")
    if not stim:
        stim = []
        pdir, pn, preq = rng.choice([0, 5, 30]), rng.choice([20, 60, 100]), rng.choice([5, 30])
        a, w = rng.below(64), rng.below(256)
        for _ in range(400):
            if rng.chance(25):
                a, w = rng.below(64), rng.below(256)
            stim.append([rng.below(256), int(rng.chance(pdir)), int(rng.chance(pn)), a, w,
                         int(rng.chance(preq)), int(rng.chance(preq))])
    rows = sim.run_cycles(dut, ins, outs, stim, domain="usb")
    # monitor: every command byte the window puts out carries the address presented when the request was
    # accepted, and the data byte of a write is the write_data presented then
    fails, tags = [], set()
    acc = None
    for t, (i, o) in enumerate(zip(stim, rows)):
        if o[3] == 0 and (i[5] or i[6]):
            acc = (i[3], i[4], "w" if i[6] else "r")
        if o[1] and acc and not fails:
            d = o[0]
            ok = d in ((0x80 if acc[2] == "w" else 0xC0) | acc[0], acc[1] if acc[2] == "w" else None, 0)
            tags.add("write" if acc[2] == "w" else "read")
            if not ok:
                fails.append({"cycle": t, "sig": "window-sends-unlatched-argument", "what":
                              "window drives 0x%02x, accepted request was %s address 0x%02x data 0x%02x" % (d, acc[2], acc[0], acc[1])})
    return Case([3], stim, rows, fails, sorted(tags), desc, WIN_IN, WIN_OUT)


def run_case(desc):
    if desc.get("kind") == "win":
        return run_win(desc)
    return run_utmi(desc)
