"""C05 — inter-packet timer (luna/gateware/usb/usb2/packet.py: USBInterpacketTimer).

The model is of the REPAIRED code (fix: low-speed branch uses the low-speed table).  On a tree
without that fix the monitor reports the low-speed strobes at 1/24/92 instead of 80/260/640.
"""
from harness.common.framework import Case
from harness.common.rng import Rng
from harness.common import sim

PROP = "C05"
LEAN_MODULES = ["LunaVerif.Props.C05"]
DRIVER = "Driver/C05.lean"
REQUIRED_THEOREMS = ["timer_strobes_exact", "timer_strobe_at_cycle", "fs_only_never_uses_other_tables",
                     "specTable_from_bit_times", "start_is_reset", "run_after_start_eq_run_from_reset"]
RULE = ("cases = (domain clock, fs_only, #interfaces) x stimulus kind; kinds: run from reset to saturation at a "
        "fixed speed; sweep = restart the timer at chosen counter values (thorough: at EVERY counter value "
        "0..counter_max+3, for every configuration and every 2-bit speed value); random start strobes on both "
        "interfaces with speed changing at random times; domreset = a synchronous reset of the usb clock domain "
        "(ResetInserter around the timer) k cycles after a start, k at the boundary values, then the full count "
        "from the reset")
ASSUMPTIONS = [
    "time is measured in cycles of the usb clock domain, the reference point being the first cycle after the "
    "cycle in which a start strobe was high (or the first cycle after reset); this is how the repository's own "
    "test counts",
    "the domain clock really is 60 MHz / 12 MHz (the cycle counts are those of ULPI 1.1 fig. 18 at that clock)",
    "speed input holds a USBSpeed value valid for the configuration (HIGH/FULL/LOW, FULL only when fs_only); "
    "the behaviour for other values is modelled and co-simulated but not part of the property",
]
PARTIAL = ""

HS, FS, LS = 0, 1, 2
# (clock MHz, speed) -> (min gap, deadline, receive time-out) in clock cycles, from the property text /
# USB 2.0 7.1.18 / ULPI 1.1 figure 18:  HS 1 cycle / 24 cycles / 736 bit times = 92 cycles;
# FS, LS: 2 / 6.5 / 16 bit times with 5 (FS@60MHz), 1 (FS@12MHz), 40 (LS@60MHz) cycles per bit.
SPEC = {
    (60, HS): (1, 24, 92),
    (60, FS): (10, 32, 80),
    (60, LS): (80, 260, 640),
    (12, FS): (2, 7, 16),
}
CONFIGS = [(60, 0), (60, 1), (12, 1)]      # (clock MHz, fs_only); 12 MHz without fs_only is rejected by the constructor
NAMES = ("tx_allowed", "tx_timeout", "rx_timeout")


def counter_max(clk, fs_only):
    return (16 if clk == 12 else 80) if fs_only else 640


def valid_speeds(fs_only):
    return [FS] if fs_only else [HS, FS, LS]


def boundary_values(clk, fs_only):
    vals = set()
    for (c, _s), tpl in SPEC.items():
        if c == clk:
            for v in tpl:
                vals.update((v - 1, v, v + 1))
    cm = counter_max(clk, fs_only)
    vals.update((0, 1, 2, cm - 1, cm, cm + 1, cm + 2, cm + 3))
    return sorted(v for v in vals if 0 <= v <= cm + 3)


def gen_cases(tier, rng):
    out = []
    for clk, fso in CONFIGS:
        cm = counter_max(clk, fso)
        for speed in range(4):
            for nif in (1, 2):
                out.append({"clk": clk, "fs_only": fso, "nif": nif, "kind": "reset", "speed": speed,
                            "seed": rng.u64()})
            if tier == "thorough":
                ks = list(range(0, cm + 4))
                # chunks of roughly 25k cycles
                chunk, acc = [], 0
                for k in ks:
                    chunk.append(k)
                    acc += k + 1
                    if acc > 25000:
                        out.append({"clk": clk, "fs_only": fso, "nif": 1 + (len(out) & 1), "kind": "sweep",
                                    "speed": speed, "ks": chunk, "seed": rng.u64()})
                        chunk, acc = [], 0
                if chunk:
                    out.append({"clk": clk, "fs_only": fso, "nif": 1 + (len(out) & 1), "kind": "sweep",
                                "speed": speed, "ks": chunk, "seed": rng.u64()})
            else:
                bv = boundary_values(clk, fso)
                if tier == "quick":
                    extra = [rng.range(0, cm + 3) for _ in range(6)]
                else:
                    extra = [rng.range(0, cm + 3) for _ in range(40)]
                ks = rng.shuffle(bv + extra)
                half = len(ks) // 2
                for part in (ks[:half], ks[half:]):
                    out.append({"clk": clk, "fs_only": fso, "nif": 1 + (len(out) & 1), "kind": "sweep",
                                "speed": speed, "ks": part, "seed": rng.u64()})
        nrand = {"quick": 10, "widen": 40, "thorough": 60}[tier]
        for k in range(nrand):
            out.append({"clk": clk, "fs_only": fso, "nif": 1 + (k & 1), "kind": "random", "k": k,
                        "seed": rng.u64()})
    # a reset of the usb clock domain in the middle of a count ("from the most recent timer start (or reset)"):
    # appended after all other cases so that their seeds do not move
    for clk, fso in CONFIGS:
        cm = counter_max(clk, fso)
        for speed in valid_speeds(fso):
            ks = rng.shuffle(boundary_values(clk, fso))[:6 if tier == "quick" else 20] + [rng.range(0, cm + 3) for _ in range(3)]
            out.append({"clk": clk, "fs_only": fso, "nif": 1 + (len(out) & 1), "kind": "domreset",
                        "speed": speed, "ks": ks, "seed": rng.u64()})
    return out


def make_stimulus(desc, rng):
    clk, fso = desc["clk"], desc["fs_only"]
    cm = counter_max(clk, fso)
    nif = desc["nif"]
    rows = []
    kind = desc["kind"]

    def start_row(speed):
        if nif == 1:
            return [1, 0, speed]
        return rng.choice([[1, 0, speed], [0, 1, speed], [1, 1, speed]])

    if kind == "reset":
        sp = desc["speed"]
        rows = [[0, 0, sp]] * (cm + 40)
    elif kind == "sweep":
        sp = desc["speed"]
        rows.extend([[0, 0, sp]] * rng.range(0, 5))
        for k in desc["ks"]:
            rows.extend([start_row(sp)] * rng.choice([1, 1, 1, 2, 3]))
            rows.extend([[0, 0, sp]] * k)
        rows.append(start_row(sp))
        rows.extend([[0, 0, sp]] * (cm + 30))
    elif kind == "domreset":
        # start, k cycles later a one-cycle reset of the usb domain (column 0 = 2), then the full count from the reset
        sp = desc["speed"]
        for k in desc["ks"]:
            rows.append(start_row(sp))
            rows.extend([[0, 0, sp]] * k)
            rows.append([2, 0, sp])
            rows.extend([[0, 0, sp]] * (cm + 6))
    else:
        L = 1500 if not fso else 600
        mode = desc.get("k", 0) % 4
        speeds = [0, 1, 2, 3] if mode != 3 else valid_speeds(fso)
        sp = rng.choice(speeds)
        hold = 0
        p_start = rng.choice([1, 2, 5, 30]) if mode != 2 else 0
        gap = 0
        while len(rows) < L:
            if hold == 0:
                sp = rng.choice(speeds)
                hold = rng.choice([1, 1, 3, 20, 200, 1000]) if mode != 1 else 1
            hold -= 1
            if mode == 2:
                # starts spaced around the constants of the configuration
                if gap == 0:
                    rows.append(start_row(sp))
                    gap = max(1, rng.choice(boundary_values(clk, fso)) + rng.range(-1, 1))
                else:
                    rows.append([0, 0, sp])
                    gap -= 1
            elif rng.chance(p_start, 100):
                rows.append(start_row(sp))
            else:
                rows.append([0, 0, sp])
    return [list(r) for r in rows]


def monitor(clk, fso, stim, rows, nif):
    """The property on the real trace: with e = number of cycles since the counter was last zeroed (reset, or
    the cycle after a start strobe), each strobe is high iff e equals the specification value for the speed
    selected in this cycle.  Only speeds valid for the configuration are judged."""
    fails = []
    seen = set()
    e = 0
    for t, (row, out) in enumerate(zip(stim, rows)):
        s0, s1, sp = row
        if sp in valid_speeds(fso):
            want = SPEC[(clk, sp)]
            for k in range(3):
                exp = int(e == want[k])
                for itf in range(nif):
                    got = out[3 * itf + k]
                    if got != exp and (k, sp) not in seen:
                        seen.add((k, sp))
                        fails.append({"cycle": t, "sig": "%s-timing" % NAMES[k], "what":
                                      "clock %d MHz fs_only=%d speed=%d: %s=%d on interface %d, %d cycles after the "
                                      "timer was (re)started; required high exactly at %d cycles"
                                      % (clk, fso, sp, NAMES[k], got, itf, e, want[k])})
        e = 0 if (s0 or s1) else e + 1
    return fails


def run_case(desc):
    from luna.gateware.usb.usb2.packet import USBInterpacketTimer, InterpacketTimerInterface
    from amaranth import Signal
    clk, fso, nif = desc["clk"], desc["fs_only"], desc["nif"]
    dut = USBInterpacketTimer(domain_clock=clk * 1e6, fs_only=bool(fso))
    ifs = [InterpacketTimerInterface() for _ in range(nif)]
    for i in ifs:
        dut.add_interface(i)
    stim = desc.get("stimulus") or make_stimulus(desc, Rng(desc["seed"]))
    if nif == 1:
        stim = [[r[0], 0, r[2]] for r in stim]
    dummy = Signal(name="unused_start1")
    ins = [ifs[0].start, ifs[1].start if nif == 2 else dummy, dut.speed]
    outs = []
    for i in ifs:
        outs += [i.tx_allowed, i.tx_timeout, i.rx_timeout]
    # column 0 value 2 = synchronous reset of the usb domain (ResetInserter), no start strobe.  The counter is the
    # timer's only register, so for the model a domain reset is a start (the driver reads column 0 as a Bool).
    from amaranth.hdl import ResetInserter
    rst = Signal(name="usb_domain_reset")
    top = ResetInserter({"usb": rst})(dut)
    simstim = [[int(r[0] == 1), r[1], r[2], int(r[0] == 2)] for r in stim]
    rows = sim.run_cycles(top, ins + [rst], outs, simstim, domain="usb")
    fails = monitor(clk, fso, stim, rows, nif)
    if nif == 1:
        rows = [list(r) + [None, None, None] for r in rows]
    tags = {"clk=%d" % clk, "fs_only=%d" % fso, "nif=%d" % nif, "kind=" + desc["kind"]}
    e = 0
    cm = counter_max(clk, fso)
    for row, out in zip(stim, rows):
        tags.add("speed=%d" % row[2])
        for k in range(3):
            if out[k]:
                tags.add("%s@speed%d" % (NAMES[k], row[2]))
        if e > cm + 1:
            tags.add("saturated")
        if (row[0] or row[1]) and e > cm + 1:
            tags.add("restart-from-saturation")
        e = 0 if (row[0] or row[1]) else e + 1
    names_out = ["if0." + n for n in NAMES] + ["if1." + n for n in NAMES]
    return Case([int(clk == 12), int(fso)], stim, rows, fails, sorted(tags), desc,
                ["if0.start", "if1.start", "speed"], names_out)
