"""C44 — idle handshake (usb3/link/idle.py IdleHandshakeHandler) and U0 link timers
(usb3/link/timers.py LinkMaintenanceTimers)."""
import math
from fractions import Fraction

from harness.common.framework import Case
from harness.common.rng import Rng
from harness.common import sim

PROP = "C44"
LEAN_MODULES = ["LunaVerif.Props.C44"]
DRIVER = "Driver/C44.lean"
REQUIRED_THEOREMS = ["handshake_needs_8_idle_and_16_sent", "handshake_exact",
                     "keepalive_within_interval", "recovery_exactly_at_timeout"]
RULE = ("idle handler: enable runs of 0..9 cycles around the 4-cycle threshold x word streams mixing valid/invalid "
        "idle words, zero data with non-zero ctrl, non-idle words, idle pairs placed at -1/0/+1 of the run start; "
        "timers: scaled ss clock (keepalive count 0..128 cycles, recovery 50..12800 cycles, powers of two and +-1) "
        "with received/transmitted strobes leaving silences of threshold-2..threshold+2 cycles, wrap length +-1, "
        "random densities, enable drops")
ASSUMPTIONS = [
    "IdleHandshakeHandler is modelled as repaired by the fix: commit for F19 (sink.valid honoured, previous-word "
    "record not idle out of reset); on the unrepaired tree the monitor reports the violation",
    "time is counted in ss clock cycles; cycle counts are the integers int(10e-6*f), int(1e-3*f) the class computes "
    "(cross-checked against the exact rational floor for every frequency used)",
    "stream words: data < 2^32, ctrl < 16",
]
PARTIAL = ""

IDLE_SIGS = ("idle-complete-without-8-valid-idle", "idle-complete-before-16-sent", "idle-complete-missed",
             "idle-detected-wrong")

FREQS_QUICK = [50e3, 100e3, 200e3, 300e3, 400e3, 500e3, 700e3, 800e3, 900e3, 1e6, 1.6e6, 1.7e6, 3.2e6, 3.3e6]
FREQS_THOROUGH = FREQS_QUICK + [600e3, 1.5e6, 2.5e6, 6.4e6, 6.5e6, 12.8e6]


def counts(f):
    """The integers the class computes, exactly as timers.py does."""
    return int(10e-6 * f), int(1e-3 * f)


def range_width(n):
    from amaranth import Shape
    return Shape.cast(range(n)).width


def gen_cases(tier, rng):
    out = []
    n_idle = {"quick": 120, "widen": 400}.get(tier, 1200)
    for k in range(n_idle):
        out.append({"kind": "idle", "seed": rng.u64(), "k": k})
    freqs = FREQS_QUICK if tier == "quick" else FREQS_THOROUGH
    per = {"quick": 2, "widen": 6}.get(tier, 8)
    for f in freqs:
        for k in range(per):
            out.append({"kind": "timers", "f": f, "seed": rng.u64(), "k": k})
    if tier == "thorough":
        out.append({"kind": "timers", "f": 125e6, "seed": rng.u64(), "k": 0, "long": 1})
    return out


# ------------------------------------------------------------------------------------------ idle handler

def idle_word(rng):
    kind = rng.weighted([(45, "idle"), (12, "idle-invalid"), (8, "zero-ctrl"), (8, "data-invalid"),
                         (15, "data"), (6, "lowbyte"), (6, "highbyte")])
    if kind == "idle":
        return 1, 0, 0
    if kind == "idle-invalid":
        return 0, 0, 0
    if kind == "zero-ctrl":
        return 1, 0, rng.choice([1, 2, 4, 8, 15])
    if kind == "data-invalid":
        return 0, rng.bits(32) | 1, rng.below(16)
    if kind == "lowbyte":
        return 1, rng.range(1, 255), 0
    if kind == "highbyte":
        return 1, rng.range(1, 255) << 24, 0
    return 1, rng.bits(32) | (1 << rng.below(32)), rng.choice([0, 0, 0, rng.below(16)])


def idle_stimulus(rng, k):
    rows = []
    L = 160
    mode = k % 4
    while len(rows) < L:
        off = rng.range(1, 4)
        on = rng.choice([0, 1, 2, 3, 4, 5, 6, 7, 9, 14])
        if mode == 0:
            # nothing valid/idle except one pair of idle words at a chosen offset from the run start
            pos = rng.range(-3, on)          # index of the second idle word relative to the run start
            gap = rng.choice([0, 0, 1, 2])   # invalid cycles between the two idle words
            seg = []
            for t in range(-off - 3, on):
                en = 1 if t >= 0 else 0
                if t == pos or t == pos - 1 - gap:
                    seg.append([en, 1, 0, 0])
                elif pos - 1 - gap < t < pos:
                    seg.append([en, 0, rng.choice([0, rng.bits(32)]), 0])
                else:
                    v, d, c = rng.choice([(0, 0, 0), (1, rng.bits(32) | 1, 0), (1, 0, 1)])
                    seg.append([en, v, d, c])
            rows.extend(seg)
        else:
            p_en_glitch = 0 if mode == 1 else 6
            for t in range(off):
                v, d, c = idle_word(rng)
                rows.append([0, v, d, c])
            for t in range(on):
                v, d, c = idle_word(rng)
                rows.append([0 if rng.chance(p_en_glitch) else 1, v, d, c])
    return rows[:L]


def idle_monitor(stim, rows):
    """The property on the real trace: complete only after >= 8 consecutive valid idle symbols received
    (the last of them during the handshake) and >= 16 symbols (4 cycles) sent since the handshake started;
    and the handshake does complete once both hold."""
    fails = []
    det_fails = []
    last_valid_idle = False     # the most recent valid word (if any) was logical idle
    run = 0                     # enabled cycles completed before this one, in the current run
    seen = False                # an 8-symbol idle sequence ended in an earlier cycle of this run
    for t, ((en, v, d, c), (det, comp)) in enumerate(zip(stim, rows)):
        cur_idle = bool(v) and d == 0 and c == 0
        want_det = int(cur_idle and last_valid_idle)
        if det != want_det and not det_fails:
            det_fails.append({"cycle": t, "sig": "idle-detected-wrong", "what":
                          "idle_detected=%d at cycle %d but the last two valid words %s both logical idle"
                          % (det, t, "are" if want_det else "are not")})
        if comp and not (en and seen):
            fails.append({"cycle": t, "sig": "idle-complete-without-8-valid-idle", "what":
                          "idle_handshake_complete at cycle %d although no 8 consecutive valid logical-idle symbols "
                          "were received during this handshake" % t})
        elif comp and run < 4:
            fails.append({"cycle": t, "sig": "idle-complete-before-16-sent", "what":
                          "idle_handshake_complete at cycle %d after only %d enabled cycles (%d symbols sent)"
                          % (t, run, 4 * run)})
        elif not comp and en and seen and run >= 4:
            fails.append({"cycle": t, "sig": "idle-complete-missed", "what":
                          "8 idle symbols received and %d symbols sent but idle_handshake_complete=0 at cycle %d"
                          % (4 * run, t)})
        if fails:
            break
        # advance the reference bookkeeping
        if en:
            seen = seen or bool(want_det)
            run += 1
        else:
            seen = False
            run = 0
        if v:
            last_valid_idle = cur_idle
    return fails + det_fails      # the handshake verdicts first: they are the property


def run_idle(desc):
    from luna.gateware.usb.usb3.link.idle import IdleHandshakeHandler
    dut = IdleHandshakeHandler()
    stim = desc.get("stimulus") or idle_stimulus(Rng(desc["seed"]), desc.get("k", 0))
    ins = [dut.enable, dut.sink.valid, dut.sink.data, dut.sink.ctrl]
    outs = [dut.idle_detected, dut.idle_handshake_complete]
    rows = sim.run_cycles(dut, ins, outs, stim, domain="ss")
    fails = idle_monitor(stim, rows)
    tags = ["idle"]
    if any(r[1] for r in rows):
        tags.append("idle:complete")
    if any(r[0] and not r[1] for r in rows):
        tags.append("idle:detected-not-complete")
    if any(s[0] and not s[1] and s[2] == 0 and s[3] == 0 for s in stim):
        tags.append("idle:invalid-zero-word-while-enabled")
    return Case([0], stim, rows, fails, tags, desc,
                ["enable", "valid", "data", "ctrl"], ["idle_detected", "idle_handshake_complete"])


# ------------------------------------------------------------------------------------------------ timers

def timers_stimulus(rng, K, R, wK, wR, k, long=False):
    """rows [enable, lc_rx, pkt_rx, lc_tx]; silences around each threshold and around the wrap length."""
    rows = []
    L = (2 * (1 << wR) + 2 * R + 50) if long else min(5 * R + 200, 40000)
    mode = k % 3
    # schedule of clears for each timer, as gap lists
    def gaps(thr, w, total):
        g = []
        n = 0
        while n < total:
            c = rng.weighted([(5, "thr"), (2, "wrap"), (2, "short"), (1, "long")])
            if c == "thr":
                x = thr + rng.range(-2, 2)
            elif c == "wrap":
                x = (1 << w) + thr + rng.range(-2, 2)
            elif c == "short":
                x = rng.range(1, max(1, thr // 2 + 1))
            else:
                x = 2 * (1 << w) + rng.range(0, thr + 2)
            x = max(1, x)
            g.append(x)
            n += x
        return g
    tx = set()
    t = rng.range(0, 3)
    for x in gaps(K, wK, L):
        t += x
        tx.add(t)
    rx = {}
    t = rng.range(0, 3)
    for x in gaps(R, wR, L):
        t += x
        rx[t] = rng.choice([1, 2, 3])
    dis = set()
    if mode == 1:          # enable drops
        t = 0
        while t < L:
            t += rng.choice([R - 1, R, R + 1, K, K + 1, rng.range(1, 2 * R + 2)])
            for j in range(rng.range(1, 3)):
                dis.add(t + j)
    for t in range(L):
        if mode == 2 and t >= L // 2:
            # random dense traffic in the second half
            rows.append([0 if rng.chance(1) else 1, int(rng.chance(1, 4 * R + 1)), int(rng.chance(1, 4 * R + 1)),
                         int(rng.chance(1, K + 2))])
            continue
        r = rx.get(t, 0)
        rows.append([0 if t in dis else 1, r & 1, (r >> 1) & 1, 1 if t in tx else 0])
    return rows


def timers_monitor(stim, rows, f, K, R):
    fails = []
    exactK = Fraction(10, 1000000) * Fraction(f)
    exactR = Fraction(1, 1000) * Fraction(f)
    limit10ms = int(Fraction(10, 1000) * Fraction(f))
    nk = 0   # completed consecutive enabled cycles without a transmitted link command (0 after reset/clear/disable)
    nr = 0
    since_keep = None
    for t, ((en, lrx, prx, ltx), (keep, rec)) in enumerate(zip(stim, rows)):
        # recovery: requested within one cycle of 1 ms of silence, never earlier
        if rec:
            # nr+1 cycles have passed since the last strobe / enable / reset edge
            if (nr + 1) < exactR - 1:
                fails.append({"cycle": t, "sig": "recovery-early", "what":
                              "transition_to_recovery at cycle %d only %d cycles after the last received link "
                              "command/packet; 1 ms is %s cycles at %g Hz" % (t, nr + 1, exactR, f)})
        if R >= 1 and nr == R - 1 and not rec:
            fails.append({"cycle": t, "sig": "recovery-missed", "what":
                          "no transition_to_recovery at cycle %d, %d cycles (1 ms = %s cycles) after the last "
                          "received link command/packet" % (t, nr + 1, exactR)})
        if R >= 1 and abs((R) - exactR) > 1:
            fails.append({"cycle": t, "sig": "recovery-count-off", "what":
                          "recovery cycle count %d is not within one cycle of 1 ms = %s cycles" % (R, exactR)})
        # keepalive: scheduled when nothing was sent for the keepalive interval, repeated within 10 ms
        if K >= 1 and nk == K - 1 and not keep:
            fails.append({"cycle": t, "sig": "keepalive-missed", "what":
                          "no schedule_keepalive at cycle %d, %d cycles (10 us = %s cycles) after the last "
                          "transmitted link command" % (t, nk + 1, exactK)})
        if K >= 1 and K > exactK:
            fails.append({"cycle": t, "sig": "keepalive-count-late", "what":
                          "keepalive cycle count %d exceeds 10 us = %s cycles" % (K, exactK)})
        if keep:
            since_keep = 0
        elif since_keep is not None:
            since_keep += 1
        if K >= 1 and nk >= K - 1 and since_keep is not None and since_keep > max(limit10ms, K):
            fails.append({"cycle": t, "sig": "keepalive-later-than-10ms", "what":
                          "link silent and no schedule_keepalive for %d cycles (> 10 ms) at cycle %d"
                          % (since_keep, t)})
        if fails:
            break
        if ltx or not en:
            nk = 0
            since_keep = None if not en else since_keep
        else:
            nk += 1
        if lrx or prx or not en:
            nr = 0
        else:
            nr += 1
    return fails


def run_timers(desc):
    from luna.gateware.usb.usb3.link.timers import LinkMaintenanceTimers
    f = desc["f"]
    dut = LinkMaintenanceTimers(ss_clock_frequency=f)
    K, R = counts(f)
    wK, wR = range_width(K), range_width(R)
    stim = desc.get("stimulus") or timers_stimulus(Rng(desc["seed"]), K, R, wK, wR, desc.get("k", 0),
                                                   bool(desc.get("long")))
    ins = [dut.enable, dut.link_command_received, dut.packet_received, dut.link_command_transmitted]
    outs = [dut.schedule_keepalive, dut.transition_to_recovery]
    rows = sim.run_cycles(dut, ins, outs, stim, domain="ss")
    fails = timers_monitor(stim, rows, f, K, R)
    tags = ["timers", "timers:K=%d" % K if K < 4 else "timers:K>=4"]
    nk = sum(r[0] for r in rows)
    nr = sum(r[1] for r in rows)
    if nk:
        tags.append("timers:keepalive-fired")
    if nr:
        tags.append("timers:recovery-fired")
    if nr >= 2:
        tags.append("timers:recovery-fired-twice")
    if K == (1 << wK):
        tags.append("timers:K-power-of-two")
    return Case([1, K, R], stim, rows, fails, tags, desc,
                ["enable", "link_command_received", "packet_received", "link_command_transmitted"],
                ["schedule_keepalive", "transition_to_recovery"])


def run_case(desc):
    if desc.get("kind") == "timers":
        return run_timers(desc)
    return run_idle(desc)


def extra_checks(tier, rng, proof):
    """The cycle counts the class computes with floats equal the exact rational floors (the `Config` values the
    theorems are instantiated with in `Props/C44.lean` are these)."""
    bad = []
    table = {}
    for f in sorted(set(FREQS_THOROUGH + [125e6, 250e6, 62.5e6])):
        K, R = counts(f)
        eK = math.floor(Fraction(10, 1000000) * Fraction(f))
        eR = math.floor(Fraction(1, 1000) * Fraction(f))
        table["%g" % f] = [K, R]
        if (K, R) != (eK, eR):
            bad.append(["%g" % f, K, R, eK, eR])
    return {"timeout_cycle_counts": table, "float_vs_exact_floor_mismatches": bad, "failures": []}
