"""C20 — everything the USB2 device transmits is a well-formed, solicited packet.

Three kinds of cases:

* "mux"   the real `UTMIInterfaceMultiplexer` (interface/utmi.py, utils/bus.py) with 1..5 inputs, cycle by cycle
          against `TxMux.mux` (all valid patterns, including the non-one-hot ones the code leaves "undefined");
* "full"  the real full `USBDevice` (control + bulk IN + bulk OUT + status endpoint, optional extra request
          handlers) under an adaptive LegalHost with random `tx_ready`; event by event against the Lean
          full-device model, and the property itself on the cycle trace (harness/props/devx_util.py
          `cycle_monitor`): every transmitted packet parses (PID check nibble, handshake length, CRC16 by the
          independent reference), comes from exactly one of the three transmitters, starts within the response
          window after a token / data packet addressed to the device, at most one per such packet, and
          `tx_valid` never overlaps `rx_active`;
* "cyc"   the same real device and host, cycle by cycle against the composition of the packet-layer models
          (`Model/Device/DevCyc.lean`: token detector + receiver + timers + CRC + both generators + multiplexer as
          wired in device.py; the endpoints' outputs are sampled from the real device and fed to the model), see
          harness/props/c20_cyc.py.  The driver also evaluates the assumptions of `tx_never_during_rx` (hostOk,
          envOk) on every sampled cycle; both are expected to hold.
* "det"   the same real device and host against the CLOSED cycle-level model `DevDet` (sub-model 3 of the driver): packet
          layer + bulk IN / bulk OUT / status endpoint models + endpoint multiplexer + control endpoint closed loop +
          setup decoder + handshake detector, i.e. the model of `det_closed_tx_never_during_rx`; nothing the device drives
          is an input (harness/props/c20_det.py).  The driver also evaluates that theorem's assumptions (hostOk, decOk3) on
          every cycle; both are expected to hold.
"""
from harness.common.framework import Case
from harness.common.rng import Rng
from harness.common import sim
from harness.common import devharness as DH
from harness.props import dev_ctl
from harness.props import devx_util as X
from harness.props import c20_cyc as CY
from harness.props import c20_det as DT

PROP = "C20"
LEAN_MODULES = ["LunaVerif.Props.C20", "LunaVerif.Lemmas.C20CycAbs", "LunaVerif.Lemmas.C20CycInv",
                "LunaVerif.Lemmas.C20CycRefine", "LunaVerif.Lemmas.C20CycMain", "LunaVerif.Lemmas.C20CycEvent",
                # envOk discharged: slot contract, contract => envOk, endpoint models keep it, closed device
                "LunaVerif.Lemmas.C20Contract", "LunaVerif.Lemmas.C20EnvOk", "LunaVerif.Lemmas.C20Endpoints",
                "LunaVerif.Lemmas.C20Device", "LunaVerif.Lemmas.C20Control",
                # the control endpoint keeps the slot contract (assume/guarantee, over C07's closed loop sys2Step)
                "LunaVerif.Lemmas.C20CtrlBase", "LunaVerif.Lemmas.C20CtrlDefs", "LunaVerif.Lemmas.C20CtrlBlk",
                "LunaVerif.Lemmas.C20CtrlContract", "LunaVerif.Lemmas.C20CtrlExamples",
                # ... wired into the closed device as the rest slot: restHolds becomes a theorem
                "LunaVerif.Lemmas.C20DeviceCtl", "LunaVerif.Lemmas.C20DeviceCtlExamples",
                # ... and with the setup decoder's FSM + deserializer (C06 decStep / deserStep) on the shared tokenizer/timer/CRC
                "LunaVerif.Lemmas.C20DeviceDec", "LunaVerif.Lemmas.C20DeviceDecExamples", "LunaVerif.Lemmas.C20DeviceDecAck",
                # ... the decoder's ACK clause and 'received' clause of decHolds' proved (deserializer / receiver lock-step
                # with equal CRC16 checks, decoder DELAY <=> receiver DELAY)
                "LunaVerif.Lemmas.C20DeserRx", "LunaVerif.Lemmas.C20DeviceDecInv",
                "LunaVerif.Lemmas.C20DeviceDecInvExamples",
                # ... and with the handshake detector (C04 Det.step): 'no host ACK while the control slot is busy' proved
                "LunaVerif.Lemmas.C20DeviceDet", "LunaVerif.Lemmas.C20DeviceDetExamples",
                # ... full-speed-only build: the reset sequencer (C19 model) never transmits and keeps FULL speed
                "LunaVerif.Lemmas.C20ResetSilent", "LunaVerif.Lemmas.C20DeviceFs", "LunaVerif.Lemmas.C20DeviceFsExamples"]
DRIVER = "Driver/C20.lean"
REQUIRED_THEOREMS = ["mux_single_source", "generator_idle_unless_stream_valid", "handshake_idle_unless_requested",
                     "every_response_is_handshake_or_crc_valid_data", "response_only_after_addressed_token_or_data",
                     "at_most_one_transmitter_per_response",
                     # cycle-level composition (Model/Device/DevCyc.lean)
                     "tx_never_during_rx", "tx_only_in_response_window", "transmitters_exclusive",
                     "pulse_only_after_delay", "inv_step", "skel_step", "handshake_response_wire",
                     # endpoint side (Lemmas/C20Contract|EnvOk|Endpoints|Device.lean)
                     "merge_ok", "mergeAll_ok", "slot_envOk", "slot_link", "assumptions_of_slot",
                     "inxfer_requests_only_after_pulse", "inxfer_no_handshake_and_data_together",
                     "signalin_requests_only_after_pulse", "streamout_requests_only_after_pulse",
                     "good_step", "envOk_of_endpoints", "closed_tx_never_during_rx", "closed_transmitters_exclusive",
                     "closed_tx_only_in_response_window",
                     # control endpoint (C07 cycle model), one-cycle lemmas
                     "ctrl_requests_only_after_pulse", "ctrl_no_handshake_and_data_together",
                     # control endpoint + handlers + serializer + block descriptor handler keep the slot contract
                     "ctl_step", "ctrl_keeps_contract", "ctrl_keeps_contract_run",
                     # closed device with the control endpoint as the rest slot
                     "ctl_env", "joint_step", "restHolds_of_ctl", "ctl_closed_tx_never_during_rx",
                     "ctl_closed_transmitters_exclusive", "ctl_closed_tx_only_in_response_window",
                     # setup decoder FSM + deserializer composed in
                     "deser_new", "dec_regs", "dec_received_origin", "tok_facts", "decHolds_of_dec",
                     "dec_ack_origin", "dec_ack_tx_allowed", "dec_closed_tx_never_during_rx",
                     "dec_closed_transmitters_exclusive", "dec_closed_tx_only_in_response_window",
                     # decoder ACK = receiver's pulse, no 'received' in an open window: no longer assumed
                     "dr_step", "dr_new8", "dj_step", "decHolds'_of_dec", "dec2_closed_tx_never_during_rx",
                     "dec2_closed_transmitters_exclusive", "dec2_closed_tx_only_in_response_window",
                     # handshake detector composed in: handshakes_in.ack no longer an input
                     "det_facts", "decHolds2_of_det", "det_closed_tx_never_during_rx",
                     "det_closed_transmitters_exclusive", "det_closed_tx_only_in_response_window",
                     # full-speed-only device: reset sequencer silent is a theorem
                     "fs_only_silent", "fs_closed_tx_never_during_rx", "fs_closed_transmitters_exclusive",
                     "fs_closed_tx_only_in_response_window"]
RULE = ("cases = 'mux' (number of inputs x random valid/data patterns, one-hot and overlapping) and 'full' (descriptor set, "
        "endpoint set {bulk IN, bulk OUT, status}, extra handlers) x adaptive LegalHost script (control transfers, bulk IN "
        "with lost/corrupted handshakes and retries, bulk OUT with retransmissions / overflow / PING, status polls, "
        "CLEAR_FEATURE(ENDPOINT_HALT), other devices' transactions, SOF, malformed packets, bus resets) x PHY timing "
        "(byte gaps, tx_ready about 3 of 4 cycles); every generated event is checked against Full.legalEvent; 'cyc' cases run the "
        "same kind of script and compare the packet layer of the real device cycle by cycle with the composed model DevCyc "
        "(inputs = UTMI receive side, tx_ready and everything the endpoints drive, sampled from the real device); 'det' cases "
        "(standard handlers, one bulk IN / bulk OUT / status endpoint, three endpoint layouts) run the same kind of script and "
        "compare the real device cycle by cycle with the CLOSED model DevDet (inputs = UTMI receive side, tx_ready, user side "
        "of the endpoint streams, reset sequencer's transmitter, address and configuration registers; 34 compared columns: "
        "UTMI transmit side, both transmitters, the post-multiplexer interface, every endpoint's EndpointInterface outputs, "
        "setup decoder received / ack / new_packet, handshake detector ack) and evaluate hostOk and decOk3 on every cycle")
ASSUMPTIONS = dev_ctl.ASSUMPTIONS + [
    "bulk OUT data packets are at most max_packet_size long; stream events (produce / consume / signal change) happen "
    "between transactions",
    "full-speed-only device (a plain UTMI bus makes USBDevice select always_fs): the reset sequencer never chirps, so "
    "'outside reset chirping' is not exercised",
    "cycle level (tx_never_during_rx): hostOk = the host keeps rx_active low while the response window is open (from the end of "
    "an IN/PING token accepted by the token detector or of a data packet with a good CRC16 until the device's answer has ended, "
    "or for T+1 = 17 cycles if no answer starts) and rx_valid only while rx_active; envOk = endpoint discipline E0-E4 of "
    "Model/Device/DevCyc.lean with L = 8; speed constant (FULL); delay + L + 2 < T",
    "closed device (envOk_of_endpoints, closed_tx_never_during_rx): hostOk as above; the bulk IN and the status endpoint have "
    "different endpoint numbers; restHolds = the control endpoint (and anything else on the multiplexer) keeps the slot "
    "contract of Lemmas/C20Contract.lean w.r.t. the pulses not addressed to the bulk IN / bulk OUT / status endpoint, and the "
    "reset sequencer does not transmit; handshakes_in, the user side of the streams, the device address and the "
    "halt-clear strobe are arbitrary",
    "closed device with its control endpoint (ctl_closed_tx_never_during_rx, restHolds_of_ctl; Lemmas/C20DeviceCtl.lean): hostOk "
    "as above; the control endpoint's number differs from the other three endpoints'; 3 <= L; decHolds = in every cycle: "
    "setup_decoder.ack only together with the receiver's ready_for_response while the tokenizer shows SETUP, "
    "packet.received only while the tokenizer shows SETUP; while the control slot is armed or sending no packet.received, "
    "no host ACK forwarded to the request handlers and setup.type unchanged; the decoder's timer.start only in the cycle "
    "after a reception ended; the handler's start_position fits position_in_stream when the descriptor handler leaves "
    "IDLE (the host does not ask for more data after the short packet); the reset sequencer does not transmit",
    "closed device with control endpoint AND setup decoder FSM + deserializer (dec_closed_tx_never_during_rx; "
    "Lemmas/C20DeviceDec.lean): as the previous item, with decHolds' instead of decHolds: the timer.start clause and the "
    "setup.type clause and the 'received only while the tokenizer shows SETUP' clause are proved; still assumed per cycle: "
    "the decoder's ack only together with the receiver's ready_for_response while the tokenizer shows SETUP, no received and no "
    "forwarded host ACK while the control slot is armed or sending, the start_position clause, reset sequencer silent; "
    "full speed (hs = false) in the evaluated example",
    "closed device with control endpoint, setup decoder (dec2_closed_tx_never_during_rx; Lemmas/C20DeviceDecInv.lean): hostOk as "
    "above; decoder configured for full / low speed (hs = false: at high speed the decoder ACKs without waiting for the "
    "timer); decHolds2 = a decidable predicate evaluated along the run, per cycle: no handshakes_in.ack forwarded to the "
    "request handlers while the control slot is armed or sending, the start_position clause, the reset sequencer does not "
    "transmit, utmi.rx_data < 256 (an 8-bit signal). The decoder's ACK timing, the 'received' timing, timer.start and the "
    "stability of setup.type are no longer assumed",
    "closed device with control endpoint, setup decoder AND handshake detector (det_closed_tx_never_during_rx, "
    "det_closed_transmitters_exclusive, det_closed_tx_only_in_response_window; Lemmas/C20DeviceDet.lean) - the weakest "
    "hypothesis set: (1) hostHolds = in every cycle hostOk: rx_active is low while the response window is open (ghost "
    "automaton Win over bus-visible events: opened by the end of an IN/PING token the token detector accepted or of a data "
    "packet with a good CRC16, kept open while the device transmits, closed T+1 cycles after the soliciting packet if no "
    "answer started) and rx_valid only while rx_active - this covers host handshakes: a legal half-duplex host never sends "
    "a handshake while the device's response window is open; (2) decHolds3 = a decidable predicate evaluated along the run, "
    "per cycle: (e) LEGAL HOST: whenever the block descriptor handler is in START, the handler's start_position (max_packet_size x number "
    "of data-stage packets the host has ACKed, mod 2048) is < 2^posW = the range of position_in_stream, i.e. the host does not ask "
    "for more descriptor data after the short / last packet; (f) RESET SEQUENCER SILENT: reset_sequencer.tx.valid = 0 (no "
    "chirp in the history); utmi.rx_data < 256; (3) configuration: timers strobe at the speed, delay + L + 2 < T, 3 <= L, "
    "the four endpoint numbers differ as stated, decoder speed full / low (hs = false). handshakes_in.ack, received, "
    "setup_decoder.ack, the SetupPacket registers and timer.start are computed by the composed models, not assumed",
    "full-speed-only closed device (fs_closed_tx_never_during_rx, fs_closed_transmitters_exclusive, "
    "fs_closed_tx_only_in_response_window; Lemmas/C20ResetSilent.lean, C20DeviceFs.lean): as the previous item, but clause (f) "
    "is replaced by: the reset_sequencer.tx.valid column of the history is what the C19 model of USBResetSequencer drives "
    "for SOME history of its inputs with full_speed_only = 1 and low_speed_only = 0 in every cycle (what USBDevice ties "
    "them to on a plain UTMI bus: always_fs); line_state, VBUS, bus_busy, disconnect arbitrary (fs_only_silent: then "
    "tx.valid = 0 and current_speed = FULL in every cycle). What is left of decHolds3 is decHolds4 = (e) + rx_data < 256",
]
PARTIAL = ("Proved: the transaction-level theorems for every state and event of the event-level model (tied to the real device "
           "event by event), and at the cycle level 'tx_valid implies not rx_active', 'tx_valid only inside a response window', "
           "'the two transmitters are never valid together' and the pulse timing for the composition token detector + receiver + "
           "timers + CRC + handshake generator + data generator + UTMI multiplexer as wired in device.py (tied to the real "
           "USBDevice cycle by cycle, including the evaluation of the theorem's host and endpoint assumptions on every sampled "
           "cycle). The endpoint discipline envOk is now PROVED, for all histories, for the packet layer closed with the "
           "cycle-level models of USBStreamInEndpoint/USBInTransferManager (C11), USBStreamOutEndpoint (C13) and "
           "USBSignalInEndpoint (C17) through the endpoint multiplexer's OR (envOk_of_endpoints, closed_tx_never_during_rx; each "
           "endpoint model keeps a per-endpoint slot contract for arbitrary inputs, the contract is closed under the "
           "multiplexer's merge, and contract + packet-layer invariant imply envOk). NOT (fully) proved: (a) the CONTROL "
           "endpoint's share of envOk is proved up to the setup decoder's timing only. In Lemmas/C20Device.lean the control "
           "endpoint (setup decoder + request handlers + descriptor/serializer streams) enters the "
           "closed device as the 'rest slot', an arbitrary driver ASSUMED to keep the same slot contract (restHolds: request "
           "only at / at most L+1 cycles after a ready_for_response pulse not addressed to the three modelled endpoints, one "
           "per pulse, never handshake + data, tx.valid held until last is taken, first/last only with valid, timer.start only "
           "in the cycle after a reception) and the reset sequencer is assumed silent; this assumption is EVALUATED by the Lean "
           "driver on the real control endpoint's EndpointInterface outputs in every co-simulated cycle (slot contract columns "
           "of the 'cyc' cases, expected 1; the same columns re-check the three proved endpoints on the real gateware and tie "
           "the pulse decode of Lemmas/C20Device.lean to it). PROVED towards it (ctrl_keeps_contract, Lemmas/C20Ctrl*.lean): the "
           "closed loop of C07 (USBControlEndpoint + handler multiplexer + StandardRequestHandler + its StreamSerializer + "
           "GetDescriptorHandlerBlock, sys2Step) keeps the slot contract from reset for EVERY input history in assume/guarantee "
           "form - in every cycle up to and including the first one in which the environment breaks ctlEnv: a pulse for the "
           "endpoint is a pulse of the slot; setup_decoder.ack only at a slot pulse while the tokenizer shows SETUP, "
           "packet.received only while it shows SETUP, PID decode exclusive; while the slot is armed or sending no pulse, no "
           "received, no forwarded host ACK, setup.type unchanged; start_position fits position_in_stream when the descriptor "
           "handler leaves IDLE (both of the last two are shown necessary by kernel-evaluated runs: a SETUP in mid-stream cuts "
           "tx.valid; a host that keeps asking after the short packet makes the block handler present data without first). "
           "This loop is WIRED INTO the closed device as the rest slot (Lemmas/C20DeviceCtl.lean): ctlEnv is derived from the "
           "packet layer's invariant (ctl_env: pulse decode, exclusive PID decode, no pulse while an answer is owed or under "
           "way) and decOk, so restHolds is now a THEOREM (restHolds_of_ctl) and the three closed-device theorems hold for "
           "the device WITH its control endpoint under hostHolds + decHolds (ctl_closed_tx_never_during_rx, "
           "ctl_closed_transmitters_exclusive, ctl_closed_tx_only_in_response_window; a kernel-evaluated control read through "
           "the whole device reproduces the reference ACK and DATA1+CRC16 bytes). "
           "The setup decoder's FSM and its deserializer (C06 decStep / deserStep) are composed in on the shared tokenizer, "
           "timer and CRC (Lemmas/C20DeviceDec.lean; received / ack / SetupPacket registers / timer.start are no longer "
           "inputs; a kernel-evaluated control read with NOTHING fed by hand shows timer.start in the cycle after the "
           "reception, received one cycle later, the decoder's ACK at the receiver's pulse, and the reference ACK + "
           "DATA1/CRC16 bytes on the wire), and three clauses of decHolds are proved for every history (decHolds_of_dec: the "
           "decoder's timer.start only in the cycle after a reception ended = E4; setup.type changes only together with the "
           "received strobe; received is visible only while the tokenizer shows SETUP - the token detector is idle after the "
           "cycle without rx_active and keeps its pid over that edge), giving dec_closed_tx_never_during_rx / _transmitters_exclusive / _tx_only_in_response_window "
           "under hostHolds + decHolds'. The decoder's ACK clause and 'received' clause are now PROVED as well "
           "(Lemmas/C20DeserRx.lean, C20DeviceDecInv.lean; full / low speed): the deserializer and the receiver parse in "
           "lock-step and their CRC16 checks decide the same (DeserRx.DR, dr_step, dr_new8: equal last_word / data_pipeline, "
           "last_word_crc, last_byte_crc from the second payload byte on, both read the shared CRC unit); joint invariant DJ "
           "(dj_step): a new_packet of length 8 finds the receiver entering its inter-packet DELAY with the shared counter "
           "at 0, so READ_DATA never ACKs directly (tx_allowed needs counter = delay >= 1); the decoder is in DELAY only "
           "while the receiver is, with counter <= delay and the token detector's pid still SETUP, so its ACK IS the "
           "receiver's ready_for_response; new_packet / received find the control slot idle and no pulse in between "
           "(decHolds'_of_dec, dec2_closed_* under hostHolds + decHolds2). With the handshake detector (C04 Det.step) "
           "composed in as device.py connects it (Lemmas/C20DeviceDet.lean) 'no host ACK forwarded while the control slot is "
           "armed or sending' follows from hostOk too (the detector strobes ack in the cycle after rx_active fell, when "
           "the window was closed and nothing is owed): det_closed_tx_never_during_rx / _transmitters_exclusive / "
           "_tx_only_in_response_window hold under hostHolds + decHolds3, where decHolds3 is only: (e) the legal-host "
           "clause on start_position, (f) reset sequencer silent, rx_data < 256. For a full-speed-only build (f) is a theorem as well "
           "(fs_only_silent over the C19 reset sequencer model: with full_speed_only = 1, low_speed_only = 0 the chirp "
           "states are unreachable, tx.valid = 0 and current_speed = FULL in every cycle, for every line_state / VBUS "
           "history; fs_closed_* under hostHolds + decHolds4 = (e) + rx_data < 256; only the tx.valid wire of the reset "
           "sequencer is composed, the constancy of the speed is proved of the same model but the packet layer's speed "
           "stays a configuration constant). STILL ASSUMED / NOT proved: (e), and (f) for builds that may chirp, "
           "are environment assumptions (see ASSUMPTIONS); kernel-evaluated necessity examples: hs = true makes the decoder "
           "ACK three cycles before the receiver's pulse. The slot-contract columns of the 'cyc' cases keep checking the "
           "control endpoint's contract on the real gateware in every co-simulated cycle; the WIRING of the closed "
           "model (DevEp / DevCtl / DevDec / DevDet: inIn, outIn, sigIn, fullIn, ctlIn, drvOf, decCycle, xOf, xIn) IS now "
           "co-simulated as a whole: the 'det' cases run the closed model DevDet (sub-model 3 of the driver) against the "
           "real USBDevice with nothing the device drives fed to the model, 34 columns compared in every cycle, and the "
           "theorem's assumptions hostOk / decOk3 evaluated on every cycle (expected 1), for devices with the standard "
           "request handlers and one bulk IN / bulk OUT / status endpoint; the address and configuration registers of "
           "USBDevice are inputs of the model (sampled); "
           "(b) the refinement from cycles to events beyond the "
           "handshake-response case (handshake_response_wire: a handshake request yields exactly the wire image of the "
           "event-level Resp.hs); data responses and the endpoints' choice of the handshake are tied by the event-level "
           "co-simulation and the cycle monitor only; (c) high speed, where the setup decoder ACKs without waiting for the "
           "timer (the composition is co-simulated at 12 MHz full speed only).")

FULL_EPS = [["in", 1, 64], ["out", 2, 64], ["sig", 3, 16]]


def gen_cases(tier, rng):
    if tier == "quick":
        n_full, steps, n_mux, n_cyc, n_det = 36, 22, 16, 12, 8
    elif tier == "widen":
        n_full, steps, n_mux, n_cyc, n_det = 120, 30, 20, 40, 24
    else:
        n_full, steps, n_mux, n_cyc, n_det = 500, 40, 80, 160, 60
    out = []
    for k in range(n_full):
        out.append({"mode": "full", "seed": rng.u64(), "steps": steps, "k": k})
    for k in range(n_mux):
        out.append({"mode": "mux", "n": 1 + k % 5, "seed": rng.u64(), "k": k})
    for k in range(n_cyc):
        out.append({"mode": "cyc", "seed": rng.u64(), "steps": steps, "k": k})
    for k in range(n_det):
        out.append({"mode": "det", "seed": rng.u64(), "steps": steps, "k": k})
    return out


# ----------------------------------------------------------------------------- multiplexer
def run_mux(desc):
    from luna.gateware.interface.utmi import UTMIInterfaceMultiplexer, UTMITransmitInterface
    n = desc["n"]
    rng = Rng(desc["seed"])
    mux = UTMIInterfaceMultiplexer()
    ins = [UTMITransmitInterface() for _ in range(n)]
    for i in ins:
        mux.add_input(i)
    stim = desc.get("stimulus")
    if not stim:
        stim = []
        for t in range(400):
            mode = rng.weighted([(5, "onehot"), (2, "none"), (3, "random")])
            row = []
            hot = rng.below(n)
            for j in range(n):
                v = {"onehot": int(j == hot), "none": 0, "random": int(rng.chance(40))}[mode]
                row += [v, rng.below(256)]
            stim.append(row + [int(rng.chance(60))])
    inputs = []
    for i in ins:
        inputs += [i.valid, i.data]
    inputs.append(mux.output.ready)
    outputs = [mux.output.valid, mux.output.data] + [i.ready for i in ins]
    rows = sim.run_cycles(mux, inputs, outputs, stim, domain="usb")
    fails, tags = [], set()
    exp = []
    for t, (r, o) in enumerate(zip(stim, rows)):
        valids = [r[2 * j] for j in range(n)]
        datas = [r[2 * j + 1] for j in range(n)]
        tags.add("valids:%d" % min(sum(valids), 2))
        if o[0] != int(any(valids)):
            fails.append({"cycle": t, "sig": "c20-mux-valid", "what": "output.valid=%d for input valids %r" % (o[0], valids)})
        if sum(valids) == 1 and o[1] != datas[valids.index(1)]:
            fails.append({"cycle": t, "sig": "c20-mux-single-source",
                          "what": "exactly input %d is valid with data %#x but output.data=%#x" % (valids.index(1), datas[valids.index(1)], o[1])})
        if any(x != r[-1] for x in o[2:]):
            fails.append({"cycle": t, "sig": "c20-mux-ready", "what": "ready=%d not passed to every input: %r" % (r[-1], o[2:])})
        exp.append([o[0], o[1], None, None])
    return Case([0, n], stim, exp, fails[:3], sorted(tags) + ["mode:mux"], desc,
                ["valid/data pairs…", "ready"], ["valid", "data", "encoder_o", "encoder_n"])


# ----------------------------------------------------------------------------- full device
def make_full_spec(rng):
    shape = rng.weighted([(4, "std"), (2, "long"), (1, "sparse")])
    handlers = rng.weighted([(5, []), (2, [["zlpreg", 2, 0x20]])])
    eps = rng.weighted([(6, FULL_EPS), (2, [["in", 1, 32], ["out", 1, 32], ["sig", 4, 8]]),
                        (1, [["in", 5, 8], ["out", 6, 8, 20], ["sig", 7, 24], ["in", 2, 16]])])
    return {"shape": shape, "desc": DH.descriptor_table(shape, rng), "eps": eps, "handlers": handlers}


def run_full(desc):
    rng = Rng(desc["seed"])
    tags = set()
    spec = desc.get("spec") or make_full_spec(rng.fork("spec"))
    h = X.TraceHarness(spec, rng.fork("timing"))
    if desc.get("stimulus"):
        script = [DH.decode_event(row) for row in desc["stimulus"]]
    else:
        host = X.FullHost(rng.fork("host"), spec, "c07", tags)

        def script(_h):
            return host.script(desc["steps"])
    d = dict(desc)
    d["spec"] = spec
    log, hung = X.run_guarded(h, script)
    if hung is not None:
        return X.hang_case(X.cfg_ints_full(spec), h, hung, d, tags)
    inputs, outputs = X.full_rows(log, legal_flag=not desc.get("stimulus"))
    fails, mtags = X.cycle_monitor(h.trace, log)
    for k, r in enumerate(log):
        if r.resp.kind == DH.RESP_GARBAGE and len(fails) < 5:
            fails.append({"cycle": k, "sig": "c20-malformed-response",
                          "what": "event %d %r: the device's transmission %r is not one well-formed packet" % (k, r.event, r.resp.packets)})
        tags.add("resp:%d" % r.resp.kind if r.resp.kind != DH.RESP_HS else "resp:hs%d" % r.resp.pid)
    tags |= mtags
    tags.add("mode:full")
    tags.add("eps:" + "/".join("%s%d" % (e[0], e[1]) for e in spec["eps"]))
    return Case(X.cfg_ints_full(spec), inputs, outputs, fails, sorted(tags), d, ["event…"], X.NAMES_OUT)


# ----------------------------------------------------------------------------- cycle-level composition
def run_cyc(desc):
    """The real full device, cycle by cycle, against the composition of the packet-layer models (`DevCyc`): the
    endpoints' outputs are sampled from the real device and fed to the model as its environment."""
    rng = Rng(desc["seed"])
    tags = set()
    spec = desc.get("spec") or make_full_spec(rng.fork("spec"))
    h = CY.CycHarness(spec, rng.fork("timing"))
    # a replay re-runs the adaptive host from the seed (the per-cycle rows contain the endpoints' outputs, which are
    # not inputs of the real device, so `desc["stimulus"]` cannot be fed back; the run is a function of seed + spec)
    host = X.FullHost(rng.fork("host"), spec, "c07", tags)

    def script(_h):
        return host.script(desc["steps"])
    d = dict(desc)
    d["spec"] = spec
    log, hung = X.run_guarded(h, script)
    if hung is not None:
        return X.hang_case(X.cfg_ints_full(spec), h, hung, d, tags)
    inputs, outputs = CY.rows(h)
    fails = []
    if h.speeds != {1}:
        raise RuntimeError("the device's speed signal took the values %r; the composition is configured for FULL (1)" % sorted(h.speeds))
    for t, (i, o) in enumerate(zip(inputs, outputs)):
        if o[0] and i[0] and len(fails) < 3:
            fails.append({"cycle": t, "sig": "c20-tx-during-rx", "what": "tx_valid while rx_active at cycle %d" % t})
        if o[2] and o[3] and len(fails) < 3:
            fails.append({"cycle": t, "sig": "c20-mixed-sources", "what": "handshake generator and data generator both valid at cycle %d" % t})
        if i[5] or i[6] or i[7]:
            tags.add("cyc:hs-request")
        if o[3]:
            tags.add("cyc:data-tx")
        if o[2]:
            tags.add("cyc:hs-tx")
        if i[13]:
            tags.add("cyc:ep-timer-start")
        if o[16]:
            tags.add("cyc:rx-ready")
        if o[10]:
            tags.add("cyc:tok-ready")
    tags.add("mode:cyc")
    ni, no = CY.names(h)
    for kind, num, _ in h.slots:
        tags.add("cyc:slot-%s" % ("ctl", "in", "out")[kind])
    return Case(CY.cfg_ints(h), inputs, outputs, fails, sorted(tags), d, ni, no)


# ----------------------------------------------------------------------------- the closed cycle-level device
def make_det_spec(rng):
    """Device layouts the closed model `DevDet` has: standard handlers only, one bulk IN, one bulk OUT, one status endpoint."""
    shape = rng.weighted([(4, "std"), (2, "long"), (1, "sparse")])
    eps = rng.weighted([(6, FULL_EPS), (2, [["in", 1, 32], ["out", 1, 32], ["sig", 4, 8]]),
                        (1, [["in", 5, 8], ["out", 6, 8, 20], ["sig", 7, 24]])])
    return {"shape": shape, "desc": DH.descriptor_table(shape, rng), "eps": eps, "handlers": []}


def run_det(desc):
    """The real full device, cycle by cycle, against the CLOSED model `DevDet` (no endpoint output is fed to the model)."""
    rng = Rng(desc["seed"])
    tags = set()
    spec = desc.get("spec") or make_det_spec(rng.fork("spec"))
    h = DT.DetHarness(spec, rng.fork("timing"))
    # as in run_cyc a replay re-runs the adaptive host from seed + spec
    host = X.FullHost(rng.fork("host"), spec, "c07", tags)

    def script(_h):
        return host.script(desc["steps"])
    d = dict(desc)
    d["spec"] = spec
    log, hung = X.run_guarded(h, script)
    if hung is not None:
        return X.hang_case(X.cfg_ints_full(spec), h, hung, d, tags)
    if h.speeds != {1}:
        raise RuntimeError("the device's speed signal took the values %r; the composition is configured for FULL (1)" % sorted(h.speeds))
    inputs, outputs = DT.rows(h, mask_payload=False)
    fails = []
    col = {n: k for k, n in enumerate(DT.NAMES_OUT)}
    for t, (i, o) in enumerate(zip(inputs, outputs)):
        if o[0] and i[0] and len(fails) < 3:
            fails.append({"cycle": t, "sig": "c20-tx-during-rx", "what": "tx_valid while rx_active at cycle %d" % t})
        if o[2] and o[3] and len(fails) < 3:
            fails.append({"cycle": t, "sig": "c20-mixed-sources", "what": "handshake generator and data generator both valid at cycle %d" % t})
        for n in ("ctl_ack", "ctl_stall", "ctl_valid", "in_nak", "in_tx_valid", "out_ack", "out_nak", "sig_valid",
                  "dec_received", "dec_ack", "dec_new_packet", "det_ack"):
            if o[col[n]]:
                tags.add("det:" + n)
    tags.add("mode:det")
    tags.add("eps:" + "/".join("%s%d" % (e[0], e[1]) for e in spec["eps"]))
    return Case(DT.cfg_ints(h), inputs, outputs, fails, sorted(tags), d, DT.NAMES_IN, DT.NAMES_OUT)


def run_case(desc):
    if desc["mode"] == "mux":
        return run_mux(desc)
    if desc["mode"] == "det":
        return run_det(desc)
    if desc["mode"] == "cyc":
        return run_cyc(desc)
    return run_full(desc)
