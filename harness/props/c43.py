"""C43 — training ordered sets: TSEmitter / TSBurstDetector (luna/gateware/usb/usb3/link/ordered_sets.py)."""
from harness.common.framework import Case
from harness.common.rng import Rng
from harness.common import sim

PROP = "C43"
LEAN_MODULES = ["LunaVerif.Props.C43"]
DRIVER = "Driver/C43.lean"
REQUIRED_THEOREMS = ["emitter_burst_exact", "ts2_config_bits", "detector_language", "no_detect_on_other_data"]
RULE = ("detector: the four real sets (TSEQ/TS1/inverted TS1/TS2 with their real burst sizes and smaller ones) and random "
        "sets (2..5 words, repeated words, word0 == later word) x streams from the set grammar: sets back to back, "
        "separated by invalid cycles, by invalid+junk, by valid junk (count reset), gaps and mismatches inside a set, "
        "a first word arriving in the skipped cycle after a mismatch, random TS2 configuration halves; "
        "emitter: same sets x burst lengths 1..5/16 x start pulses/held start x ready patterns (always, random "
        "densities, stalls on the last word) x request bits")
ASSUMPTIONS = [
    "set words < 2^32, first_word_ctrl < 16, burst size >= 1, detector sets have >= 2 words (the class indexes word 1)",
    "with include_config the set's word 1 has a zero low half (true for TS2; otherwise it can never match)",
]
PARTIAL = ""

TSEQ = [0xC017FFBC, 0x02E7B214, 0x286E7282, 0xBF6DBEA6, 0x4A4A4A4A, 0x4A4A4A4A, 0x4A4A4A4A, 0x4A4A4A4A]
TS1 = [0xBCBCBCBC, 0x4A4A0000, 0x4A4A4A4A, 0x4A4A4A4A]
ITS1 = [0xBCBCBCBC, 0xB5B50000, 0xB5B5B5B5, 0xB5B5B5B5]
TS2 = [0xBCBCBCBC, 0x45450000, 0x45454545, 0x45454545]


def repo_sets():
    """The constants as the repo has them today (the harness' own copies above are cross-checked)."""
    from luna.gateware.usb.usb3.link import ordered_sets as o
    return {"TSEQ": list(o.TSEQ_SET_DATA), "TS1": list(o.TS1_SET_DATA), "ITS1": list(o.INVERTED_TS1_SET_DATA),
            "TS2": list(o.TS2_SET_DATA)}


def pick_config(rng, k, emitter):
    r = k % 8
    if r == 0:
        return {"name": "TSEQ", "set": TSEQ, "ctrl": 1, "n": rng.choice([1, 2, 3, 32] if not emitter else [1, 2, 5]),
                "cfg": 0}
    if r == 1:
        return {"name": "TS1", "set": TS1, "ctrl": 15, "n": rng.choice([8, 2, 1] if not emitter else [16, 3, 1]), "cfg": 0}
    if r == 2:
        return {"name": "ITS1", "set": ITS1, "ctrl": 15, "n": rng.choice([8, 3]), "cfg": 0}
    if r in (3, 4):
        return {"name": "TS2", "set": TS2, "ctrl": 15, "n": rng.choice([8, 2, 1] if not emitter else [16, 2, 1]), "cfg": 1}
    L = rng.range(1 if emitter else 2, 5)
    pool = [rng.bits(32) for _ in range(2)] + [0, 0xBCBCBCBC]
    words = [rng.choice(pool) if rng.chance(60) else rng.bits(32) for _ in range(L)]
    cfg = int(rng.chance(35))
    if cfg and L >= 2:
        words[1] &= 0xffff0000
    return {"name": "rnd", "set": words, "ctrl": rng.choice([0, 1, 15, rng.below(16)]), "n": rng.range(1, 5), "cfg": cfg}


def gen_cases(tier, rng):
    n = {"quick": 240, "widen": 600}.get(tier, 2400)
    out = []
    for k in range(n):
        out.append({"kind": "det", "seed": rng.u64(), "k": k})
    for k in range(n // 2):
        out.append({"kind": "emi", "seed": rng.u64(), "k": k})
    return out


# ------------------------------------------------------------------------------------------------ detector

def matches(conf, k, v, d, c):
    words = conf["set"]
    dm = (d & 0xffff0000) if (conf["cfg"] and k == 1) else d
    return bool(v) and dm == words[k] and c == (conf["ctrl"] if k == 0 else 0)


def det_stimulus(rng, conf, k):
    words, L, N = conf["set"], len(conf["set"]), conf["n"]
    total = max(260, min(1400, 3 * N * (L + 2) + 60))
    rows = [[rng.below(2), rng.bits(32), rng.below(16)] for _ in range(rng.range(0, 3))]
    noise = [0, 5, 12, 30][(k // 8) % 4]      # chance (percent) of a disturbance per decision point

    def wordrow(j):
        d = words[j]
        if conf["cfg"] and j == 1:
            d |= rng.choice([0, 0x100, 0x400, 0x800, 0xD00, rng.bits(16)])
        return [1, d, conf["ctrl"] if j == 0 else 0]

    def junk():
        c = rng.below(5)
        if c == 0:
            return [1, rng.bits(32), rng.below(16)]
        if c == 1:
            return [1, words[0], (conf["ctrl"] ^ rng.choice([1, 2, 4, 8]))]       # first word with wrong ctrl
        if c == 2:
            return [1, words[rng.below(L)], 0]
        if c == 3:
            return [1, words[0] ^ (1 << rng.below(32)), conf["ctrl"]]
        return [0, rng.choice([0, words[0], rng.bits(32)]), rng.choice([0, conf["ctrl"]])]

    while len(rows) < total:
        # one set, possibly disturbed
        for j in range(L):
            if j > 0:
                while rng.chance(noise):
                    rows.append([0, rng.choice([0, words[j], rng.bits(32)]), rng.below(16)])    # gap inside a set
                if rng.chance(noise // 3):
                    # mismatch inside the set; sometimes the offending word is itself a first word
                    rows.append(rng.choice([junk(), wordrow(0), [1, words[j], 1]]))
                    if rng.chance(50):
                        rows.append(wordrow(0))      # falls into the skipped NONE_DETECTED cycle
                    break
            rows.append(wordrow(j))
        else:
            # separator after a complete set
            c = rng.below(100)
            if c < 100 - 3 * noise:
                pass                                              # back to back
            elif c < 100 - 2 * noise:
                rows.extend([[0, rng.choice([0, words[0]]), rng.choice([0, conf["ctrl"]])]
                             for _ in range(rng.range(1, 3))])    # invalid cycles
            elif c < 100 - noise:
                rows.append([0, 0, 0])
                rows.extend(junk() for _ in range(rng.range(1, 4)))    # invalid then junk: count kept
            else:
                rows.append([1, rng.bits(32), 0])                 # valid junk right after the set: count reset
    return rows[:total]


class Nfa:
    """All parses of the history by the set grammar, a set being allowed to start anywhere:
    positions ('in', k) = k words of a set matched, ('between',) = after a complete set and >= 1 invalid cycle;
    n = complete sets chained before (capped)."""

    def __init__(self, conf):
        self.conf = conf
        self.L = len(conf["set"])
        self.cap = conf["n"]
        self.cur = set()

    def feed(self, v, d, c):
        conf, L = self.conf, self.L
        m0 = matches(conf, 0, v, d, c)
        new = set()
        if m0:
            new.add((("in", 1), 0))
        for (pos, n) in self.cur:
            if pos[0] == "in":
                k = pos[1]
                if k < L:
                    if not v:
                        new.add((pos, n))
                    elif matches(conf, k, v, d, c):
                        new.add((("in", k + 1), n))
                else:
                    n1 = min(n + 1, self.cap)
                    if m0:
                        new.add((("in", 1), n1))
                    elif not v:
                        new.add((("between",), n1))
            else:
                if m0:
                    new.add((("in", 1), n))
                else:
                    new.add((pos, n))
        self.cur = new

    def complete_sets(self):
        """max number of chained complete sets the history ends with (capped)"""
        best = 0
        for (pos, n) in self.cur:
            if pos == ("in", self.L):
                best = max(best, n + 1)
        return best


def det_monitor(conf, stim, rows):
    """Property: a pulse only when the history (up to two cycles before: the output is registered behind a one-cycle
    FSM state) ends with N chained well-formed sets; and, on a stream that follows the set grammar from a synchronised
    point, a pulse exactly after every N-th set, carrying the configuration bits of the set's word 1."""
    L, N = len(conf["set"]), conf["n"]
    fails = []
    nfa = Nfa(conf)
    ends = []          # ends[t] = max chained complete sets ending at cycle t
    # deterministic tracker of the well-formed language, rooted where the detector is known to wait with count 0:
    # one cycle after reset and two cycles after each departure from the language
    pos, n = None, 0
    resync_at = 1
    expect = {}        # cycle -> expected detected
    cfgbits = None
    for t, ((v, d, c), (det, hot, loop, scr)) in enumerate(zip(stim, rows)):
        want = expect.pop(t, None)
        if det:
            if t < 2 or ends[t - 2] < N:
                fails.append({"cycle": t, "sig": "detect-without-burst", "what":
                              "detected at cycle %d but the stream up to cycle %d does not end with %d well-formed "
                              "consecutive sets" % (t, t - 2, N)})
                break
            if want is not None and not want:
                fails.append({"cycle": t, "sig": "detect-extra", "what":
                              "detected at cycle %d after a set that is not the %d-th of its burst" % (t, N)})
                break
            if conf["cfg"] and cfgbits is not None and (hot, loop, scr) != cfgbits:
                fails.append({"cycle": t, "sig": "config-bits-wrong", "what":
                              "flags (hot_reset, loopback, no-scrambling)=%s at the detection, last set carried %s"
                              % ((hot, loop, scr), cfgbits)})
                break
        elif want:
            fails.append({"cycle": t, "sig": "detect-missed", "what":
                          "no detected pulse at cycle %d, two cycles after the %d-th consecutive well-formed set" % (t, N)})
            break
        nfa.feed(v, d, c)
        ends.append(nfa.complete_sets())
        # ---- tracker
        if pos is None:
            if t == resync_at:
                pos, n = ("between",), 0
                # the cycle itself is consumed as a 'between' cycle below
            else:
                continue
        m0 = matches(conf, 0, v, d, c)
        if pos == ("between",):
            if m0:
                pos = ("in", 1)
        else:
            k = pos[1]
            if k < L:
                if not v:
                    pass
                elif matches(conf, k, v, d, c):
                    pos = ("in", k + 1)
                    if k == 1 and conf["cfg"]:
                        cfgbits = ((d >> 8) & 1, (d >> 10) & 1, (d >> 11) & 1)
                    if k + 1 == L:
                        n += 1
                        expect[t + 2] = (n % N == 0)
                else:
                    pos, resync_at, cfgbits = None, t + 2, None
                    n = 0
            else:
                if m0:
                    pos = ("in", 1)
                elif not v:
                    pos = ("between",)
                else:
                    pos, resync_at, cfgbits = None, t + 2, None
                    n = 0
    return fails


def run_det(desc):
    from luna.gateware.usb.usb3.link.ordered_sets import TSBurstDetector
    rng = Rng(desc["seed"])
    conf = desc.get("conf") or pick_config(rng, desc.get("k", 0), False)
    desc = dict(desc, conf=conf)
    dut = TSBurstDetector(set_data=conf["set"], first_word_ctrl=conf["ctrl"], sets_in_burst=conf["n"],
                          include_config=bool(conf["cfg"]))
    stim = desc.get("stimulus") or det_stimulus(rng, conf, desc.get("k", 0))
    ins = [dut.sink.valid, dut.sink.data, dut.sink.ctrl]
    from amaranth import Const
    z = Const(0, 1)
    outs = [dut.detected] + ([dut.hot_reset, dut.loopback_requested, dut.scrambling_disabled] if conf["cfg"] else [z, z, z])
    rows = sim.run_cycles(dut, ins, outs, stim, domain="ss")
    fails = det_monitor(conf, stim, rows)
    nd = sum(r[0] for r in rows)
    tags = ["det:" + conf["name"], "det:N=%d" % conf["n"] if conf["n"] < 4 else "det:N>=4"]
    if nd:
        tags.append("det:detected")
    if nd >= 2:
        tags.append("det:detected-twice")
    if conf["cfg"] and any(r[1] or r[2] or r[3] for r in rows):
        tags.append("det:cfg-flags-set")
    return Case([0, conf["cfg"], conf["ctrl"], conf["n"]] + list(conf["set"]), stim, rows, fails, tags, desc,
                ["valid", "data", "ctrl"], ["detected", "hot_reset", "loopback_requested", "scrambling_disabled"])


# ------------------------------------------------------------------------------------------------- emitter

def emi_stimulus(rng, conf, k):
    L, T = len(conf["set"]), conf["n"]
    total = max(120, min(900, 3 * L * T + 60))
    mode = (k // 8) % 4
    rows = []
    start_hold = 0
    for t in range(total):
        if start_hold > 0:
            start_hold -= 1
            start = 1
        else:
            start = 0
            if mode == 0:
                start = int(rng.chance(1, max(2, L * T // 2 + 3)))
            elif mode == 1:
                if rng.chance(1, L * T + 5):
                    start_hold = rng.choice([L * T - 1, L * T, L * T + 1, 2 * L * T + 1, rng.range(1, 3 * L * T)])
            elif mode == 2:
                start = int(rng.chance(1, 6))
            else:
                start = int(t < total - 3 * L)
        ready = 1 if mode in (0, 3) and rng.chance(90) else int(rng.chance([100, 70, 40, 85][mode]))
        rows.append([start, ready, rng.below(2) if rng.chance(30) else 0, rng.below(2) if rng.chance(30) else 0,
                     rng.below(2) if rng.chance(30) else 0])
    return rows


def emi_monitor(conf, stim, rows):
    """Property: once started, exactly T consecutive sets of L words with the right data/ctrl/first/last (and the
    requested TS2 bits in word 1), `done` with the transfer of the last word of the burst only; silence otherwise."""
    words, L, T = conf["set"], len(conf["set"]), conf["n"]
    fails = []
    p = None        # words of the current burst already transferred (None = idle)
    for t, ((start, ready, hr, lb, ns), (valid, data, ctrl, first, last, done)) in enumerate(zip(stim, rows)):
        if p is None:
            if valid or done:
                fails.append({"cycle": t, "sig": "emit-while-idle", "what":
                              "valid=%d done=%d at cycle %d although no burst is in progress" % (valid, done, t)})
                break
            if start:
                p = 0
            continue
        j = p % L
        wd = words[j]
        if conf["cfg"] and j == 1:
            wd |= (hr << 8) | (lb << 10) | (ns << 11)
        want = (1, wd, conf["ctrl"] if j == 0 else 0, int(j == 0), int(j == L - 1), int(bool(ready) and p == L * T - 1))
        if (valid, data, ctrl, first, last, done) != want:
            sig = "emit-config-bits" if (conf["cfg"] and j == 1 and (valid, ctrl, first, last, done) ==
                                         (want[0],) + want[2:]) else \
                  ("emit-done-wrong" if (valid, data, ctrl, first, last) == want[:5] else "emit-word-wrong")
            fails.append({"cycle": t, "sig": sig, "what":
                          "word %d of set %d of the burst: (valid,data,ctrl,first,last,done)=%s, required %s"
                          % (j, p // L, (valid, hex(data), ctrl, first, last, done),
                             (want[0], hex(want[1])) + want[2:])})
            break
        if ready:
            p += 1
            if p == L * T:
                p = 0 if start else None
    return fails


def run_emi(desc):
    from luna.gateware.usb.usb3.link.ordered_sets import TSEmitter
    rng = Rng(desc["seed"])
    conf = desc.get("conf") or pick_config(rng, desc.get("k", 0), True)
    desc = dict(desc, conf=conf)
    dut = TSEmitter(set_data=conf["set"], first_word_ctrl=conf["ctrl"], transmit_burst_length=conf["n"],
                    include_config=bool(conf["cfg"]))
    stim = desc.get("stimulus") or emi_stimulus(rng, conf, desc.get("k", 0))
    from amaranth import Signal
    d = [Signal(name="unused_hr"), Signal(name="unused_lb"), Signal(name="unused_ns")]
    cfgin = [dut.request_hot_reset, dut.request_loopback, dut.request_no_scrambling] if conf["cfg"] else d
    ins = [dut.start, dut.source.ready] + cfgin
    outs = [dut.source.valid, dut.source.data, dut.source.ctrl, dut.source.first, dut.source.last, dut.done]
    rows = sim.run_cycles(dut, ins, outs, stim, domain="ss")
    fails = emi_monitor(conf, stim, rows)
    nd = sum(r[5] for r in rows)
    tags = ["emi:" + conf["name"], "emi:T=%d" % conf["n"] if conf["n"] < 4 else "emi:T>=4", "emi:L=%d" % len(conf["set"])]
    if nd:
        tags.append("emi:done")
    if nd >= 2:
        tags.append("emi:done-twice")
    if any(r[0] and not s[1] for r, s in zip(rows, stim)):
        tags.append("emi:stalled")
    return Case([1, conf["cfg"], conf["ctrl"], conf["n"]] + list(conf["set"]), stim, rows, fails, tags, desc,
                ["start", "ready", "hr", "lb", "ns"], ["valid", "data", "ctrl", "first", "last", "done"])


def run_case(desc):
    return run_emi(desc) if desc.get("kind") == "emi" else run_det(desc)


def extra_checks(tier, rng, proof):
    """The set constants the Lean theorems are instantiated with (`Props/C43.lean`) are the repo's."""
    rs = repo_sets()
    mine = {"TSEQ": TSEQ, "TS1": TS1, "ITS1": ITS1, "TS2": TS2}
    fails = []
    for k in mine:
        if rs[k] != mine[k]:
            fails.append({"sig": "set-constant-changed", "what": "%s in ordered_sets.py is %s, the training set of "
                          "USB 3.2 table 6-x is %s" % (k, [hex(x) for x in rs[k]], [hex(x) for x in mine[k]]),
                          "desc": {"kind": "const", "name": k}})
    return {"repo_sets_equal_reference": not fails, "failures": fails}
