"""C17 — status IN endpoint (luna/gateware/usb/usb2/endpoints/status.py: USBSignalInEndpoint).

The real endpoint is simulated standalone; a closed-loop host agent drives its EndpointInterface
(token fields, ready_for_response, new_token, handshakes_in.ack, tx.ready) and the monitored signal
changes in every cycle.  The monitor is a host-view reading of the property (packets, the request that
caused them, ACK acceptance), written independently of the Lean model.
"""
from harness.common.framework import Case
from harness.common.rng import Rng
from harness.props import in_util

PROP = "C17"
LEAN_MODULES = ["LunaVerif.Props.C17"]
DRIVER = "Driver/C17.lean"
REQUIRED_THEOREMS = ["poll_returns_sampled_value", "retry_same_value_and_toggle",
                     "toggle_advances_only_on_ack", "serialise_decodes"]
RULE = ("cases = (width in {1,7,8,9,16,24,33,...}, endianness, endpoint number, signal_domain) x host script; "
        "host scripts: closed-loop IN polls of this/another endpoint with ACK / no ACK / late ACK / duplicate ACK, "
        "tx.ready densities 5..100%, signal re-randomised every cycle; plus per-cycle random ('chaos') input streams; "
        "plus a few streams outside the environment assumption (ack and new_token in one cycle) compared with the "
        "model only")
ASSUMPTIONS = ["width >= 1",
               "modelled code = repaired code: WAIT_FOR_ACK takes handshakes_in.ack only while the tokenizer shows an "
               "IN token for this endpoint (/repo 51520eb); ClearFeature(ENDPOINT_HALT) naming this IN endpoint resets the "
               "toggle to DATA0 in every state (/repo 61d16f5)",
               "handshakes_in.ack and tokenizer.new_token are never high in the same cycle (they are decoded "
               "from different packets of one receive stream); the model still mirrors the gateware there"]
PARTIAL = ""

NAMES_IN = ["endpoint", "is_in", "ready_for_response", "new_token", "ack", "tx_ready", "signal", "clear_halt",
            "(halt_enable)", "(halt_direction)", "(halt_number)"]
NAMES_OUT = ["tx_valid", "tx_first", "tx_last", "tx_payload", "tx_pid_toggle", "status_read_complete"]
WIDTHS_Q = [1, 7, 8, 9, 16, 24, 33]
WIDTHS_T = [1, 2, 7, 8, 9, 15, 16, 17, 24, 31, 32, 33, 40, 48, 56, 57, 63, 64]


def gen_cases(tier, rng):
    widths = WIDTHS_Q if tier == "quick" else WIDTHS_T
    per = {"quick": 5, "widen": 12}.get(tier, 16)
    out = []
    for w in widths:
        for big in (0, 1):
            for k in range(per):
                mode = "chaos" if k % 5 == 3 else ("illegal" if k % 5 == 4 and k < 10 else "host")
                out.append({"width": w, "big": big, "ep": rng.range(1, 15), "mode": mode,
                            "cdc": 1 if (k == 2) else 0, "cycles": 500 if tier == "quick" else 900,
                            "seed": rng.u64()})
    return out


class Host:
    """Closed-loop host + PHY-ready + signal source."""

    def __init__(self, rng, width, ep, mode):
        self.r, self.w, self.ep, self.mode = rng, width, ep, mode
        self.phase, self.cnt = "gap", rng.range(0, 5)
        self.endpoint, self.is_in = 0, 0
        self.ready_p = rng.choice([100, 100, 80, 50, 20, 5])
        self.p = rng.choice([3, 10, 30, 60])
        self.last_ready = 0
        self.plan = None

    def halt(self):
        """clear_endpoint_halt_in (enable, direction, number): mostly quiet; strobes for this IN endpoint, for the
        OUT direction, and for other endpoint numbers."""
        r = self.r
        if not r.chance(12, 1000):
            return [0, r.below(2), r.below(16)]
        k = r.below(4)
        if k <= 1:
            return [1, 1, self.ep]
        if k == 2:
            return [1, 0, self.ep]
        return [1, 1, (self.ep + r.range(1, 15)) % 16]

    def signal(self):
        k = self.r.below(16)
        if k == 0:
            return 0
        if k == 1:
            return (1 << self.w) - 1
        return self.r.bits(self.w)

    def __call__(self, t, prev):
        r = self.r
        if self.mode in ("chaos", "illegal"):
            p = self.p
            nt = int(r.chance(p))
            ack = int(r.chance(p))
            if self.mode == "chaos" and nt and ack:
                ack = 0
            if r.chance(20):
                self.endpoint = self.ep if r.chance(80) else (self.ep + 1) % 16
                self.is_in = int(r.chance(85))
            row = [self.endpoint, self.is_in, int(r.chance(max(p, 20))), nt, ack,
                   int(r.chance(self.ready_p)), self.signal()] + self.halt()
            return row
        nt = rfr = ack = 0
        pv = prev or (0, 0, 0, 0, 0, 0)
        valid, last = pv[0], pv[2]
        if self.phase == "gap":
            if r.chance(2):
                ack = 1                        # stray handshake (belongs to some other endpoint's transfer)
            if self.cnt <= 0:
                self.endpoint = self.ep if r.chance(85) else (self.ep + r.range(1, 15)) % 16
                self.is_in = int(r.chance(92))
                nt, ack = 1, 0
                self.phase, self.cnt = "rfr", r.range(1, 6)
            else:
                self.cnt -= 1
        elif self.phase == "rfr":
            self.cnt -= 1
            if self.cnt <= 0:
                rfr = 1
                self.phase, self.cnt = "resp", 3
        elif self.phase == "resp":
            if valid:
                self.phase = "pkt"
            else:
                self.cnt -= 1
                if self.cnt <= 0:
                    self.phase, self.cnt = "gap", r.range(0, 8)
        if self.phase == "pkt":
            if valid and last and self.last_ready:
                self.plan = r.weighted([(54, "ack"), (18, "none"), (6, "ack2"), (6, "late"), (6, "ackgap"),
                                        (10, "foreign")])
                self.phase, self.cnt = "post", r.range(0, 5)
            elif r.chance(2):
                rfr = 1                        # requests while transmitting are ignored
            elif r.chance(1):
                nt = 1
        elif self.phase == "post":
            if self.cnt > 0:
                self.cnt -= 1
            else:
                if self.plan in ("ack", "ack2", "ackgap"):
                    ack = 1
                    if self.plan == "ack2":
                        self.plan = "ack"
                        self.cnt = r.range(0, 2)
                    else:
                        self.phase, self.cnt = "gap", (0 if self.plan == "ackgap" else r.range(0, 8))
                elif self.plan == "foreign":   # a transaction of ANOTHER device: its token is address-filtered
                    # (tokenizer pid cleared, no new_token strobe), its ACK is broadcast and must be ignored
                    if r.chance(50):
                        self.is_in = 0
                    else:
                        self.endpoint = (self.ep + r.range(1, 15)) % 16
                    self.plan = "foreign2"
                    self.cnt = r.range(0, 4)
                elif self.plan == "foreign2":
                    ack = 1
                    self.phase, self.cnt = "gap", r.range(0, 8)
                elif self.plan == "late":      # the ACK arrives after the next token: must be ignored
                    nt = 1
                    self.plan = "ack"
                    self.cnt = r.range(0, 3)
                else:
                    self.phase, self.cnt = "gap", r.range(0, 8)
        ready = int(r.chance(self.ready_p))
        self.last_ready = ready
        return [self.endpoint, self.is_in, rfr, nt, ack, ready, self.signal()] + self.halt()


def serialise(v, width, big):
    n = (width + 7) // 8
    return list((v & ((1 << width) - 1)).to_bytes(n, "big" if big else "little"))


def monitor(width, big, ep, stim, rows):
    """C17 read from the host's side, on the real trace.  A poll is *fresh* when the previous one was
    acknowledged (or there was none); its value is the signal in the cycle of the request.  After a
    complete packet the host may ACK (accepted only before the next token), or send a new token and
    request again, which must repeat value and toggle."""
    fails, tags = [], set()
    n = (width + 7) // 8

    def fail(t, sig, what):
        if not fails:
            fails.append({"cycle": t, "sig": sig, "what": "width=%d big=%d: %s" % (width, big, what)})

    completes, phase, value, k = 0, "fresh", None, 0
    exp_toggle = 0
    for t, (i, o) in enumerate(zip(stim, rows)):
        endpoint, is_in, rfr, nt, ack, ready, sig, clear_halt = i[:8]
        valid, first, last, payload, toggle, complete = o
        req = endpoint == ep and is_in and rfr
        if toggle != exp_toggle:
            fail(t, "toggle-vs-acks", "tx_pid_toggle=%d, expected %d (%d acknowledged polls, halt clears reset it to 0)"
                 % (toggle, exp_toggle, completes))
        if complete:
            exp_toggle ^= 1
        if clear_halt:                     # ClearFeature(ENDPOINT_HALT) for this IN endpoint: DATA0 next, wins over an ACK
            exp_toggle = 0
            tags.add("halt-clear-in-" + phase)
        if phase == "sending":
            want = serialise(value, width, big)
            if not valid:
                fail(t, "valid-dropped", "tx.valid is low after %d of %d bytes" % (k, n))
            elif payload != want[k]:
                fail(t, "wrong-byte", "byte %d of the response is 0x%02x; the value sampled at the request "
                     "(0x%x) serialises to %s" % (k, payload, value, want))
            elif first != int(k == 0) or last != int(k == n - 1):
                fail(t, "first-last", "first=%d last=%d at byte %d of %d" % (first, last, k, n))
            if complete:
                fail(t, "complete-unexpected", "status_read_complete during a transmission")
            if ready:
                k += 1
                if k == n:
                    phase = "sent"
                    tags.add("packet-sent")
        else:
            if valid:
                fail(t, "unsolicited-packet", "tx.valid high in phase %s" % phase)
            if phase == "sent":
                # host handshakes are broadcast: only an ACK received while the tokenizer still shows an
                # IN token for this endpoint belongs to this poll
                mine = int(bool(ack and endpoint == ep and is_in))
                if ack and not mine:
                    tags.add("foreign-ack-ignored")
                if complete != mine:
                    fail(t, "complete-vs-ack", "status_read_complete=%d with ack=%d (endpoint=%d is_in=%d) right "
                         "after the packet" % (complete, ack, endpoint, is_in))
                if mine:
                    completes += 1
                    phase = "fresh"
                    tags.add("acked")
                elif nt:
                    phase = "armed"
                    tags.add("token-without-ack")
                elif req:
                    tags.add("request-before-token-ignored")
            else:
                if complete:
                    fail(t, "complete-unexpected", "status_read_complete=1 in phase %s (ack=%d)" % (phase, ack))
                if ack:
                    tags.add("ack-ignored-" + phase)
                if req:
                    if phase == "fresh":
                        value = sig & ((1 << width) - 1)
                        tags.add("fresh-poll")
                    else:
                        tags.add("retry")
                    phase, k = "sending", 0
        if fails:
            break
    tags.add("completes>=2" if completes >= 2 else "completes<2")
    return fails, sorted(tags)


def run_case(desc):
    from luna.gateware.usb.usb2.endpoints.status import USBSignalInEndpoint
    w, big, ep = desc["width"], bool(desc["big"]), desc["ep"]
    dut = USBSignalInEndpoint(width=w, endpoint_number=ep, endianness="big" if big else "little",
                              signal_domain="sync" if desc.get("cdc") and w == 1 else "usb")
    itf = dut.interface
    ch = itf.clear_endpoint_halt_in
    ins = [itf.tokenizer.endpoint, itf.tokenizer.is_in, itf.tokenizer.ready_for_response,
           itf.tokenizer.new_token, itf.handshakes_in.ack, itf.tx.ready, dut.signal, ch.enable, ch.direction, ch.number]
    outs = [itf.tx.valid, itf.tx.first, itf.tx.last, itf.tx.payload, itf.tx_pid_toggle,
            dut.status_read_complete]
    mode = desc.get("mode", "host")
    if desc.get("stimulus"):      # replay rows are in the model's format: 7 ports, clear_halt, then the 3 raw halt ports
        desc = dict(desc)
        desc["stimulus"] = [list(r[:7]) + (list(r[8:11]) if len(r) >= 11 else [0, 0, 0]) for r in desc["stimulus"]]
    raw, rows = in_util.run(dut, ins, outs, desc, lambda: Host(Rng(desc["seed"]), w, ep, mode),
                            desc.get("cycles", 500))
    stim = [list(r[:7]) + [int(bool(r[7] and r[8] and r[9] == ep))] + list(r[7:10]) for r in raw]
    legal = all(not (r[3] and r[4]) for r in stim)
    fails, tags = monitor(w, big, ep, stim, rows) if legal else ([], ["env-illegal"])
    tags += ["mode=" + mode, "bytes=%d" % ((w + 7) // 8) if w <= 16 else "bytes>2", "big=%d" % big]
    outputs = [[o[0], o[1], o[2], (o[3] if o[0] else None), o[4], o[5]] for o in rows]
    return Case([w, int(big), ep], stim, outputs, fails, tags, desc, NAMES_IN, NAMES_OUT)
