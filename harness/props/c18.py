"""C18 — TransactionalizedFIFO (luna/gateware/memory.py) behaves as a commit/rollback queue."""
from harness.common.framework import Case
from harness.common.rng import Rng
from harness.common import sim

PROP = "C18"
LEAN_MODULES = ["LunaVerif.Props.C18"]
DRIVER = "Driver/C18.lean"
REQUIRED_THEOREMS = ["fifo_refines_queue", "rel_step", "write_commit_and_discard_swaps",
                     "read_commit_and_discard_swaps", "write_commit_and_discard_breaks_queue",
                     "queue_conserves"]
RULE = ("cases = (depth, width) x stimulus mode; modes: uniformly random control bits (includes commit&discard "
        "in one cycle: model comparison only after the first such cycle), uniformly random legal combinations, "
        "long fills / drains with wrap-around and uncommitted data, packet-like transactions with commits, "
        "discards and re-reads, simultaneous en+commit / en+discard bursts")
ASSUMPTIONS = ["per cycle and per side, commit and discard are not asserted together (the coded meaning of the "
               "combination -- the two pointers swap -- is proved separately and breaks the queue reading)",
               "memory read port = Amaranth 0.5.9 synchronous non-transparent port (checked by the co-simulation)"]
PARTIAL = ""
KNOWN_SIGS = {}

DEPTHS = [1, 2, 3, 4, 7, 8, 127]
WIDTHS = [1, 8, 10]
MODES = ["uniform", "legal", "fill", "packets", "simul"]


def gen_cases(tier, rng):
    reps = {"quick": 1, "widen": 3}.get(tier, 6)
    out = []
    for d in DEPTHS:
        for w in WIDTHS:
            for mode in MODES:
                for k in range(reps):
                    out.append({"depth": d, "width": w, "mode": mode, "seed": rng.u64()})
    return out


def make_stimulus(depth, width, mode, rng):
    L = min(3000, 60 * depth + 400)
    mask = (1 << width) - 1
    ctr = [rng.below(mask + 1)]
    counting = rng.chance(50)

    def data():
        if counting:
            ctr[0] = (ctr[0] + 1) & mask
            return ctr[0]
        return rng.bits(width)

    rows = []
    if mode == "uniform":
        for _ in range(L):
            rows.append([data()] + [rng.below(2) for _ in range(6)])
    elif mode == "legal":
        pw, pr = rng.choice([20, 50, 80]), rng.choice([20, 50, 80])
        for _ in range(L):
            wc, wd = rng.choice([(0, 0), (0, 0), (1, 0), (0, 1)])
            rc, rd = rng.choice([(0, 0), (0, 0), (1, 0), (0, 1)])
            rows.append([data(), int(rng.chance(pw)), wc, wd, int(rng.chance(pr)), rc, rd])
    elif mode == "fill":
        # long fills beyond full, late commits, drains beyond empty, pointer wrap with uncommitted data
        while len(rows) < L:
            n = rng.range(1, 2 * depth + 3)
            simul = rng.chance(30)
            for k in range(n):
                rows.append([data(), 1, 0, 0, int(simul and rng.chance(50)), int(rng.chance(30)), 0])
            what = rng.below(4)
            if what == 0:
                rows.append([data(), rng.below(2), 1, 0, 0, 0, 0])
            elif what == 1:
                rows.append([data(), rng.below(2), 0, 1, 0, 0, 0])
            elif what == 2:
                rows.append([data(), 0, 1, 0, 0, 0, 0])
                for k in range(rng.range(0, 2)):
                    rows.append([data(), 0, 0, 0, 0, 0, 0])
            n = rng.range(0, depth + 3)
            rc = int(rng.chance(60))
            for k in range(n):
                rows.append([data(), int(rng.chance(20)), 0, 0, 1, rc, 0])
            if rng.chance(40):
                rows.append([data(), 0, 0, 0, rng.below(2), 0, 1])
            if rng.chance(60):
                rows.append([data(), 0, int(rng.chance(30)), 0, 0, 1, 0])
    elif mode == "packets":
        # writer: packets of 0..depth entries ended by commit or discard; reader: bursts ended by commit/discard
        wleft, rleft = 0, 0
        for _ in range(L):
            wen = wc = wd = ren = rc = rd = 0
            if wleft > 0:
                wen = int(rng.chance(85))
                wleft -= wen
            else:
                if rng.chance(70):
                    wc, wd = (1, 0) if rng.chance(70) else (0, 1)
                    wleft = rng.range(0, depth + 1)
                    wen = int(rng.chance(25))         # en together with commit/discard
            if rleft > 0:
                ren = int(rng.chance(85))
                rleft -= ren
            else:
                if rng.chance(60):
                    rc, rd = (1, 0) if rng.chance(60) else (0, 1)
                    rleft = rng.range(0, depth + 1)
                    ren = int(rng.chance(25))
            rows.append([data(), wen, wc, wd, ren, rc, rd])
    else:  # simul: en together with commit/discard most of the time, both sides busy
        for _ in range(L):
            wc, wd = rng.choice([(1, 0), (1, 0), (0, 1), (0, 0)])
            rc, rd = rng.choice([(1, 0), (1, 0), (0, 1), (0, 0), (0, 0)])
            rows.append([data(), int(rng.chance(90)), wc, wd, int(rng.chance(70)), rc, rd])
    return rows[:L]


def monitor(depth, stim, rows):
    """The property, stated on the real trace with a plain Python commit/rollback queue (independent of
    the Lean model).  Stops at the first cycle that asserts commit and discard together on one side."""
    fails, tags = [], set()
    R, C, W = [], [], []              # read-not-finalised, committed-unread, written-uncommitted
    committed, finalised, pending = [], [], []      # conservation bookkeeping on OBSERVED reads
    prev_rdiscard = False
    for t, (inp, out) in enumerate(zip(stim, rows)):
        wdata, wen, wc, wd, ren, rc, rd = inp
        rdata, empty, full, space = out
        held = len(R) + len(C) + len(W)
        exp = {"empty": int(not C), "full": int(held == depth), "space": depth - held}
        got = {"empty": empty, "full": full, "space": space}
        for k in ("empty", "full", "space"):
            if exp[k] != got[k]:
                fails.append({"cycle": t, "sig": "fifo-" + k, "what":
                              "depth %d: %s=%d at cycle %d, the queue (R=%d C=%d W=%d entries) requires %d"
                              % (depth, k, got[k], t, len(R), len(C), len(W), exp[k])})
        if C and rdata != C[0]:
            sig = "read-data-stale-after-read-discard" if prev_rdiscard else "fifo-read-data"
            fails.append({"cycle": t, "sig": sig, "what":
                          "depth %d: read_data=%d at cycle %d with empty=0, but the oldest unread committed entry is %d%s"
                          % (depth, rdata, t, C[0], " (cycle after a read_discard)" if prev_rdiscard else "")})
        if fails:
            break
        if (wc and wd) or (rc and rd):
            tags.add("commit&discard (monitor stops)")
            break
        do_w = wen and not full
        do_r = ren and not empty
        # conservation, from the observed outputs only
        if rd:
            pending = []
        else:
            if rc:
                finalised.extend(pending)
                pending = []
            if do_r:
                pending.append(rdata)
        # tags
        if wen and full: tags.add("write-while-full")
        if ren and empty: tags.add("read-while-empty")
        if do_w and wc: tags.add("en+write_commit")
        if do_w and wd: tags.add("en+write_discard")
        if do_r and rc: tags.add("en+read_commit")
        if do_r and rd: tags.add("en+read_discard")
        if rd and R: tags.add("read-discard-undoes-reads")
        if wd and W: tags.add("write-discard-erases")
        if full and not C and not R: tags.add("full-of-uncommitted")
        if full: tags.add("full")
        # queue step
        if rd:
            C = R + C
            R = []
        else:
            if rc:
                R = []
            if do_r:
                R = R + [C[0]]
                C = C[1:]
        if wd:
            W = []
        else:
            if wc:
                C = C + W
                committed.extend(W)
                W = []
            if do_w:
                W = W + [wdata]
        if finalised != committed[:len(finalised)]:
            fails.append({"cycle": t, "sig": "fifo-conservation", "what":
                          "depth %d: the finalised reads are not a prefix of the committed writes at cycle %d" % (depth, t)})
            break
        prev_rdiscard = bool(rd)
    return fails, tags


def run_case(desc):
    from luna.gateware.memory import TransactionalizedFIFO
    depth, width = desc["depth"], desc["width"]
    d = TransactionalizedFIFO(width=width, depth=depth, name="fifo")
    stim = desc.get("stimulus") or make_stimulus(depth, width, desc.get("mode", "uniform"), Rng(desc["seed"]))
    ins = [d.write_data, d.write_en, d.write_commit, d.write_discard, d.read_en, d.read_commit, d.read_discard]
    outs = [d.read_data, d.empty, d.full, d.space_available]
    rows = sim.run_cycles(d, ins, outs, stim)
    fails, tags = monitor(depth, stim, rows)
    # read_data is compared with the model in every cycle (also while empty): the model has the register
    tags = sorted(tags) + ["depth=%d" % depth, "width=%d" % width, "mode=" + desc.get("mode", "replay")]
    return Case([depth, width], stim, rows, fails, tags, desc,
                ["write_data", "write_en", "write_commit", "write_discard", "read_en", "read_commit", "read_discard"],
                ["read_data", "empty", "full", "space_available"])
