"""C14 — data toggles advance only on success and reset on CLEAR_FEATURE(ENDPOINT_HALT).

Cases (Lean models in Driver/EpDev.lean, shared with C12):

  dev   the REAL `USBDevice` (control + 2 stream IN + 2 stream OUT + status endpoint) under the adaptive legal
        host of harness/props/ep_util.py in its "c14" profile: CLEAR_FEATURE(ENDPOINT_HALT) for every
        (number, direction) — existing, not existing, reserved wIndex bits set — at random points of IN/OUT
        transfers (un-ACKed packet pending, ZLP pending, buffers full, toggles 0/1), stalled CLEAR_FEATUREs,
        lost status ACKs, abandoned requests; compared event by event with `EpDev.step`.
        MONITOR (host-side bookkeeping only, independent of the Lean model): every DATA packet of an IN
        endpoint carries the PID the host expects (flips exactly on the host's ACK, DATA0 after a completed
        CLEAR_FEATURE(ENDPOINT_HALT) naming that endpoint, unchanged by one naming another); an OUT endpoint
        ACKs-and-accepts the expected PID, ACKs-and-drops the other one (checked on the consumed bytes), and
        expects DATA0 after a completed halt-clear naming it.
  f8    monitor-only, directed: the host's ACK that completes CLEAR_FEATURE(ENDPOINT_HALT) arrives while the
        producer hands over the byte that completes a packet (`reset_sequence` in the same cycle as
        `packet_ready`, every offset swept); the next packet must be DATA0.
  gate  the real `USBStreamInEndpoint` cycle by cycle against `InGate.epStep` with frequent halt-clear strobes
        (own / other number, both directions) in every FSM state; monitor: packet-to-packet PID law on the
        observed `tx` stream and DATA0 after a strobe that arrives outside the endpoint's own transaction.
"""
from harness.common.framework import Case
from harness.common.rng import Rng
from harness.common import sim
from harness.common import devharness as DH
from harness.common import usbref as U
from harness.props import ep_util as E
from harness.props import c12 as C12

PROP = "C14"
LEAN_MODULES = ["LunaVerif.Props.C14"] + C12.REFINE_MODULES     # the cycle -> event refinement lemmas (toggles incl.)
DRIVER = E.DRIVER
REQUIRED_THEOREMS = ["in_toggle_advances_iff_acked", "out_toggle_advances_iff_acked_new_data",
                     "clear_halt_resets_exactly_named_endpoint", "clear_halt_next_packet_is_data0",
                     "sig_toggle_advances_iff_acked", "strobe_only_after_zlp", "clear_halt_resets_out_toggle"]
RULE = ("dev: adaptive legal host with CLEAR_FEATURE(ENDPOINT_HALT) for every (number, direction) at random points "
        "of IN/OUT transfers on a random 5-endpoint layout; f8: directed sweep of the producer's completing byte over "
        "the cycles of the status-stage ACK; gate: random per-cycle interface activity with frequent halt-clear "
        "strobes; evaluations = host events (dev, f8) or clock cycles (gate)")
ASSUMPTIONS = [
    "LegalHost (EpDev.LegalHost): a host handshake only directly after a DATA packet of this device; OUT packets fit "
    "the endpoint's max packet size and FIFO",
    "the application does not assert `discard` on a stream IN endpoint (a discarded un-ACKed packet advances the toggle by design)",
    "a host ACK and a new token never end in the same clock cycle",
    "the halt-clear strobe reaches an IN endpoint outside its own transaction (it is caused by an ACK on endpoint 0, "
    "which a token precedes): WAIT_FOR_DATA or WAIT_TO_SEND",
]
PARTIAL = ("the transaction-level theorems are tied to the cycle-level models by refinement lemmas per endpoint kind "
           "(sig_cycle_refines_event/_run, in_cycle_refines_event/_run: toggle advance on the gated ACK, halt-clear reset "
           "incl. WAIT_TO_SEND; out_cycle_refines_event/_run: expected toggle advances exactly on an ACKed packet with the "
           "expected toggle, halt-clear reset with the status-stage ACK), each under its environment hypotheses (stream "
           "events between transactions; OUT: packets addressed to the endpoint no longer than its max packet size and "
           "fitting its FIFO, bus packets of other transactions of any length); the lemmas are "
           "per endpoint, not composed into one cycle-level whole-device statement")

I, O, P, S = U.PID_IN, U.PID_OUT, U.PID_PING, U.PID_SETUP
D0, D1, ACK = U.PID_DATA0, U.PID_DATA1, U.PID_ACK


def gen_cases(tier, rng):
    n_dev, n_gate, n_txn, f8 = {"quick": (8, 24, 130, 1), "widen": (16, 40, 180, 2)}.get(tier, (80, 200, 300, 6))
    out = []
    for k in range(n_dev):
        out.append({"kind": "dev", "seed": rng.u64(), "n_txn": n_txn, "k": k})
    for k in range(f8):
        out.append({"kind": "f8", "seed": rng.u64(), "k": k})
    for k in range(n_gate):
        out.append({"kind": "gate", "seed": rng.u64(), "mps": rng.choice([1, 2, 3, 4, 8, 64]), "ep": rng.range(1, 15),
                    "cycles": 1500 if tier == "quick" else 4000, "k": k})
    return out


# ----------------------------------------------------------------------------- the toggle monitor (real device)
def toggle_monitor(spec, events, results, fails, tags):
    kinds = {(e[0], e[1]) for e in spec["eps"]}
    in_exp = {e[1]: 0 for e in spec["eps"] if e[0] in ("in", "sig")}      # PID bit the host expects next (None = unknown)
    in_kind = {e[1]: e[0] for e in spec["eps"] if e[0] in ("in", "sig")}
    out_exp = {e[1]: 0 for e in spec["eps"] if e[0] == "out"}
    out_bytes = {e[1]: [] for e in spec["eps"] if e[0] == "out"}          # accepted and not yet consumed
    own = E.owners(spec, events, results)
    awaiting = None            # IN endpoint whose DATA packet was the previous event's response
    pending_clear = None       # wIndex of a CLEAR_FEATURE(ENDPOINT_HALT) whose SETUP stage was ACKed
    status_zlp = False         # previous event: IN token on endpoint 0 answered with DATA while a clear is pending
    last_setup = None

    def fail(i, sig, what):
        fails.append({"cycle": i, "sig": sig, "what": "event %d %r: %s" % (i, events[i][:4], what)})

    for i, (ev, r, o) in enumerate(zip(events, results, own)):
        k = ev[0]
        was_awaiting, awaiting = awaiting, None
        was_zlp, status_zlp = status_zlp, False
        if k == "tok":
            if ev[1] == S:
                pending_clear, last_setup = None, None
            if isinstance(o, tuple) and o[0] in ("in", "sig") and r.resp.is_data:
                n = o[1]
                bit = 1 if r.resp.pid == D1 else 0
                if r.resp.pid not in (D0, D1):
                    return fail(i, "c14-in-pid", "IN endpoint %d sent PID %#x" % (n, r.resp.pid))
                if in_exp[n] is None:
                    in_exp[n] = bit
                elif bit != in_exp[n]:
                    return fail(i, "c14-in-pid", "%s endpoint %d sent DATA%d but its toggle must be DATA%d (toggles advance "
                                "only on the host's ACK and reset on a completed CLEAR_FEATURE(ENDPOINT_HALT) naming it)"
                                % (in_kind[n], n, bit, in_exp[n]))
                awaiting = n
                tags.add("c14:in-data%d" % bit)
            if o == "ctl" and ev[1] == I and r.resp.is_data and pending_clear is not None:
                status_zlp = True
        elif k == "data":
            if o == "ctl" and events[i - 1][0] == "tok" and events[i - 1][1] == S and r.resp.is_hs(ACK) and ev[3]:
                su = ev[2]
                if len(su) == 8 and su[0] == 0x02 and su[1] == 1 and su[2] == 0 and su[3] == 0 and su[6] == 0 and su[7] == 0:
                    pending_clear = su[4] | (su[5] << 8)
            if isinstance(o, tuple) and o[0] == "out" and events[i - 1][0] == "tok" and events[i - 1][1] == O:
                n = o[1]
                bit = (ev[1] >> 3) & 1
                if not ev[3]:
                    if not r.resp.is_none:
                        return fail(i, "c14-out-answer-to-corrupted", "a corrupted data packet was answered %r" % r.resp)
                elif not r.resp.is_hs(ACK):
                    return fail(i, "c14-out-no-ack", "a good data packet that fits into the FIFO was answered %r" % r.resp)
                elif bit == out_exp[n]:
                    out_bytes[n] += list(ev[2])
                    out_exp[n] ^= 1
                    tags.add("c14:out-accept")
                else:
                    tags.add("c14:out-drop")
        elif k in ("hs", "hs+produce"):
            if ev[1] == ACK and was_awaiting is not None:
                in_exp[was_awaiting] = None if in_exp[was_awaiting] is None else in_exp[was_awaiting] ^ 1
            if ev[1] == ACK and was_zlp and pending_clear is not None:
                n, d_in = pending_clear & 0xF, bool(pending_clear & 0x80)
                tags.add("c14:halt-clear-" + ("named-existing" if (("in", n) in kinds and d_in) or (("out", n) in kinds and not d_in)
                                              or (("sig", n) in kinds and d_in) else "named-nobody"))
                if d_in and n in in_exp:
                    in_exp[n] = 0            # stream IN and status endpoints alike (fix 08e26ae for the latter)
                if not d_in and n in out_exp:
                    out_exp[n] = 0
                pending_clear = None
        elif k == "consume":
            n = ev[1]
            got = [b for (b, _f, _l) in r.delivered]
            want = out_bytes[n][:len(got)]
            if got != want or (len(got) < ev[2] and len(got) != len(out_bytes[n])):
                return fail(i, "c14-out-accept-vs-drop", "OUT endpoint %d delivered %r but the packets it had to accept (expected PID) "
                            "hold %r" % (n, got[:24], out_bytes[n][:24]))
            out_bytes[n] = out_bytes[n][len(got):]


def run_dev(desc):
    rng = Rng(desc["seed"])
    spec = desc.get("spec") or E.make_spec(rng.fork("spec"))
    h = E.EpHarness(spec, rng.fork("timing"))
    tags, fails = set(), []
    events, results = E.run_schedule(h, desc, rng, spec, "c14", tags, fails, "c14-babble")
    for i, r in enumerate(results):
        if r.resp.kind == DH.RESP_GARBAGE and not fails:
            fails.append({"cycle": i, "sig": "c14-garbage", "what": "event %d %r: malformed transmission %r" % (i, events[i], r.resp.packets)})
    if not fails:
        toggle_monitor(spec, events, results, fails, tags)
    ins, outs = E.case_rows(events, results)
    d = dict(desc)
    d["spec"] = spec
    return Case(E.cfg_ints(spec), ins, outs, fails, sorted(tags), d, E.NAMES_IN, E.NAMES_OUT)


# ----------------------------------------------------------------------------- f8 (directed, monitor only)
def run_f8(desc):
    rng = Rng(desc["seed"])
    mps = rng.choice([4, 8, 64])
    n = rng.range(1, 15)
    spec = {"shape": "tiny", "desc": DH.descriptor_table("tiny"), "eps": [["in", n, mps], ["out", n, 8]], "handlers": []}
    h = E.EpHarness(spec, rng.fork("timing"))
    fails, tags = [], set()
    scripts, metas = [], []
    for first_pid in (0, 1):
        for offset in range(0, 16):
            # bring the endpoint to WAIT_FOR_DATA with its last packet (DATA0 or DATA1) acknowledged
            ev = []
            for _ in range(first_pid + 1):
                ev += [["produce", n, [0x11], 1], ["tok", I, 0, n], ["hs", ACK]]
            fill = rng.choice([0, 0, mps - 1]) if mps > 1 else 0
            if fill:
                ev += [["produce", n, [0x22] * fill, 0]]
            ev += [["tok", S, 0, 0], ["data", D0, DH.setup_bytes(0x02, 1, 0, 0x80 | n, 0), 1], ["tok", I, 0, 0],
                   ["hs+produce", ACK, n, [0x33], 0 if fill else 1, offset],
                   ["tok", I, 0, n]]
            scripts.append(ev)
            metas.append((first_pid, offset, fill))
    logs = h.run_many(scripts)
    total = 0
    for (first_pid, offset, fill), ev, log in zip(metas, scripts, logs):
        total += len(log)
        last = log[-1]
        if not log[-3].resp.is_data:
            fails.append({"cycle": offset, "sig": "c14-f8-setup", "what": "the status stage of CLEAR_FEATURE was answered %r" % log[-3].resp})
            break
        if last.resp.is_data:
            tags.add("f8:packet-after-clear")
            if last.resp.pid != D0:
                fails.append({"cycle": offset, "sig": "c14-clear-halt-next-not-data0",
                              "what": "IN endpoint %d (mps %d, last acknowledged packet DATA%d, %d bytes buffered): the ACK completing "
                                      "CLEAR_FEATURE(ENDPOINT_HALT) arrived while the producer delivered the byte completing a packet "
                                      "(offset %d); the next packet was sent with PID %#x instead of DATA0"
                                      % (n, mps, first_pid, fill, offset, last.resp.pid)})
                break
    d = dict(desc)
    return Case([0, 0, 64, 5, 0, 0], [[total]], [[None]], fails, sorted(tags), d, ["events"], ["-"], lean=False)


# ----------------------------------------------------------------------------- gate
def gate_stimulus(rng, mps, ep, cycles):
    rows = C12.gate_stimulus(rng, mps, ep, cycles, profile="c14")
    p_discard_keep = rng.chance(15)
    for r in rows:
        if r[4] and r[3]:
            r[3] = 0                      # a host ACK and a new token never end in the same cycle
        if not p_discard_keep:
            r[8] = 0
    return rows


def run_gate(desc):
    mps, ep = desc["mps"], desc["ep"]
    dut, ins, outs = C12.build_gate(mps, ep)
    stim = desc.get("stimulus") or gate_stimulus(Rng(desc["seed"]), mps, ep, desc["cycles"])
    rows = sim.run_cycles(dut, ins, outs, stim, domain="usb")
    fails = []
    tags = {"gate:mps=%d" % mps}
    # reference bookkeeping from the interface signals only
    sending = False
    awaiting = False       # the last packet has ended and neither an ACK nor a new token has been seen since
    last_pid = None        # PID of the previous packet
    advanced = False       # … it has been acknowledged
    reset = False          # a halt-clear naming this endpoint arrived outside its own transaction since then
    dirty = False          # discard, or a strobe inside the endpoint's own transaction: no judgement for the next packet
    for t, (i, o) in enumerate(zip(stim, rows)):
        tok_ep, is_in, _rfr, new, ack, _sv, _sl, _fl, discard, ch_en, ch_dir, ch_num, tx_ready = i
        _nak, valid, first, last, _srdy, pid = o
        halt = bool(ch_en and ch_dir and ch_num == ep)
        start = bool(valid) and not sending
        if start:
            if last_pid is not None and not dirty:
                want = 0 if reset else (last_pid ^ 1 if advanced else last_pid)
                if pid != want:
                    fails.append({"cycle": t, "sig": "c14-gate-pid-law",
                                  "what": "cycle %d: packet starts with data_pid=%d; previous packet had %d, %s, %s -> expected %d"
                                          % (t, pid, last_pid, "ACKed" if advanced else "not ACKed",
                                             "halt-clear since" if reset else "no halt-clear", want)})
                    break
                tags.add("gate:%s%s" % ("acked" if advanced else "retry", "+reset" if reset else ""))
            if last_pid is None and not dirty and pid != 0:
                fails.append({"cycle": t, "sig": "c14-gate-first-pid", "what": "cycle %d: first packet after reset has data_pid=%d" % (t, pid)})
                break
            last_pid, advanced, reset, dirty = pid, False, False, False
        zlp = start and last and not first
        ended = bool(valid) and bool(last) and (bool(tx_ready) or zlp)
        if halt:
            if sending or start or awaiting:
                dirty = True
            else:
                reset = True
        if discard:
            dirty = True
        if awaiting:
            if ack and tok_ep == ep and is_in:
                advanced, awaiting = True, False
            elif new:
                awaiting = False
        sending = bool(valid) and not ended
        if ended:
            awaiting = True
    return Case([1, mps, ep], stim, rows, fails, sorted(tags), desc, C12.GATE_IN, C12.GATE_OUT)


def run_case(desc):
    return {"dev": run_dev, "f8": run_f8, "gate": run_gate}[desc["kind"]](desc)
