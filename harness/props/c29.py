"""C29 — multi-byte IN endpoint (luna/gateware/usb/usb2/endpoints/stream.py: USBMultibyteStreamInEndpoint).

The real composite (serialiser shim + inner USBStreamInEndpoint) is simulated through its word stream and
its EndpointInterface; the inner byte stream is observed by taking `stream_ep` out of the elaborated
module (observation only).  Monitor: (a) the inner byte stream carries every accepted word's bytes
little-endian, once, with first/last on the word's first/last byte, and a word is accepted only when the
previous one is completely handed over; (b) the host-view monitor of C11 on the inner byte stream vs. the
packets on the EndpointInterface.
"""
from harness.common.framework import Case
from harness.common.rng import Rng
from harness.props import in_util, c11

PROP = "C29"
LEAN_MODULES = ["LunaVerif.Props.C29"]
DRIVER = "Driver/C29.lean"
REQUIRED_THEOREMS = ["bytes_little_endian_once", "first_last_placement", "word_ready_only_when_consumable"]
RULE = ("cases = byte_width in {1,2,3,4,8} (thorough adds 5,6,7) x max_packet_size in {1,3,8,64} x host script of C11 "
        "(IN polls, ACK / lost / late / foreign ACK, tx.ready densities) x word producer (valid 8..100%, random "
        "first/last flags, words 0 / all-ones / random)")
ASSUMPTIONS = ["byte_width >= 1", "inner endpoint = C11's model (repaired transfer manager); the shim theorems hold for "
               "an arbitrary byte-stream ready schedule"]
PARTIAL = ""

NAMES_IN = ["active", "is_in", "ready_for_response", "new_token", "ack", "w_valid", "w_payload", "w_first", "w_last",
            "tx_ready"]
NAMES_OUT = ["w_ready", "tx_valid", "tx_first", "tx_last", "tx_payload", "tx_pid_toggle", "nak", "b_valid", "b_payload",
             "b_first", "b_last", "b_ready"]


def gen_cases(tier, rng):
    bws = [1, 2, 3, 4, 8] if tier != "thorough" else [1, 2, 3, 4, 5, 6, 7, 8]
    mpss = [1, 3, 8, 64]
    per = {"quick": 2, "widen": 5}.get(tier, 8)
    out = []
    for bw in bws:
        for mps in mpss:
            for k in range(per):
                out.append({"bw": bw, "mps": mps, "cycles": 700 if mps < 64 else 2000, "seed": rng.u64()})
    return out


class Agent:
    def __init__(self, rng, mps, bw):
        self.host = c11.Agent(rng.fork("host"), mps, "host")
        self.host.flush_p = 0
        self.r, self.bw = rng.fork("words"), bw
        self.valid_p = self.r.choice([100, 90, 50, 20, 8])
        self.last_p = self.r.choice([5, 20, 50])
        self.word = self.pick()
        self.pv = 0

    def pick(self):
        r = self.r
        k = r.below(8)
        v = 0 if k == 0 else ((1 << (8 * self.bw)) - 1 if k == 1 else r.bits(8 * self.bw))
        return [v, int(r.chance(30)), int(r.chance(self.last_p))]

    def __call__(self, t, prev):
        pv8 = None if prev is None else (prev[0], prev[1], prev[2], prev[3], prev[4], prev[5], prev[6], 0)
        h = self.host(t, pv8)
        if prev is not None and self.pv and prev[0]:
            self.word = self.pick()
        v = int(self.r.chance(self.valid_p))
        self.pv = v
        return [h[0], h[1], h[2], h[3], h[4], v, self.word[0], self.word[1], self.word[2], h[13]]


def monitor(bw, mps, stim, rows):
    fails, tags = [], set()

    def fail(t, sig, what):
        if not fails:
            fails.append({"cycle": t, "sig": sig, "what": "byte_width=%d mps=%d: %s" % (bw, mps, what)})

    want = []          # bytes (payload, first, last) owed by accepted words, in order
    got = 0            # how many of them have been handed over
    for t, (i, o) in enumerate(zip(stim, rows)):
        wv, wp, wf, wl = i[5], i[6], i[7], i[8]
        w_ready, b_valid, b_payload, b_first, b_last, b_ready = o[0], o[7], o[8], o[9], o[10], o[11]
        if b_valid and b_ready:
            if got >= len(want):
                fail(t, "byte-unsolicited", "a byte (0x%02x) is handed over although every accepted word is out" % b_payload)
                break
            e = want[got]
            if (b_payload, b_first, b_last) != e:
                fail(t, "byte-mismatch", "byte %d handed over as (0x%02x, first=%d, last=%d), the accepted words "
                     "require (0x%02x, first=%d, last=%d)" % ((got, b_payload, b_first, b_last) + e))
                break
            got += 1
        elif b_first or b_last:
            fail(t, "flag-without-transfer", "first/last raised without a byte being taken")
        if wv and w_ready:
            if got != len(want):
                fail(t, "word-ready-early", "a word is accepted while %d byte(s) of the previous word are still "
                     "unsent" % (len(want) - got))
                break
            bs = list((wp & ((1 << (8 * bw)) - 1)).to_bytes(bw, "little"))
            want.extend((b, int(bool(wf) and k == 0), int(bool(wl) and k == bw - 1)) for k, b in enumerate(bs))
            tags.add("word-last" if wl else "word")
            if b_valid and b_ready:
                tags.add("back-to-back")
        if len(want) - got > bw:
            fail(t, "overaccepted", "%d bytes owed" % (len(want) - got))
        if w_ready and not wv:
            tags.add("idle-ready")
    return fails, sorted(tags)


def run_case(desc):
    from luna.gateware.usb.usb2.endpoints.stream import USBMultibyteStreamInEndpoint
    bw, mps = desc["bw"], desc["mps"]
    rng = Rng(desc["seed"])
    ep = rng.range(1, 15)
    other = (ep + rng.range(1, 15)) % 16
    dut = USBMultibyteStreamInEndpoint(byte_width=bw, endpoint_number=ep, max_packet_size=mps)
    m = dut.elaborate(None)
    inner = m._named_submodules["stream_ep"]
    inner = inner[0] if isinstance(inner, tuple) else inner
    itf = dut.interface
    ins = [itf.tokenizer.endpoint, itf.tokenizer.is_in, itf.tokenizer.ready_for_response, itf.tokenizer.new_token,
           itf.handshakes_in.ack, dut.stream.valid, dut.stream.payload, dut.stream.first, dut.stream.last, itf.tx.ready]
    outs = [dut.stream.ready, itf.tx.valid, itf.tx.first, itf.tx.last, itf.tx.payload, itf.tx_pid_toggle,
            itf.handshakes_out.nak, inner.stream.valid, inner.stream.payload, inner.stream.first, inner.stream.last,
            inner.stream.ready]
    agent = Agent(rng.fork("agent"), mps, bw)

    def ag(t, prev):
        r = agent(t, prev)
        return [ep if r[0] else other] + r[1:]

    if desc.get("stimulus"):
        d2 = dict(desc)
        d2["stimulus"] = [[ep if r[0] else other] + list(r[1:]) for r in desc["stimulus"]]
        stim, rows = in_util.run(m, ins, outs, d2, None, 0)
    else:
        stim, rows = in_util.run_closed(m, ins, outs, ag, desc.get("cycles", 700))
    mstim = [[int(r[0] == ep)] + list(r[1:]) for r in stim]
    fails, tags = monitor(bw, mps, mstim, rows)
    if not fails:
        # host view: the inner byte stream is the producer of C11's statement
        xs = [[r[0], r[1], r[2], r[3], r[4], o[7], o[8], o[10], 0, 0, 1, 0, 0, r[9]] for r, o in zip(mstim, rows)]
        xo = [(o[11], o[1], o[2], o[3], o[4], o[5], o[6], 0) for o in rows]
        f2, t2 = c11.monitor(mps, "host", xs, xo)
        for f in f2:
            f["sig"] = "inner-" + f["sig"]
        fails += f2
        tags += ["inner:" + x for x in t2 if x in ("acked", "retry", "zlp", "nak", "transfer-ended-by-zlp")]
    tags += ["bw=%d" % bw, "mps=%d" % mps]
    outputs = [[o[0], o[1], o[2], o[3], (o[4] if o[1] else None), o[5], o[6], o[7], (o[8] if o[7] else None), o[9],
                o[10], o[11]] for o in rows]
    return Case([mps, bw], mstim, outputs, fails, tags, desc, NAMES_IN, NAMES_OUT)
