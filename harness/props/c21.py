"""C21 — frame / microframe numbers of USBDevice (luna/gateware/usb/usb2/device.py).

DUT = the real `USBDevice(bus=UTMIInterface())` with one stub endpoint (an empty module whose EndpointInterface
lets the testbench raise `address_changed` / `new_address` and read `active_address`); SOF and other packets are
driven through the UTMI receive port, bus resets are caused through `line_state` (SE0), `session_end` (VBUS loss)
and `connect`; `frame_number`, `microframe_number`, `new_frame`, `sof_detected` are observed, and so is
`reset_detected` (= reset_sequencer.bus_reset), which is handed to the Lean model as an input column."""
from harness.common.framework import Case
from harness.common.rng import Rng
from harness.common import sim, usbref

PROP = "C21"
LEAN_MODULES = ["LunaVerif.Props.C21"]
DRIVER = "Driver/C21.lean"
REQUIRED_THEOREMS = ["frame_tracks_sof", "frame_tracks_sof_through_resets", "microframe_reset_or_increment",
                     "new_frame_iff_changed", "new_frame_iff_changed_every_cycle", "registers_change_only_on_sof",
                     "bus_reset_no_effect_on_frame_ports", "device_ports_exact", "frame_outputs_exact"]
RULE = ("cases = SOF sequences rendered on the UTMI receive port of the real USBDevice: runs of repeats (x8 and other "
        "lengths, more than 8 to wrap the 3-bit microframe counter), increments, skips, 0x7FF->0 wrap, frame 0 right "
        "after reset, corrupted SOFs (CRC bit flip, bad check nibble, truncated, over-long), interleaved tokens / "
        "handshakes / data packets / junk, random byte gaps; one kind additionally toggles line_state randomly.  "
        "Kinds 'reset' / 'reset-scaled' interleave BUS RESETS with that traffic through the device's real "
        "USBResetSequencer: SE0 on line_state for just over 5 us (real class constants, 301+ cycles) or for a scaled "
        "constant set (class attributes of USBResetSequencer patched for the case, as the repo's own test does on "
        "the instance), SE0 held long, a second reset 1-3 cycles after the first, VBUS loss (session_end: bus_reset "
        "held high for many cycles, also while SOFs arrive, so that a reset coincides with the SOF report cycle), "
        "soft disconnect (connect low), suspend + reset from suspend (scaled sets), address updates through a stub "
        "endpoint; after each reset: the same SOF number again (repeat), SOF 0, the next number, x8 repeats, "
        "corrupted SOFs, other tokens.  reset_detected is OBSERVED on the gateware and fed to the model")
ASSUMPTIONS = [
    "legal UTMI receive history (rx_valid only while rx_active, not in the cycle rx_active rises)",
    "a SOF takes effect on frame_number / microframe_number two cycles after rx_active falls (one register stage in "
    "the token detector, one in the device); new_frame / sof_detected are raised in the cycle between",
    "the bus-reset input of the model is the device's own reset_detected output (reset_sequencer.bus_reset), in any "
    "cycles whatsoever; when the reset sequencer raises it is C19's subject, not assumed here",
]
PARTIAL = ""

LINE_SE0, LINE_J, LINE_K = 0, 1, 2
OUT_NAMES = ["frame_number", "microframe_number", "new_frame", "sof_detected", "active_address"]
IN_NAMES = ["rx_active", "rx_valid", "rx_data", "line_state", "connect", "session_end", "address_changed",
            "new_address", "reset_detected(observed)"]
N_DRIVEN = 8

# USBResetSequencer class constants (cycles of the 60 MHz usb domain) and scaled-down sets
RESET_ATTRS = ["_CYCLES_2P5_MICROSECONDS", "_CYCLES_5_MICROSECONDS", "_CYCLES_200_MICROSECONDS",
               "_CYCLES_2_MILLISECONDS", "_CYCLES_2P5_MILLISECONDS", "_CYCLES_3_MILLISECONDS"]
REAL_CONSTS = [150, 300, 12000, 120000, 150000, 180000]
SCALED_CONSTS = [
    [5, 10, 40, 120, 150, 180],
    [3, 6, 20, 60, 75, 90],
    [7, 13, 50, 100, 170, 4000],
    [4, 9, 30, 200, 230, 250],
]


class Bus:
    """The non-receive columns, held between calls."""

    def __init__(self, rng, noisy=False):
        self.rng = rng
        self.noisy = noisy
        self.line_state = LINE_J
        self.connect = 1
        self.session_end = 0
        self.addr_pulse = None

    def cols(self):
        ls = self.rng.below(4) if self.noisy else self.line_state
        if self.addr_pulse is not None:
            a, self.addr_pulse = self.addr_pulse, None
            return [ls, self.connect, self.session_end, 1, a]
        return [ls, self.connect, self.session_end, 0, self.rng.below(128) if self.rng.chance(10) else 0]


def render(packet, rng, bus, lead=None, idle=None):
    rows = []
    for _ in range(lead if lead is not None else rng.choice([1, 1, 2, 4])):
        rows.append([1, 0, rng.below(256)] + bus.cols())
    for b in packet:
        rows.append([1, 1, b] + bus.cols())
        for _ in range(rng.choice([0, 0, 0, 1, 3])):
            rows.append([1, 0, rng.below(256)] + bus.cols())
    for _ in range(idle if idle is not None else rng.choice([1, 1, 2, 5])):
        rows.append([0, 0, rng.below(256)] + bus.cols())
    return rows


def idle_rows(n, rng, bus):
    return [[0, 0, rng.below(256) if rng.chance(20) else 0] + bus.cols() for _ in range(n)]


def bad_sof(target, rng):
    pkt = usbref.sof_packet(target)
    mode = rng.below(5)
    if mode == 0:
        b = rng.below(16)
        pkt[1 + b // 8] ^= 1 << (b % 8)
    elif mode == 1:
        pkt[0] ^= 1 << rng.below(8)
    elif mode == 2:
        pkt = pkt[:rng.below(3)]
    elif mode == 3:
        pkt = pkt + [rng.below(256)]
    else:
        pkt[0] = usbref.pid_byte(rng.below(16))
    return pkt


def other_packet(rng):
    return rng.weighted([(3, usbref.token_packet(rng.choice([usbref.PID_IN, usbref.PID_OUT, usbref.PID_SETUP]),
                                                 rng.choice([0, 0, rng.below(128)]), rng.below(16))),
                         (2, [usbref.pid_byte(rng.choice([usbref.PID_ACK, usbref.PID_NAK]))]),
                         (2, usbref.data_packet(rng.choice([usbref.PID_DATA0, usbref.PID_DATA1]),
                                                rng.bytes(rng.below(9)))),
                         (1, rng.bytes(rng.range(1, 6)))])


def make_stimulus(desc, rng):
    kind = desc["kind"]
    if kind in ("reset", "reset-scaled"):
        return make_reset_stimulus(desc, rng)
    bus = Bus(rng, noisy=(kind == "line-noise"))
    rows = idle_rows(rng.range(0, 3), rng, bus)
    frame = rng.choice([0, 0, 1, 0x7FA, rng.below(2048)])
    n_pkts = 110 if kind != "hs-pattern" else 140
    k = 0
    while k < n_pkts:
        if kind == "hs-pattern":
            # high-speed pattern: every frame number 8 times, occasionally 7, 9 or 17 times
            reps = rng.weighted([(10, 8), (1, 7), (1, 9), (1, 17), (1, 1)])
            for _ in range(reps):
                rows += render(usbref.sof_packet(frame), rng, bus)
                k += 1
            frame = (frame + 1) & 0x7FF
            continue
        what = rng.weighted([(10, "sof"), (3, "repeat"), (2, "skip"), (2, "bad"), (3, "other"), (1, "wrap"),
                             (1, "address")])
        if what == "sof":
            frame = (frame + 1) & 0x7FF
            rows += render(usbref.sof_packet(frame), rng, bus)
        elif what == "repeat":
            for _ in range(rng.range(1, 10)):
                rows += render(usbref.sof_packet(frame), rng, bus)
                k += 1
        elif what == "skip":
            frame = (frame + rng.choice([2, 3, 100, 2047, 1024])) & 0x7FF
            rows += render(usbref.sof_packet(frame), rng, bus)
        elif what == "wrap":
            frame = 0x7FE
            for f in (0x7FE, 0x7FF, 0, 1):
                frame = f
                for _ in range(rng.choice([1, 1, 8])):
                    rows += render(usbref.sof_packet(f), rng, bus)
        elif what == "bad":
            rows += render(bad_sof(rng.choice([frame, (frame + 1) & 0x7FF, rng.below(2048)]), rng), rng, bus)
        elif what == "address":
            bus.addr_pulse = rng.choice([0, 1, rng.below(128)])
        else:
            rows += render(other_packet(rng), rng, bus)
        k += 1
    rows += idle_rows(4, rng, bus)
    return rows


def make_reset_stimulus(desc, rng):
    """SOF traffic with bus resets in between.  Nothing here predicts when the reset sequencer raises bus_reset: the
    scripts hold the conditions (SE0 / no VBUS / ...) a little longer than its thresholds, and the coverage tags
    computed from the OBSERVED reset_detected column say what was reached."""
    c5us = desc["consts"][1]
    c2p5us = desc["consts"][0]
    c3ms = desc["consts"][5]
    bus = Bus(rng)
    rows = idle_rows(rng.range(2, 6), rng, bus)
    frame = rng.choice([0, 1, 5, 0x7FF, 0x400, rng.below(2048)])
    budget = desc.get("cycles", 1500)

    def sof(n, **kw):
        return render(usbref.sof_packet(n), rng, bus, **kw)

    def traffic(n_pkts):
        nonlocal frame
        out = []
        for _ in range(n_pkts):
            what = rng.weighted([(6, "sof"), (4, "repeat"), (1, "skip"), (1, "bad"), (2, "other"), (1, "address")])
            if what == "sof":
                frame = (frame + 1) & 0x7FF
                out += sof(frame)
            elif what == "repeat":
                out += sof(frame)
            elif what == "skip":
                frame = (frame + rng.choice([2, 100, 1024, 2047])) & 0x7FF
                out += sof(frame)
            elif what == "bad":
                out += render(bad_sof(rng.choice([frame, 0, (frame + 1) & 0x7FF]), rng), rng, bus)
            elif what == "address":
                bus.addr_pulse = rng.choice([1, 0x7F, rng.below(128)])
                out += idle_rows(1, rng, bus)
            else:
                out += render(other_packet(rng), rng, bus)
        return out

    def se0(n, with_packets=False):
        """n cycles of SE0 on the line (receive port idle, or — physically odd but legal for the quantifier —
        packets arriving meanwhile), then back to J."""
        nonlocal frame
        bus.line_state = LINE_SE0
        out = []
        if with_packets:
            while len(out) < n:
                out += traffic(1)
        else:
            out += idle_rows(n, rng, bus)
        bus.line_state = LINE_J
        return out

    def after_reset():
        """What the host sends first after the reset."""
        nonlocal frame
        out = idle_rows(rng.choice([0, 1, 2, 7]), rng, bus)
        what = rng.weighted([(4, "same"), (3, "zero"), (3, "next"), (2, "x8"), (1, "bad-then-same"), (1, "token"),
                             (1, "one")])
        if what == "same":
            for _ in range(rng.choice([1, 2, 3])):
                out += sof(frame)
        elif what == "zero":
            frame = 0
            for _ in range(rng.choice([1, 1, 2, 9])):
                out += sof(0)
        elif what == "one":
            frame = 1
            out += sof(1)
        elif what == "next":
            frame = (frame + 1) & 0x7FF
            out += sof(frame)
        elif what == "x8":
            for _ in range(8):
                out += sof(frame)
            frame = (frame + 1) & 0x7FF
            out += sof(frame)
        elif what == "bad-then-same":
            out += render(bad_sof(rng.choice([0, frame]), rng), rng, bus)
            out += sof(frame)
        else:
            out += render(usbref.token_packet(rng.choice([usbref.PID_IN, usbref.PID_OUT, usbref.PID_SETUP]), 0,
                                              rng.below(16)), rng, bus)
            out += sof(frame)
        return out

    rows += traffic(rng.range(1, 6))
    while len(rows) < budget:
        how = rng.weighted([(6, "se0"), (3, "double"), (3, "vbus"), (2, "vbus-sofs"), (2, "se0-long"),
                            (2, "se0-packets"), (1, "short-se0"), (1, "disconnect"), (2, "suspend"),
                            (1, "reset-in-report-cycle")])
        if how == "se0":
            rows += se0(c5us + rng.range(1, 6))
        elif how == "double":
            rows += se0(c5us + rng.range(1, 4))
            rows += idle_rows(rng.range(1, 4), rng, bus)
            rows += se0(c5us + rng.range(1, 4))
            if rng.chance(40):
                rows += idle_rows(rng.range(1, 3), rng, bus)
                rows += se0(c5us + rng.range(1, 4))
        elif how == "se0-long":
            rows += se0(c5us + rng.range(20, 120))
        elif how == "se0-packets":
            rows += se0(c5us + rng.range(2, 40), with_packets=True)
        elif how == "short-se0":
            rows += se0(max(1, c5us - rng.range(0, 4)))          # not (quite) a reset
        elif how == "vbus":
            bus.session_end = 1
            rows += idle_rows(rng.choice([1, 2, 3, 20, 60]), rng, bus)
            bus.session_end = 0
        elif how == "vbus-sofs":
            # bus_reset held high while SOFs arrive: a reset in the SOF report cycle, the cycle before and after
            bus.session_end = 1
            rows += idle_rows(rng.range(1, 4), rng, bus)
            rows += traffic(rng.range(2, 6))
            bus.session_end = 0
        elif how == "reset-in-report-cycle":
            # a SOF whose report cycle (one after rx_active falls) lies inside a short VBUS drop
            frame = rng.choice([frame, (frame + 1) & 0x7FF, 0])
            rows += render(usbref.sof_packet(frame), rng, bus, idle=0)
            first = rng.choice([0, 1, 2])
            rows += idle_rows(first, rng, bus)
            bus.session_end = 1
            rows += idle_rows(rng.choice([1, 1, 2, 3]), rng, bus)
            bus.session_end = 0
            rows += idle_rows(2, rng, bus)
        elif how == "disconnect":
            bus.connect = 0
            rows += idle_rows(c2p5us + rng.range(2, 12), rng, bus)
            bus.connect = 1
            rows += idle_rows(rng.range(2, 6), rng, bus)
            rows += se0(c5us + rng.range(3, 8))
        elif how == "suspend":
            if c3ms > 600:
                continue
            # idle J for 3 "ms" -> SUSPENDED; then either reset from suspend (SE0 2.5 "us") or resume (K)
            rows += idle_rows(c3ms + rng.range(2, 8), rng, bus)
            if rng.chance(60):
                rows += se0(c2p5us + rng.range(1, 5))
            else:
                bus.line_state = LINE_K
                rows += idle_rows(rng.range(1, 4), rng, bus)
                bus.line_state = LINE_J
        rows += after_reset()
        rows += traffic(rng.range(0, 5))
    rows += idle_rows(4, rng, bus)
    return rows


def sof_of(pkt):
    if len(pkt) != 3 or pkt[0] != usbref.pid_byte(usbref.PID_SOF):
        return None
    w = pkt[1] | (pkt[2] << 8)
    if (w >> 11) != usbref.usb2_crc5(w & 0x7FF):
        return None
    return w & 0x7FF


def monitor(stim, rows, resets=None):
    """Property on the real trace.  A well-formed SOF whose packet ends in cycle t: in cycle t+1 (the SOF report
    cycle) sof_detected is high and new_frame = (number != frame_number); from cycle t+2 frame_number = number and
    microframe_number = 0 if the number changed, previous + 1 (mod 8) if it repeated.  Nothing else — in particular
    no bus reset, VBUS loss, disconnect or address change — changes the registers or raises the strobes.

    Two layers: (1) exact required values of all four ports in every cycle, from the received packets alone;
    (2) trace-relative rules that do not depend on (1)'s bookkeeping: the strobes are high only in SOF report cycles,
    new_frame there iff the number differs from the frame_number SHOWN in that cycle, and the registers differ from
    their values one cycle earlier only directly after a SOF report cycle.
    `resets` (the observed reset_detected column) is used for coverage tags only."""
    fails = []
    tags = set()
    cur = None
    pending = None            # SOF number announced for this cycle
    was_pending = None        # ... for the previous cycle
    frame, micro = 0, 0       # architectural values required in this cycle
    nxt = None
    prev_out = None
    last_reset = None         # cycle of the most recent observed bus reset
    sofs_since_reset = None
    n_resets = 0

    def fail(t, sig, what):
        if not any(f["sig"] == sig for f in fails):
            fails.append({"cycle": t, "sig": sig, "what": what})

    for t, (inp, out) in enumerate(zip(stim, rows)):
        fn, mf, nf, sd = out[:4]
        rst = bool(resets[t]) if resets is not None else False
        if nxt is not None:
            frame, micro = nxt
            nxt = None
        # ---- layer 1: exact values
        if fn != frame:
            fail(t, "frame-number", "frame_number=%d at cycle %d, required %d" % (fn, t, frame))
        if mf != micro:
            fail(t, "microframe-number", "microframe_number=%d at cycle %d, required %d" % (mf, t, micro))
        if sd != int(pending is not None):
            fail(t, "sof-detected", "sof_detected=%d at cycle %d, required %d" % (sd, t, int(pending is not None)))
        want_nf = int(pending is not None and pending != frame)
        if nf != want_nf:
            fail(t, "new-frame-strobe", "new_frame=%d at cycle %d, required %d (SOF %s, frame_number %d)"
                 % (nf, t, want_nf, pending, frame))
        # ---- layer 2: trace-relative rules
        if pending is None:
            if nf:
                fail(t, "new-frame-without-sof", "new_frame high at cycle %d although no well-formed SOF is reported "
                     "in this cycle (frame_number=%d; last bus reset at cycle %s)" % (t, fn, last_reset))
            if sd:
                fail(t, "sof-detected-without-sof", "sof_detected high at cycle %d although no well-formed SOF is "
                     "reported in this cycle" % t)
        else:
            if nf != int(pending != fn):
                fail(t, "new-frame-iff-changed", "SOF %d reported at cycle %d while frame_number shows %d: new_frame=%d"
                     % (pending, t, fn, nf))
            if not sd:
                fail(t, "sof-not-detected", "well-formed SOF %d reported at cycle %d but sof_detected is low"
                     % (pending, t))
        if prev_out is not None and was_pending is None:
            if fn != prev_out[0]:
                fail(t, "frame-number-changed-without-sof", "frame_number went %d -> %d at cycle %d although no SOF "
                     "was reported in the cycle before (last bus reset at cycle %s)" % (prev_out[0], fn, t, last_reset))
            if mf != prev_out[1]:
                fail(t, "microframe-changed-without-sof", "microframe_number went %d -> %d at cycle %d although no "
                     "SOF was reported in the cycle before (last bus reset at cycle %s)"
                     % (prev_out[1], mf, t, last_reset))
        if prev_out is not None and was_pending is not None:
            want = (was_pending, 0 if was_pending != prev_out[0] else (prev_out[1] + 1) % 8)
            if (fn, mf) != want:
                fail(t, "registers-after-sof", "after SOF %d (registers before: %d.%d) the registers show %d.%d at "
                     "cycle %d, required %d.%d" % (was_pending, prev_out[0], prev_out[1], fn, mf, t, want[0], want[1]))
        # ---- coverage
        if rst:
            n_resets += 1
            tags.add("bus-reset")
            if frame != 0:
                tags.add("reset-with-frame-nonzero")
            if micro != 0:
                tags.add("reset-with-microframe-nonzero")
            if pending is not None:
                tags.add("reset-in-sof-report-cycle")
            if was_pending is not None:
                tags.add("reset-in-cycle-after-sof-report")
            if cur is not None:
                tags.add("reset-during-packet")
            if (t == 0 or not resets[t - 1]) and (t + 1 >= len(resets) or not resets[t + 1]):
                tags.add("reset-pulse")
            if last_reset is not None and t - last_reset == 1:
                tags.add("reset-held")
            elif last_reset is not None and t - last_reset <= 40:
                tags.add("reset-soon-after-reset")
            last_reset = t
            sofs_since_reset = 0
        if pending is not None:
            if sofs_since_reset == 0:
                tags.add("first-sof-after-reset:" + ("repeat" if pending == frame else
                                                     "zero" if pending == 0 else "changed"))
            if sofs_since_reset is not None:
                sofs_since_reset += 1
            if pending != frame:
                nxt = (pending, 0)
                tags.add("new-frame")
                if pending == 0 and frame == 0x7FF:
                    tags.add("wrap-7ff-0")
            else:
                nxt = (frame, (micro + 1) % 8)
                tags.add("repeat")
                if micro == 7:
                    tags.add("microframe-wrap")
            tags.add("micro=%d" % nxt[1])
        prev_out = (fn, mf)
        was_pending = pending
        pending = None
        a, v, d = inp[0], inp[1], inp[2]
        if cur is None:
            if a:
                cur = []
        elif not a:
            n = sof_of(cur)
            if n is not None:
                pending = n
            elif len(cur) >= 1 and (cur[0] & 0xF) == usbref.PID_SOF:
                tags.add("bad-sof-ignored")
            else:
                tags.add("other-packet")
            cur = None
        elif v:
            cur.append(d)
    if resets is not None:
        tags.add("resets=%s" % ("0" if n_resets == 0 else "1-3" if n_resets <= 3 else "4-20" if n_resets <= 20
                                 else ">20"))
    return fails, tags


def gen_cases(tier, rng):
    n = {"quick": 4, "widen": 12, "thorough": 30}[tier]
    out = []
    for k in range(n * 2):
        out.append({"kind": "mixed", "seed": rng.u64()})
    for k in range(max(1, (n * 3) // 4)):
        out.append({"kind": "hs-pattern", "seed": rng.u64()})
    for k in range(max(1, n // 2)):
        out.append({"kind": "line-noise", "seed": rng.u64()})
    for k in range(n):
        out.append({"kind": "reset", "seed": rng.u64(), "consts": REAL_CONSTS, "cycles": 2400})
    for k in range(n * 2):
        out.append({"kind": "reset-scaled", "seed": rng.u64(), "consts": SCALED_CONSTS[k % len(SCALED_CONSTS)],
                    "cycles": 1300})
    return out


class StubEndpoint:
    """An endpoint that does nothing: its EndpointInterface is the testbench's handle on the device's
    address_changed / new_address inputs and active_address output."""

    def __new__(cls):
        from amaranth import Elaboratable, Module
        from luna.gateware.usb.usb2.endpoint import EndpointInterface

        class _Stub(Elaboratable):
            def __init__(self):
                self.interface = EndpointInterface()

            def elaborate(self, platform):
                return Module()
        return _Stub()


def run_case(desc):
    from luna.gateware.usb.usb2.device import USBDevice
    from luna.gateware.usb.usb2.reset import USBResetSequencer
    from luna.gateware.interface.utmi import UTMIInterface
    utmi = UTMIInterface()
    dut = USBDevice(bus=utmi)
    stub = StubEndpoint()
    dut.add_endpoint(stub)
    stim = desc.get("stimulus") or make_stimulus(desc, Rng(desc["seed"]))
    stim = [list(r[:N_DRIVEN]) for r in stim]       # a replayed trace carries the observed reset column too
    prev = 0
    for r in stim:
        assert not r[1] or (r[0] and prev), "stimulus left the LegalRx predicate"
        prev = r[0]
    # The device creates its USBResetSequencer inside elaborate(); the cycle constants are class attributes (the
    # repo's own test shortens them on the instance) — patch the class for the duration of this simulation.
    consts = desc.get("consts") or REAL_CONSTS
    saved = {a: getattr(USBResetSequencer, a) for a in RESET_ATTRS}
    try:
        for a, v in zip(RESET_ATTRS, consts):
            setattr(USBResetSequencer, a, v)
        obs = sim.run_cycles(dut, [utmi.rx_active, utmi.rx_valid, utmi.rx_data, utmi.line_state, dut.connect,
                                   utmi.session_end, stub.interface.address_changed, stub.interface.new_address],
                             [dut.frame_number, dut.microframe_number, dut.new_frame, dut.sof_detected,
                              stub.interface.active_address, dut.reset_detected], stim, domain="usb")
    finally:
        for a, v in saved.items():
            setattr(USBResetSequencer, a, v)
    rows = [list(o[:5]) for o in obs]
    resets = [o[5] for o in obs]
    fails, tags = monitor(stim, rows, resets)
    tags.add("kind=" + desc["kind"])
    inputs = [r + [rst] for r, rst in zip(stim, resets)]
    return Case([], inputs, rows, fails, sorted(tags), desc, IN_NAMES, OUT_NAMES)
