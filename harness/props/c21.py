"""C21 — frame / microframe numbers of USBDevice (luna/gateware/usb/usb2/device.py).

DUT = the real `USBDevice(bus=UTMIInterface())` without endpoints; SOF and other packets are driven through
the UTMI receive port; `frame_number`, `microframe_number`, `new_frame`, `sof_detected` are observed."""
from harness.common.framework import Case
from harness.common.rng import Rng
from harness.common import sim, usbref

PROP = "C21"
LEAN_MODULES = ["LunaVerif.Props.C21"]
DRIVER = "Driver/C21.lean"
REQUIRED_THEOREMS = ["frame_tracks_sof", "microframe_reset_or_increment", "new_frame_iff_changed",
                     "frame_outputs_exact"]
RULE = ("cases = SOF sequences rendered on the UTMI receive port of the real USBDevice: runs of repeats (x8 and other "
        "lengths, more than 8 to wrap the 3-bit microframe counter), increments, skips, 0x7FF->0 wrap, frame 0 right "
        "after reset, corrupted SOFs (CRC bit flip, bad check nibble, truncated, over-long), interleaved tokens / "
        "handshakes / data packets / junk, random byte gaps; one kind additionally toggles line_state randomly")
ASSUMPTIONS = [
    "legal UTMI receive history (rx_valid only while rx_active, not in the cycle rx_active rises)",
    "a SOF takes effect on frame_number / microframe_number two cycles after rx_active falls (one register stage in "
    "the token detector, one in the device); new_frame / sof_detected are raised in the cycle between",
]
PARTIAL = ""

LINE_J = 1
OUT_NAMES = ["frame_number", "microframe_number", "new_frame", "sof_detected"]


def render(packet, rng, line, lead=None, idle=None):
    rows = []
    for _ in range(lead if lead is not None else rng.choice([1, 1, 2, 4])):
        rows.append([1, 0, rng.below(256), line(), 1])
    for b in packet:
        rows.append([1, 1, b, line(), 1])
        for _ in range(rng.choice([0, 0, 0, 1, 3])):
            rows.append([1, 0, rng.below(256), line(), 1])
    for _ in range(idle if idle is not None else rng.choice([1, 1, 2, 5])):
        rows.append([0, 0, rng.below(256), line(), 1])
    return rows


def make_stimulus(desc, rng):
    kind = desc["kind"]
    noisy = kind == "line-noise"
    line = (lambda: rng.below(4)) if noisy else (lambda: LINE_J)
    rows = [[0, 0, 0, line(), 1] for _ in range(rng.range(0, 3))]
    frame = rng.choice([0, 0, 1, 0x7FA, rng.below(2048)])
    n_pkts = 110 if kind != "hs-pattern" else 140
    k = 0
    while k < n_pkts:
        if kind == "hs-pattern":
            # high-speed pattern: every frame number 8 times, occasionally 7, 9 or 17 times
            reps = rng.weighted([(10, 8), (1, 7), (1, 9), (1, 17), (1, 1)])
            for _ in range(reps):
                rows += render(usbref.sof_packet(frame), rng, line)
                k += 1
            frame = (frame + 1) & 0x7FF
            continue
        what = rng.weighted([(10, "sof"), (3, "repeat"), (2, "skip"), (2, "bad"), (3, "other"), (1, "wrap")])
        if what == "sof":
            frame = (frame + 1) & 0x7FF
            rows += render(usbref.sof_packet(frame), rng, line)
        elif what == "repeat":
            for _ in range(rng.range(1, 10)):
                rows += render(usbref.sof_packet(frame), rng, line)
                k += 1
        elif what == "skip":
            frame = (frame + rng.choice([2, 3, 100, 2047, 1024])) & 0x7FF
            rows += render(usbref.sof_packet(frame), rng, line)
        elif what == "wrap":
            frame = 0x7FE
            for f in (0x7FE, 0x7FF, 0, 1):
                frame = f
                for _ in range(rng.choice([1, 1, 8])):
                    rows += render(usbref.sof_packet(f), rng, line)
        elif what == "bad":
            target = rng.choice([frame, (frame + 1) & 0x7FF, rng.below(2048)])
            pkt = usbref.sof_packet(target)
            mode = rng.below(5)
            if mode == 0:
                b = rng.below(16)
                pkt[1 + b // 8] ^= 1 << (b % 8)
            elif mode == 1:
                pkt[0] ^= 1 << rng.below(8)
            elif mode == 2:
                pkt = pkt[:rng.below(3)]
            elif mode == 3:
                pkt = pkt + [rng.below(256)]
            else:
                pkt[0] = usbref.pid_byte(rng.below(16))
            rows += render(pkt, rng, line)
        else:
            pkt = rng.weighted([(3, usbref.token_packet(rng.choice([usbref.PID_IN, usbref.PID_OUT, usbref.PID_SETUP]),
                                                         rng.choice([0, 0, rng.below(128)]), rng.below(16))),
                                (2, [usbref.pid_byte(rng.choice([usbref.PID_ACK, usbref.PID_NAK]))]),
                                (2, usbref.data_packet(rng.choice([usbref.PID_DATA0, usbref.PID_DATA1]), rng.bytes(rng.below(9)))),
                                (1, rng.bytes(rng.range(1, 6)))])
            rows += render(pkt, rng, line)
        k += 1
    rows += [[0, 0, 0, line(), 1] for _ in range(4)]
    return rows


def sof_of(pkt):
    if len(pkt) != 3 or pkt[0] != usbref.pid_byte(usbref.PID_SOF):
        return None
    w = pkt[1] | (pkt[2] << 8)
    if (w >> 11) != usbref.usb2_crc5(w & 0x7FF):
        return None
    return w & 0x7FF


def monitor(stim, rows):
    """Property on the real trace.  A well-formed SOF whose packet ends in cycle t: in cycle t+1 sof_detected is
    high and new_frame = (number != frame_number); from cycle t+2 frame_number = number and microframe_number = 0
    if the number changed, previous + 1 (mod 8) if it repeated.  Nothing else changes the registers or raises
    the strobes."""
    fails = []
    tags = set()
    cur = None
    pending = None            # SOF number announced for this cycle
    frame, micro = 0, 0       # architectural values required in this cycle
    nxt = None

    def fail(t, sig, what):
        if not any(f["sig"] == sig for f in fails):
            fails.append({"cycle": t, "sig": sig, "what": what})

    for t, (inp, out) in enumerate(zip(stim, rows)):
        fn, mf, nf, sd = out
        if nxt is not None:
            frame, micro = nxt
            nxt = None
        if fn != frame:
            fail(t, "frame-number", "frame_number=%d at cycle %d, required %d" % (fn, t, frame))
        if mf != micro:
            fail(t, "microframe-number", "microframe_number=%d at cycle %d, required %d" % (mf, t, micro))
        if sd != int(pending is not None):
            fail(t, "sof-detected", "sof_detected=%d at cycle %d, required %d" % (sd, t, int(pending is not None)))
        want_nf = int(pending is not None and pending != frame)
        if nf != want_nf:
            fail(t, "new-frame-strobe", "new_frame=%d at cycle %d, required %d (SOF %s, frame_number %d)"
                 % (nf, t, want_nf, pending, frame))
        if pending is not None:
            if pending != frame:
                nxt = (pending, 0)
                tags.add("new-frame")
                if pending == 0 and frame == 0x7FF:
                    tags.add("wrap-7ff-0")
            else:
                nxt = (frame, (micro + 1) % 8)
                tags.add("repeat")
                if micro == 7:
                    tags.add("microframe-wrap")
            tags.add("micro=%d" % nxt[1])
        pending = None
        a, v, d = inp[0], inp[1], inp[2]
        if cur is None:
            if a:
                cur = []
        elif not a:
            n = sof_of(cur)
            if n is not None:
                pending = n
            elif len(cur) >= 1 and (cur[0] & 0xF) == usbref.PID_SOF:
                tags.add("bad-sof-ignored")
            else:
                tags.add("other-packet")
            cur = None
        elif v:
            cur.append(d)
    return fails, tags


def gen_cases(tier, rng):
    n = {"quick": 5, "widen": 12, "thorough": 30}[tier]
    out = []
    for k in range(n * 3):
        out.append({"kind": "mixed", "seed": rng.u64()})
    for k in range(n):
        out.append({"kind": "hs-pattern", "seed": rng.u64()})
    for k in range(max(1, n // 2)):
        out.append({"kind": "line-noise", "seed": rng.u64()})
    return out


def run_case(desc):
    from luna.gateware.usb.usb2.device import USBDevice
    from luna.gateware.interface.utmi import UTMIInterface
    utmi = UTMIInterface()
    dut = USBDevice(bus=utmi)
    stim = desc.get("stimulus") or make_stimulus(desc, Rng(desc["seed"]))
    prev = 0
    for r in stim:
        assert not r[1] or (r[0] and prev), "stimulus left the LegalRx predicate"
        prev = r[0]
    rows = sim.run_cycles(dut, [utmi.rx_active, utmi.rx_valid, utmi.rx_data, utmi.line_state, dut.connect],
                          [dut.frame_number, dut.microframe_number, dut.new_frame, dut.sof_detected], stim,
                          domain="usb")
    fails, tags = monitor(stim, rows)
    tags.add("kind=" + desc["kind"])
    return Case([], stim, rows, fails, sorted(tags), desc,
                ["rx_active", "rx_valid", "rx_data", "line_state", "connect"], OUT_NAMES)
