"""C30, last clause: '... so a packet is accepted exactly when its check field is correct' -- monitor-only ACCEPTANCE
cases for the consumers of each CRC (the token detector is covered by c30.run_tok):

  a16  USBDataPacketReceiver (alone and wired to the shared USBDataPacketCRC as USBDevice does): USB2 CRC16
  alc  LinkCommandDetector: CRC-5 of the link command word
  ahp  RawHeaderPacketReceiver: header CRC-16 and link-control-word CRC-5
  adp  DataPacketReceiver: header CRC-5, header CRC-16, payload CRC-32 (payloads of 0..24 bytes: every tail length)

One case = one instance fed with a sequence of well-formed packets, each either intact or with exactly one kind of
corruption; the verdict wanted for a packet is recomputed from the words/bytes actually sent with the independent
reference CRCs of harness/common/usbref.py (so a replay needs the stimulus only).  Everything else about the packets
is kept legal (framing, length, sequence number, replica of the link command word), so that the check fields alone
decide.
"""
from harness.common.framework import Case
from harness.common.rng import Rng
from harness.common import sim
from harness.common import usbref as U
from harness.props import sspkt_util as S

LCSTART = (S.SLC | S.SLC << 8 | S.SLC << 16 | S.EPF << 24, 0xF)
DATA_TYPE = 0b01000


def gen_cases(tier, rng):
    n = {"quick": 1, "widen": 2}.get(tier, 4)
    out = []
    for k in range(3 * n):
        out.append({"kind": "a16", "variant": ["wired_hs", "standalone", "wired_fs"][k % 3], "seed": rng.u64(), "k": k})
    for k in range(2 * n):
        out.append({"kind": "alc", "seed": rng.u64(), "k": k})
    for k in range(3 * n):
        out.append({"kind": "ahp", "seed": rng.u64(), "k": k})
    for k in range(4 * n):
        out.append({"kind": "adp", "seed": rng.u64(), "k": k})
    return out


def nz_mask(rng, width):
    """a non-zero corruption of a `width`-bit field: one bit, or anything"""
    return rng.weighted([(5, 1 << rng.below(width)), (3, rng.range(1, (1 << width) - 1))])


def first(fails, f):
    if not fails:
        fails.append(f)


# ------------------------------------------------------------------------------------------- USB2 CRC16
def stim_a16(rng, delay):
    from harness.props import c02
    rows, tags = [[0, 0, 0, 0]] * 2, set()
    for _ in range(rng.range(14, 20)):
        pid = rng.choice(c02.DATA_PIDS)
        payload = rng.bytes(rng.weighted([(2, 0), (2, 1), (2, 2), (6, rng.range(3, 24))]))
        pkt = U.data_packet(pid, payload)
        kind = rng.weighted([(4, "good"), (3, "crc-bit"), (2, "crc-any"), (2, "payload-bit")])
        if kind == "crc-bit":
            pkt[len(pkt) - 1 - rng.below(2)] ^= 1 << rng.below(8)
        elif kind == "crc-any":
            c = rng.bits(16)
            pkt[-2], pkt[-1] = c & 0xFF, c >> 8
        elif kind == "payload-bit" and payload:
            pkt[1 + rng.below(len(payload))] ^= 1 << rng.below(8)
        tags.add("a16:" + kind)
        rows += [[a, v, d, 0] for a, v, d in U.render_rx(pkt, rng, gap_choices=(0, 0, 0, 1, 3))]
        rows += [[0, 0, 0, 0]] * (delay + 2 + rng.range(0, 3))
    return rows + [[0, 0, 0, 0]] * 4, tags


def run_a16(desc):
    from harness.props import c02
    top, rx, utmi, ext, delay = c02.build(desc["variant"])
    if desc.get("stimulus"):
        stim, tags = desc["stimulus"], set()
    else:
        stim, tags = stim_a16(Rng(desc["seed"]), delay)
    rows = sim.run_cycles(top, [utmi.rx_active, utmi.rx_valid, utmi.rx_data, ext], [rx.packet_complete, rx.crc_mismatch],
                          stim, domain="usb")
    fails = []
    t, n = 0, len(stim)
    while t < n:
        if not stim[t][0]:
            t += 1
            continue
        st = t
        bs = []
        while t < n and stim[t][0]:
            if stim[t][1]:
                bs.append(stim[t][2])
            t += 1
        if t >= n or len(bs) < 3 or not (U.pid_ok(bs[0]) and (bs[0] & 3) == 3):
            continue                                  # not a complete data packet: not judged here
        want = int(U.usb2_crc16(bs[1:-2]) == (bs[-2] | bs[-1] << 8))
        seg = rows[st:t + 3]
        acc, rej = int(any(r[0] for r in seg)), int(any(r[1] for r in seg))
        tags.add("a16-accepted" if acc else "a16-rejected")
        if acc != want or rej != 1 - want:
            first(fails, {"cycle": t, "sig": "usb2-data-crc16-accept", "what":
                          "USBDataPacketReceiver (%s): data packet %s ending at cycle %d: packet_complete=%d "
                          "crc_mismatch=%d, but its CRC16 field %#06x is %s (USB2 CRC16 of the payload = %#06x)"
                          % (desc["variant"], [hex(b) for b in bs], t - 1, acc, rej, bs[-2] | bs[-1] << 8,
                             "correct" if want else "wrong", U.usb2_crc16(bs[1:-2]))})
    return Case([10, 0], stim, [list(r) for r in rows], fails, sorted(tags) + ["a16:" + desc["variant"]], desc,
                ["rx_active", "rx_valid", "rx_data", "other_crc_start"], ["packet_complete", "crc_mismatch"], lean=False)


# ------------------------------------------------------------------------------------------- SuperSpeed word streams
def ss_rows(rng, words, extra=()):
    """(data, ctrl) words -> valid rows, with occasional invalid (junk) cycles in between"""
    rows = []
    for d, c in words:
        while rng.chance(12):
            rows.append([0, rng.bits(32), rng.bits(4)] + list(extra))
        rows.append([1, d, c] + list(extra))
    return rows


def ss_idle(rng, extra=()):
    return [[1, 0, 0] + list(extra)] * rng.range(5, 8)


def valid_words(stim):
    return [(t, r[1] & 0xFFFFFFFF, r[2] & 0xF) for t, r in enumerate(stim) if r[0] & 1]


def header_verdict(dw):
    lcw = (dw[3] >> 16) & 0x7FF
    return (U.usb3_crc5(lcw) == (dw[3] >> 27) & 31, U.usb3_crc16(list(dw[:3])) == dw[3] & 0xFFFF)


# ---- link commands
def stim_alc(rng):
    rows, tags = ss_idle(rng), set()
    for _ in range(rng.range(24, 32)):
        core = rng.weighted([(6, rng.bits(11)), (1, 0), (1, 0x7FF), (2, 1 << rng.below(11))])
        crc = U.usb3_crc5(core)
        kind = rng.weighted([(4, "good"), (3, "crc5-bit"), (2, "crc5-any"), (2, "word-bit")])
        if kind == "crc5-bit":
            crc ^= 1 << rng.below(5)
        elif kind == "crc5-any":
            crc = rng.bits(5)
        elif kind == "word-bit":
            core ^= 1 << rng.below(11)
        tags.add("alc:" + kind)
        w = core | crc << 11
        rows += ss_rows(rng, [LCSTART, (w | w << 16, 0)]) + ss_idle(rng)
    return rows, tags


def run_alc(desc):
    from luna.gateware.usb.usb3.link.command import LinkCommandDetector
    dut = LinkCommandDetector()
    if desc.get("stimulus"):
        stim, tags = desc["stimulus"], set()
    else:
        stim, tags = stim_alc(Rng(desc["seed"]))
    rows = sim.run_cycles(dut, [dut.sink.valid, dut.sink.data, dut.sink.ctrl],
                          [dut.new_command, dut.command, dut.subtype], stim, domain="ss")
    fails = []
    vw = valid_words(stim)
    i = 0
    while i + 1 < len(vw):
        if (vw[i][1], vw[i][2]) != LCSTART:
            i += 1
            continue
        t, d, c = vw[i + 1]
        i += 2
        lo, hi = d & 0xFFFF, d >> 16
        if c or lo != hi:
            continue                                  # ill-formed beyond the check field: not judged here
        want = int(U.usb3_crc5(lo & 0x7FF) == lo >> 11)
        acc = int(any(r[0] for r in rows[t + 1:t + 4]))
        tags.add("alc-accepted" if acc else "alc-rejected")
        if acc != want:
            first(fails, {"cycle": t, "sig": "usb3-link-command-crc5-accept", "what":
                          "LinkCommandDetector: link command word %#06x (twice) at cycle %d: new_command=%d, but its "
                          "CRC-5 field %#04x is %s (USB3 CRC-5 of bits 10:0 = %#04x)"
                          % (lo, t, acc, lo >> 11, "correct" if want else "wrong", U.usb3_crc5(lo & 0x7FF))})
    return Case([11, 0], stim, [list(r) for r in rows], fails, sorted(tags), desc, ["valid", "data", "ctrl"],
                ["new_command", "command", "subtype"], lean=False)


# ---- header packets
HDR_KINDS = [(4, "good"), (2, "crc5-field"), (2, "crc5-lcw-bit"), (2, "crc16-field"), (2, "crc16-data-bit"), (1, "both")]


def make_header(rng, dw, kind):
    """dw0..dw2 + a link control word -> the four DWORDs with the corruption `kind`"""
    lcw = rng.bits(11)
    x16 = nz_mask(rng, 16) if kind in ("crc16-field", "both") else 0
    x5 = nz_mask(rng, 5) if kind in ("crc5-field", "both") else 0
    dw = list(dw) + [S.dw3_for(dw[0], dw[1], dw[2], lcw, x16, x5)]
    if kind == "crc5-lcw-bit":
        dw[3] ^= 1 << (16 + rng.below(11))
    elif kind == "crc16-data-bit":
        # not the type field of DW0 / the length field of DW1 (the packet stays a well-formed data packet)
        j = rng.below(3)
        dw[j] ^= 1 << (rng.range(5, 31) if j == 0 else rng.below(16) if j == 1 else rng.below(32))
    return dw


def stim_ahp(rng):
    rows, tags = ss_idle(rng, [0]), set()
    for _ in range(rng.range(20, 28)):
        kind = rng.weighted(HDR_KINDS)
        dw = make_header(rng, [rng.bits(32), rng.bits(32), rng.bits(32)], kind)
        tags.add("ahp:" + kind)
        seq = [(dw[3] >> 16) & 7]                    # the sequence number is the expected one: the CRCs decide
        rows += ss_rows(rng, [S.HPSTART] + [(w, 0) for w in dw], seq) + ss_idle(rng, seq)
    return rows, tags


def run_ahp(desc):
    from luna.gateware.usb.usb3.link.receiver import RawHeaderPacketReceiver
    dut = RawHeaderPacketReceiver()
    if desc.get("stimulus"):
        stim, tags = desc["stimulus"], set()
    else:
        stim, tags = stim_ahp(Rng(desc["seed"]))
    rows = sim.run_cycles(dut, [dut.sink.valid, dut.sink.data, dut.sink.ctrl, dut.expected_sequence],
                          [dut.new_packet, dut.bad_packet, dut.bad_sequence], stim, domain="ss")
    fails = []
    vw = valid_words(stim)
    i = 0
    while i + 4 < len(vw):
        if (vw[i][1], vw[i][2]) != S.HPSTART:
            i += 1
            continue
        ws = vw[i + 1:i + 5]
        i += 5
        t = ws[3][0]
        dw = [w[1] for w in ws]
        if any(w[2] for w in ws) or t + 1 >= len(stim) or stim[t + 1][3] != (dw[3] >> 16) & 7:
            continue                                  # ill-formed beyond the check fields: not judged here
        ok5, ok16 = header_verdict(dw)
        want = int(ok5 and ok16)
        acc = int(any(r[0] for r in rows[t + 1:t + 5]))
        tags.add("ahp-accepted" if acc else "ahp-rejected")
        if acc != want:
            first(fails, {"cycle": t, "sig": "usb3-header-crc-accept", "what":
                          "RawHeaderPacketReceiver: header %s ending at cycle %d (expected sequence = its own): "
                          "new_packet=%d, but its CRC-16 field is %s and its CRC-5 field is %s"
                          % ([hex(w) for w in dw], t, acc, "correct" if ok16 else "wrong", "correct" if ok5 else "wrong")})
    return Case([12, 0], stim, [list(r) for r in rows], fails, sorted(tags), desc,
                ["valid", "data", "ctrl", "expected_sequence"], ["new_packet", "bad_packet", "bad_sequence"], lean=False)


# ---- data packets
def stim_adp(rng):
    rows, tags = ss_idle(rng), set()
    for _ in range(rng.range(16, 22)):
        payload = rng.bytes(rng.weighted([(2, 0), (2, 1), (2, 2), (2, 3), (2, 4), (6, rng.range(5, 24))]))
        kind = rng.weighted(HDR_KINDS + [(3, "crc32-field"), (2, "payload-bit")])
        dw = make_header(rng, S.data_header(len(payload), addr=rng.bits(7), seq=rng.bits(5), ep=rng.bits(4),
                                            direction=rng.bits(1), eob=rng.bits(1), setup=rng.bits(1),
                                            stream_id=rng.bits(16)), kind)
        x32 = nz_mask(rng, 32) if kind == "crc32-field" else 0
        dpp = S.dpp_words(payload, x32)
        if kind == "payload-bit" and payload:
            b = rng.below(8 * len(payload))
            d, c = dpp[1 + b // 32]
            dpp[1 + b // 32] = (d ^ (1 << (b % 32)), c)
        tags.add("adp:" + kind)
        tags.add("adp-tail%d" % (len(payload) % 4))
        rows += ss_rows(rng, [S.HPSTART] + [(w, 0) for w in dw] + dpp) + ss_idle(rng)
    return rows, tags


def run_adp(desc):
    from luna.gateware.usb.usb3.link.data import DataPacketReceiver
    dut = DataPacketReceiver()
    if desc.get("stimulus"):
        stim, tags = desc["stimulus"], set()
    else:
        stim, tags = stim_adp(Rng(desc["seed"]))
    rows = sim.run_cycles(dut, [dut.sink.valid, dut.sink.data, dut.sink.ctrl],
                          [dut.packet_good, dut.packet_bad, dut.source.valid], stim, domain="ss")
    fails = []
    vw = valid_words(stim)
    i = 0
    while i + 5 < len(vw):
        if (vw[i][1], vw[i][2]) != S.HPSTART:
            i += 1
            continue
        t0 = vw[i][0]
        ws = vw[i + 1:i + 5]
        dw = [w[1] for w in ws]
        L = dw[1] >> 16
        nw = (L + 4 + 3) // 4
        body = vw[i + 6:i + 6 + nw]
        if (any(w[2] for w in ws) or dw[0] & 31 != DATA_TYPE or (vw[i + 5][1], vw[i + 5][2]) != S.DPPSTART or L > 1024
                or len(body) < nw):
            i += 1
            continue                                  # not a well-formed data packet: not judged here
        i += 6 + nw
        bs = [(w[1] >> (8 * j)) & 0xFF for w in body for j in range(4)]
        ks = [(w[2] >> j) & 1 for w in body for j in range(4)]
        if any(ks[:L + 4]):
            continue
        payload, crc = bs[:L], sum(bs[L + j] << (8 * j) for j in range(4))
        ok5, ok16 = header_verdict(dw)
        ok32 = U.usb3_crc32(payload) == crc
        t1 = body[-1][0]
        seg = rows[t0:t1 + 3]
        good, bad, streamed = (int(any(r[k] for r in seg)) for k in range(3))
        hdr = int(good or bad or streamed)
        tags.add("adp-accepted" if good else "adp-hdr-accepted" if hdr else "adp-rejected")
        text = ("DataPacketReceiver: data packet (header %s, %d payload bytes, CRC-32 field %#010x) in cycles %d..%d: "
                "header CRC-5 %s, header CRC-16 %s, payload CRC-32 %s; "
                % ([hex(w) for w in dw], L, crc, t0, t1, "correct" if ok5 else "wrong", "correct" if ok16 else "wrong",
                   "correct" if ok32 else "wrong"))
        if hdr != int(ok5 and ok16):
            first(fails, {"cycle": t1, "sig": "usb3-data-header-crc-accept", "what": text +
                          "payload streamed=%d packet_good=%d packet_bad=%d (a data packet header is taken exactly when "
                          "both of its check fields are correct)" % (streamed, good, bad)})
        elif good != int(ok5 and ok16 and ok32):
            first(fails, {"cycle": t1, "sig": "usb3-data-packet-crc-accept", "what": text + "packet_good=%d" % good})
    return Case([13, 0], stim, [list(r) for r in rows], fails, sorted(tags), desc, ["valid", "data", "ctrl"],
                ["packet_good", "packet_bad", "source.valid"], lean=False)


RUNNERS = {"a16": run_a16, "alc": run_alc, "ahp": run_ahp, "adp": run_adp}
