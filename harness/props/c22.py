"""C22 — ULPI receive path (luna/gateware/interface/ulpi.py: UTMITranslator rx logic + ULPIRxEventDecoder)."""
from harness.common.framework import Case
from harness.common.rng import Rng
from harness.common import sim
from harness.props import ulpi_phy as U

PROP = "C22"
LEAN_MODULES = ["LunaVerif.Props.C22"]
DRIVER = "Driver/C22.lean"
REQUIRED_THEOREMS = ["ulpi_rx_bytes_exact", "rx_active_follows", "status_equals_last_rxcmd"]
RULE = ("(utmi) the real UTMITranslator with a behavioural PHY producing DIR-high episodes from the ULPI 1.1 receive "
        "grammar (start by DIR+NXT or by RxCmd, RxCmds mid-packet, end by RxCmd or by DIR falling, back-to-back "
        "episodes), while the UTMI side transmits and the control inputs change at arbitrary moments (register "
        "writes pending/in flight during RxCmds); a share of cases leaves LegalUlpiPhy on purpose (only the RxCmd "
        "status claim is monitored there); (utmi, has_rst) the same on a bus record that HAS a `rst` member, where the "
        "translator holds back its own bus activity for the first 60000 cycles after reset (phy_ready) while the PHY "
        "sends RxCmds and packets from the first cycles on: two of three cases lie wholly inside that start-up window, "
        "in the third the start-up timer is preloaded so that the window ends in mid-case (tags rst-startup-window, "
        "rst-startup-ends-midcase); same monitor, the receive claims do not depend on the start-up delay; (dec) the real ULPIRxEventDecoder alone with a free "
        "register_operation_in_progress input.  The Lean driver evaluates LegalUlpiPhy and the PHY-side account "
        "on every stimulus and the result is compared with the Python generator's own account")
ASSUMPTIONS = [
    "LegalUlpiPhy (lean/LunaVerif/Model/Ulpi/Spec.lean): (1) a data byte (NXT high after the turnaround cycle) is "
    "only presented while the PHY's RxActive is high; (2) not in the cycle directly after the RxCmd that raised "
    "RxActive (at least one non-NXT cycle follows a start by RxCmd); (3) an RxCmd raises RxActive only if the "
    "previous RxCmd (possibly long ago) had RxActive low, i.e. after a packet ended by DIR falling the next one "
    "starts with DIR+NXT or is preceded by an RxCmd with RxActive low; (4) an RxCmd lowers RxActive only if the "
    "previous RxCmd had RxActive high, i.e. a start by DIR+NXT is followed by the RxCmd announcing RxActive before "
    "the one ending it",
    "status_equals_last_rxcmd holds for every history (no assumption)",
    "register reads are never issued by UTMITranslator (the control translator ties read_request low; proved: "
    "utmi_never_reads); for the stand-alone decoder, register-read data is presented with NXT low and "
    "register_operation_in_progress high",
]
PARTIAL = ""

DEC_IN = ["dir", "nxt", "data", "register_operation_in_progress"]
DEC_OUT = ["last_rx_command", "rx_start", "rx_stop", "line_state", "vbus_valid", "session_valid", "session_end",
           "rx_active", "rx_error", "host_disconnect", "id_digital"]
EXTRA = ["phy_bus", "phy_r04", "phy_r0A", "phy_other", "phy_writes", "spec_act", "spec_last", "spec_legal",
         "spec_data"]


def gen_cases(tier, rng):
    n_utmi, n_dec = {"quick": (110, 40), "widen": (400, 150)}.get(tier, (400, 150))
    n_rst = {"quick": 24}.get(tier, 80)
    out = []
    for k in range(n_utmi):
        out.append({"kind": "utmi", "seed": rng.u64(), "k": k})
    for k in range(n_dec):
        out.append({"kind": "dec", "seed": rng.u64(), "k": k})
    # appended after the older cases so that their seeds do not move
    for k in range(n_rst):
        out.append({"kind": "utmi", "seed": rng.u64(), "k": k, "has_rst": 1})
    return out


def decode(cmd):
    """RxCmd fields from ULPI 1.1 table 7 (independent of the gateware's slicing)."""
    vb = (cmd >> 2) & 3
    ev = (cmd >> 4) & 3
    return [cmd & 3, int(vb == 3), int(vb == 2), int(vb == 0), int(ev == 3), int(ev == 2), (cmd >> 6) & 1]


def run_utmi(desc):
    # Replays of reactive (closed-loop) cases re-run the behavioural PHY from the recorded seed instead of
    # applying the recorded pin values open loop: the PHY's inputs depend on what the gateware does, so an
    # open-loop replay on a different tree would present an incoherent (illegal) PHY.
    if desc.get("stimulus") and not desc.get("corpus") and not desc.get("note"):   # hand-made corpus traces stay open loop
        desc = dict(desc)
        desc["cycles"] = max(1, len(desc.pop("stimulus")))
    rng = Rng(desc["seed"])
    k = desc.get("k", 0)
    n = desc.get("cycles", 600)
    # `has_rst`: the bus record has a `rst` member, so the translator keeps its own link-side activity off the bus
    # for the first 60000 cycles after reset (phy_ready); the PHY talks from the first cycle on.  Two of three such
    # cases start at reset and stay inside that window, the third has the start-up timer preloaded so that the
    # window ends in mid-case.  The receive claims are judged exactly as without `rst`.
    has_rst = bool(desc.get("has_rst", False))
    dut, ins, outs = U.make_translator(has_rst)
    cfg, preload = [0, 0, 0], None
    if has_rst:
        pre = U.CYCLES_1_MS - rng.range(40, max(41, n - 40)) if k % 3 == 2 else 0
        cfg = [0, 1, pre]
        preload = ("startup_counter", pre) if pre else None
    agent = None
    if not desc.get("stimulus"):
        p = {"rx_rate": rng.choice([30, 80, 200, 500]), "rx_max_items": rng.choice([4, 14, 40]),
             "ctrl_mode": rng.choice(["const", "wild", "wild"]), "ctrl_rate": rng.choice([5, 20, 60]),
             "tx_rate": rng.choice([0, 20, 100]), "abort_rate": rng.choice([0, 10, 40]),
             "nxt_delay": rng.choice([0, 2, 6]), "illegal_rx": k % 6 == 5}
        agent = U.Agent(rng, p, dict(U.DEFAULT_CTRL) if k % 2 else U.random_ctrl(rng))
    rows_in, rows_out = U.run_reactive(dut, ins, outs, n, agent=agent, stimulus=desc.get("stimulus"),
                                       preload=preload)
    tags = set(agent.tags) if agent else set()
    if has_rst:
        tags.add("rst-startup-window" if not cfg[2] else "rst-startup-ends-midcase")
    fails, extra = monitor_rx(rows_in, rows_out, tags)
    outs_cmp = [list(o) + [None] * 5 + e for o, e in zip(rows_out, extra)]
    return Case(cfg, rows_in, outs_cmp, fails, sorted(tags), desc, U.UTMI_IN, U.UTMI_OUT + EXTRA)


def monitor_rx(rows_in, rows_out, tags):
    O = U.O
    view = U.phy_rx_view(rows_in)
    extra = [[v["act"], v["last"], v["legal"], 256 if v["data"] is None else v["data"]] for v in view]
    fails = []
    legal = all(v["legal"] for v in view)
    tags.add("legal-phy" if legal else "outside-LegalUlpiPhy")
    for t in range(len(rows_in)):
        o = rows_out[t]
        prev = view[t - 1] if t else {"data": None, "act": 0, "last": 0, "legal": 1}
        # line state / VBUS flags = most recent RxCmd (every history)
        if o[O["last_rx_command"]] != prev["last"]:
            fails.append({"cycle": t, "sig": "rxcmd-status-stale", "what":
                          "last_rx_command=0x%02x but the most recent RxCmd sent by the PHY is 0x%02x"
                          % (o[O["last_rx_command"]], prev["last"])})
            break
        if [o[O[n]] for n in U.UTMI_OUT[9:]] != decode(prev["last"]):
            fails.append({"cycle": t, "sig": "rxcmd-status-decode", "what":
                          "status flags %s do not decode RxCmd 0x%02x" % ([o[O[n]] for n in U.UTMI_OUT[9:]], prev["last"])})
            break
        if not legal:
            continue
        want_valid = int(prev["data"] is not None)
        if o[O["rx_valid"]] != want_valid:
            fails.append({"cycle": t, "sig": "rx-byte-lost-or-invented", "what":
                          "rx_valid=%d, but in the previous cycle the PHY presented %s"
                          % (o[O["rx_valid"]], "data byte 0x%02x" % prev["data"] if want_valid else "no data byte")})
            break
        if want_valid and o[O["rx_data"]] != prev["data"]:
            fails.append({"cycle": t, "sig": "rx-byte-value", "what":
                          "rx_data=0x%02x, PHY presented 0x%02x" % (o[O["rx_data"]], prev["data"])})
            break
        if t >= 2 and view[t - 1]["act"] == view[t - 2]["act"] and o[O["rx_active"]] != view[t - 1]["act"]:
            fails.append({"cycle": t, "sig": "rx-active-does-not-follow", "what":
                          "rx_active=%d although the PHY's RxActive has been %d for two cycles"
                          % (o[O["rx_active"]], view[t - 1]["act"])})
            break
    return fails, extra


def run_dec(desc):
    from luna.gateware.interface.ulpi import ULPIRxEventDecoder
    rng = Rng(desc["seed"])
    ulpi = U.make_ulpi_record(False)
    dut = ULPIRxEventDecoder(ulpi_bus=ulpi)
    ins = [ulpi.dir.i, ulpi.nxt.i, ulpi.data.i, dut.register_operation_in_progress]
    outs = [dut.last_rx_command, dut.rx_start, dut.rx_stop, dut.line_state, dut.vbus_valid, dut.session_valid,
            dut.session_end, dut.rx_active, dut.rx_error, dut.host_disconnect, dut.id_digital]
    stim = desc.get("stimulus")
    if not stim:
        stim = []
        pd, pn, pr = rng.choice([30, 70, 95]), rng.choice([10, 40, 70]), rng.choice([0, 10, 40])
        d = 0
        for _ in range(400):
            if rng.chance(100 - pd if d else 100 - pd):
                d = 1 - d
            stim.append([d, int(rng.chance(pn)), rng.below(256), int(rng.chance(pr))])
    rows = sim.run_cycles(dut, ins, outs, stim, domain="usb")
    fails = []
    last, prev_dir = 0, 0
    for t, (i, o) in enumerate(zip(stim, rows)):
        if o[0] != last:
            fails.append({"cycle": t, "sig": "decoder-last-rxcmd", "what":
                          "last_rx_command=0x%02x, most recent unmasked RxCmd is 0x%02x" % (o[0], last)})
            break
        if i[0] and prev_dir and not i[1] and not i[3]:
            last = i[2]
        prev_dir = i[0]
    tags = ["dec"]
    return Case([2], stim, rows, fails, tags, desc, DEC_IN, DEC_OUT)


def run_case(desc):
    if desc.get("kind") == "dec":
        return run_dec(desc)
    return run_utmi(desc)
