"""Helpers shared by the IN-endpoint checks (C11, C15, C17, C29): a closed-loop variant of
`sim.run_cycles` (the host/producer agent sees the outputs of *earlier* cycles, like a real host that
reacts to what the device transmitted), recording the rows it drove so that a case replays open loop
from `desc["stimulus"]`."""
from harness.common import sim


def run_closed(dut, inputs, outputs, agent, ncycles, domain="usb"):
    """Per cycle: row = agent(t, outs_of_cycle_t_minus_1 or None); SET inputs; READ outputs; TICK.
    Returns (stimulus_rows, output_rows)."""
    from amaranth.sim import Simulator
    top = sim._Wrap(dut, [domain])
    s = Simulator(top)
    s.add_clock(1e-6, domain=domain)
    imask = [(1 << len(i)) - 1 for i in inputs]
    omask = [(1 << len(o)) - 1 for o in outputs]
    stim, rows = [], []

    async def tb(ctx):
        prev = None
        for t in range(ncycles):
            row = [int(v) & m for v, m in zip(agent(t, prev), imask)]
            for sig, v in zip(inputs, row):
                ctx.set(sig, v)
            out = tuple(ctx.get(o) & m for o, m in zip(outputs, omask))
            stim.append(row)
            rows.append(out)
            prev = out
            await ctx.tick(domain)

    s.add_testbench(tb)
    s.run()
    return stim, rows


def run(dut, inputs, outputs, desc, agent_factory, ncycles, domain="usb"):
    """Closed loop from the agent, or open-loop replay when the description carries a stimulus."""
    if desc.get("stimulus"):
        stim = [list(r) for r in desc["stimulus"]]
        rows = sim.run_cycles(dut, inputs, outputs, stim, domain=domain)
        return stim, [tuple(r) for r in rows]
    return run_closed(dut, inputs, outputs, agent_factory(), ncycles, domain=domain)
