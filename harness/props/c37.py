"""C37 — received header packets are accepted, acknowledged and buffered exactly
(luna/gateware/usb/usb3/link/receiver.py: RawHeaderPacketReceiver + HeaderPacketReceiver)."""
from harness.common.framework import Case
from harness.common.rng import Rng
from harness.props import sslink_util as U

PROP = "C37"
LEAN_MODULES = ["LunaVerif.Props.C37", "LunaVerif.Props.C37Live"]
DRIVER = "Driver/C37.lean"
REQUIRED_THEOREMS = ["accept_iff_crcs_and_seq", "queue_delivers_accepted_in_order_once", "lgood_carries_seq",
                     "lbad_then_ignore_until_retry", "credit_invariant", "lgood_within", "lcrd_within",
                     "lbad_within", "lrty_within", "lxu_within", "keepalive_within"]
RULE = ("cases = closed-loop link partner (header stream: good / bad CRC-5 / bad CRC-16 / wrong sequence / "
        "retries after LBAD, honouring credits and LGOODs) x consumer timing x link-command back-pressure x "
        "retry/keepalive/power-state strobes; plus a 'chaos' stream that ignores credits and flow control "
        "(model comparison + strobe formulas only)")
ASSUMPTIONS = [
    "the link stays enabled and no USB reset occurs (C38 covers re-entry)",
    "the partner sends a new header only while it holds an advertised, unused credit (accepted headers <= LCRDs sent)",
    "the partner never has more than four unacknowledged headers in flight (it has four transmit buffers)",
    "CRC reference functions: Core/Crc.lean usb3Crc5/usb3Crc16 (Python twin validated against compute_usb_crc5 and "
    "HeaderPacketCRC on every run; model vs gateware compared on every header, good and corrupted)",
    "liveness theorems only: bounded fairness of the link-command generator's sink - never K consecutive cycles "
    "without source.ready (K universally quantified)",
]
PARTIAL = ("the liveness bounds for LXU and the keepalive count the cycles that bring new higher-priority work (header "
           "accepted, buffer freed, corrupted header, retry_required, reject_power_state): as coded they have the lowest "
           "priorities in DISPATCH_COMMAND and can be postponed for as long as saturating traffic lasts, so no bound in K "
           "alone exists; the bounds for LGOOD / LCRD / LBAD count the retry_required pulses of the window (one LRTY each)")

IN_NAMES = ["sink_valid", "sink_data", "sink_ctrl", "source_ready", "enable", "usb_reset", "queue_ready",
            "retry_received", "retry_required", "keepalive_required", "reject_power_state",
            "accept_power_state", "acknowledge_power_state"]
OUT_NAMES = ["source_valid", "source_data", "source_ctrl", "queue_valid", "q_dw0", "q_dw1", "q_dw2", "q_dw3",
             "lrty_pending", "recovery_required", "link_command_sent", "packet_received", "bad_packet_received"]
(I_SV, I_SD, I_SC, I_RDY, I_EN, I_RST, I_QR, I_RRX, I_RRQ, I_KA, I_REJ, I_ACC, I_ACK) = range(13)
(O_SV, O_SD, O_SC, O_QV, O_Q0, O_Q1, O_Q2, O_Q3, O_LRTY, O_REC, O_SENT, O_PR, O_BPR) = range(13)


def build():
    from amaranth import Cat
    from luna.gateware.usb.usb3.link.receiver import HeaderPacketReceiver
    dut = HeaderPacketReceiver()
    h = dut.queue.header
    ins = [dut.sink.valid, dut.sink.data, dut.sink.ctrl, dut.source.ready, dut.enable, dut.usb_reset,
           dut.queue.ready, dut.retry_received, dut.retry_required, dut.keepalive_required,
           dut.reject_power_state, dut.accept_power_state, dut.acknowledge_power_state]
    outs = [dut.source.valid, dut.source.data, dut.source.ctrl, dut.queue.valid, h.dw0, h.dw1, h.dw2,
            Cat(h.crc16, h.sequence_number, h.dw3_reserved, h.hub_depth, h.delayed, h.deferred, h.crc5),
            dut.lrty_pending, dut.recovery_required, dut.link_command_sent, dut.packet_received,
            dut.bad_packet_received]
    return dut, ins, outs


_abort = None


def generator_abort():
    """1 when the gateware under test resets its link command generator on link_reset (second C38 repair), else 0.
    Functional probe: stall the bring-up LGOOD in the generator, drop `enable`, look at source.valid afterwards."""
    global _abort
    if _abort is None:
        dut, ins, outs = build()
        def row(en):
            r = [0] * len(ins)
            r[I_EN] = en
            return r
        _, orows = U.run_open(dut, ins, outs, [row(1)] * 5 + [row(0)] * 3)
        assert orows[4][O_SV] == 1, "probe: the generator should be stalled in its header word"
        _abort = 0 if orows[7][O_SV] else 1
    return _abort


# ------------------------------------------------------------------------------------------- stimulus
class Pattern:
    """a ready/strobe pattern: probability per phase, phases of random length"""

    def __init__(self, rng, choices, phase=(5, 120)):
        self.rng, self.choices, self.phase = rng, choices, phase
        self.left, self.p = 0, 0

    def next(self):
        if self.left == 0:
            self.p = self.rng.choice(self.choices)
            self.left = self.rng.range(*self.phase)
        self.left -= 1
        return 1 if self.rng.chance(self.p) else 0


class Partner:
    """Link partner + protocol layer + local transmitter strobes, driving HeaderPacketReceiver."""

    def __init__(self, rng, desc, link=None):
        self.rng = rng
        self.mode = desc.get("mode", "legal")
        self.link = link                       # callable t -> (enable, usb_reset); C37: enable after a delay
        self.en_delay = desc.get("en_delay", 0)
        k = desc.get("k", 0)
        self.rdy = Pattern(rng, [[100], [100, 90, 50], [100, 30, 5, 0], [60, 10]][k % 4])
        self.qr = Pattern(rng, [[100], [100, 50, 0], [20, 0, 0, 100], [3, 0, 100]][(k // 4) % 4])
        self.p_send = [95, 60, 25, 8][(k // 16) % 4]
        self.p_corrupt = desc.get("p_corrupt", 15)
        self.p_strobe = desc.get("p_strobe", 1)
        self.txq = []            # rows to drive on the sink: (valid, data, ctrl, retry_received)
        self.credits = 0
        self.next_seq = None     # None until the sequence advertisement has been seen
        self.unacked = []        # (dw0, dw1, dw2, seq)
        self.need_retry = False
        self.prev_in = None
        self.cmd_hdr = False
        self.tags = set()
        self.n_sent = 0

    # -- observe the link commands the DUT completed in the previous cycle
    def observe(self, prev_in, prev_out):
        if not (prev_out[O_SV] and prev_in[I_RDY]):
            return
        if prev_out[O_SC] == 15 and prev_out[O_SD] == U.LCSTART:
            self.cmd_hdr = True
            return
        if not self.cmd_hdr:
            return
        self.cmd_hdr = False
        d = U.lc_decode(prev_out[O_SD])
        if d is None:
            return
        cmd, sub = d
        if cmd == U.LCRD:
            self.credits += 1
        elif cmd == U.LGOOD:
            if self.next_seq is None:
                self.next_seq = (sub + 1) % 8
            elif self.unacked and self.unacked[0][3] == sub:
                self.unacked.pop(0)
        elif cmd == U.LBAD:
            self.need_retry = True

    def push_header(self, hdr, corrupt):
        dw0, dw1, dw2, seq = hdr
        r = self.rng
        dw3 = U.header_dw3(dw0, dw1, dw2, seq, r.below(8), r.below(8), r.below(2), r.below(2))
        if corrupt == "crc5":
            dw3 ^= 1 << r.range(16, 31)
        elif corrupt == "crc16":
            if r.chance(50):
                dw3 ^= 1 << r.range(0, 15)
            else:
                w = r.below(3)
                hdr = list(hdr)
                hdr[w] ^= 1 << r.below(32)
                dw0, dw1, dw2 = hdr[:3]
        elif corrupt == "both":
            dw3 ^= (1 << r.range(16, 31)) | (1 << r.range(0, 15))
        elif corrupt == "seq":
            dw3 = U.header_dw3(dw0, dw1, dw2, (seq + r.range(1, 7)) % 8, r.below(8), r.below(8), 0, 0)
        if corrupt:
            self.tags.add("hdr:" + corrupt)
        else:
            self.tags.add("hdr:good")
        rows = [(1, U.HPSTART, 15, 0)]
        for w in (dw0, dw1, dw2, dw3):
            while r.chance(12):
                rows.append((0, r.bits(32), r.below(16), 0))   # invalid gap inside the header
            rows.append((1, w, 0, 0))
        rows.append((r.below(2), 0, 0, 0))                      # CHECK_PACKET cycle
        self.txq.extend(rows)

    def plan(self):
        """decide what to put on the sink next (called when the transmit queue is empty)"""
        r = self.rng
        if self.mode == "chaos":
            k = r.below(10)
            if k < 5:
                hdr = (r.bits(32), r.bits(32), r.bits(32), r.below(8) if r.chance(30) else self.n_sent % 8)
                self.n_sent += 1
                self.push_header(hdr, r.weighted([(6, None), (1, "crc5"), (1, "crc16"), (1, "both")]))
            elif k < 7:
                self.txq.append((1, U.HPSTART if r.chance(30) else r.bits(32), r.choice([0, 15, 15, r.below(16)]), 0))
            elif k < 8:
                self.txq.append((0, 0, 0, 1))
            else:
                self.txq.extend([(r.below(2), 0, 0, 0)] * r.range(1, 12))
            return
        if self.next_seq is None:
            self.txq.append((r.below(2), 0, 0, 0))
            return
        if self.need_retry:
            self.need_retry = False
            self.tags.add("retry-round")
            self.txq.extend([(r.below(2), 0, 0, 0)] * r.range(0, 6))
            self.txq.append((r.below(2), 0, 0, 1))                  # the LRTY seen by our transmitter
            self.txq.extend([(r.below(2), 0, 0, 0)] * r.range(0, 3))
            for hdr in self.unacked:
                self.push_header(hdr, self.pick_corruption(retry=True))
            return
        if self.credits > 0 and len(self.unacked) < 4 and r.chance(self.p_send):
            hdr = (r.bits(32), r.bits(32), r.bits(32), self.next_seq)
            c = self.pick_corruption()
            if c == "seq":
                # an extra header with a wrong sequence number; not one of ours (no credit, never retried)
                self.push_header(hdr, c)
                return
            self.credits -= 1
            self.next_seq = (self.next_seq + 1) % 8
            self.unacked.append(hdr)
            self.push_header(hdr, c)
            return
        self.txq.extend([(r.below(2), 0 if r.chance(80) else r.bits(32), 0, 0)] * r.range(1, 10))

    def pick_corruption(self, retry=False):
        r = self.rng
        if not r.chance(self.p_corrupt // (2 if retry else 1)):
            return None
        return r.weighted([(3, "crc5"), (3, "crc16"), (1, "both"), (0 if retry else 2, "seq")])

    def drive(self, t, prev_out):
        r = self.rng
        if prev_out is not None:
            self.observe(self.prev_in, prev_out)
        if not self.txq:
            self.plan()
        v, d, c, retry = self.txq.pop(0) if self.txq else (0, 0, 0, 0)
        if self.link is not None:
            en, rst = self.link(t, self, prev_out)
        else:
            en, rst = (1 if t >= self.en_delay else 0), 0
        if self.mode == "chaos" and r.chance(1):
            retry = 1
        ps = self.p_strobe
        row = [v, d, c, self.rdy.next(), en, rst, self.qr.next(), retry,
               1 if r.chance(ps) else 0, 1 if r.chance(ps) else 0, 1 if r.chance(ps, 200) else 0,
               1 if r.chance(ps) else 0, 1 if r.chance(ps) else 0]
        self.prev_in = row
        return row


# ------------------------------------------------------------------------------------------- monitor
class Monitor:
    """The property, evaluated on the real trace (inputs + observed ports), independent of the Lean model.

    It re-frames the sink stream (HPSTART, the next four valid words, one check cycle), classifies every
    header with the reference CRCs, and follows only what the property talks about: which headers must be
    accepted, what the queue must offer, which link commands may appear."""

    def __init__(self):
        self.fails = []
        self.tags = set()

    def fail(self, t, sig, what):
        if len(self.fails) < 4:
            self.fails.append({"cycle": t, "sig": sig, "what": what})

    def run(self, irows, orows):
        """C37 part: acceptance, queue, LGOOD/LCRD/LBAD bookkeeping.  C38 part: every cycle with
        (last_enable & ~enable) | usb_reset starts a new *epoch*: buffered headers are dropped, the receive
        state is fresh, and the first five link commands after the link is up again must be LGOOD_(n-1),
        LCRD_A..D (checked when the environment of the theorem holds for that epoch)."""
        n = len(irows)
        # ---- framing of the sink stream
        exp_new = [0] * (n + 3)       # header whose packet_received strobe is due at this cycle
        accept_at = {}                # cycle of the buffer write -> header words
        bad_at = {}
        collecting = None
        skip = -1
        pending_check = {}
        for t, r in enumerate(irows):
            if t == skip:
                continue
            if collecting is None:
                if r[I_SV] and r[I_SD] == U.HPSTART and r[I_SC] == 15:
                    collecting = []
            elif r[I_SV]:
                collecting.append(r[I_SD])
                if len(collecting) == 4:
                    pending_check[t + 1] = tuple(collecting)
                    collecting = None
                    skip = t + 1
        # ---- replay of the link-level bookkeeping the property defines
        ignore = False
        expected = 0
        accepted = []            # (header words, cycle from which the queue must show it)
        popped = 0
        pop_base = 0             # value of `popped` at the start of the epoch
        lgoods, lcrds, lbads = 0, 0, 0
        adv = 7                  # sequence number the epoch's first LGOOD must carry
        ack_base = 0             # index into `accepted` of the first header of this epoch
        bad_events = []          # cycles of corrupted, non-ignored headers (this epoch)
        all_bad_events = []
        total_lbads = 0
        env_ok = True
        lc_ok = True
        cmd_hdr = False
        reset_since_hdr = False      # a link_reset since the last SLC header word (the command may be aborted)
        counts = {"rrq": 0, "ka": 0, "rej": 0, U.LRTY: 0, U.LUP: 0, U.LXU: 0}
        maxfill = 0
        last_enable = 0
        # epoch (C38) state
        epoch = None             # None = initial epoch after power-on reset (checked the same way)
        ep = {"start": -1, "t_en": None, "checked": True, "cmds": [], "adv": 7, "rrq": False, "kind": "power-on",
              "phase": "idle"}
        for t in range(n):
            i, o = irows[t], orows[t]
            # -- strobes of the raw receiver
            want_bad = want_new = want_rec = 0
            if t in pending_check:
                words = pending_check[t]
                c5, c16, seq = U.header_ok(words)
                if not (c5 and c16):
                    want_bad = 1
                    self.tags.add("rx:bad-crc5" if not c5 else "rx:bad-crc16")
                    if not ignore:
                        bad_at[t] = words
                    else:
                        self.tags.add("rx:bad-while-ignoring")
                elif seq != expected:
                    self.tags.add("rx:bad-seq")
                    want_rec = 0 if ignore else 1
                else:
                    exp_new[t + 1] = words
            if isinstance(exp_new[t], tuple):
                want_new = 1
                if not ignore:
                    accept_at[t] = exp_new[t]
                else:
                    self.tags.add("rx:good-while-ignoring")
            if o[O_BPR] != want_bad:
                self.fail(t, "bad-packet-strobe", "bad_packet_received=%d, the header's CRCs say %d" % (o[O_BPR], want_bad))
            if o[O_PR] != want_new:
                self.fail(t, "accept-iff-crc-seq", "packet_received=%d but CRC-5/CRC-16/sequence of the header say %d"
                          % (o[O_PR], want_new))
            if o[O_REC] != want_rec:
                self.fail(t, "recovery-strobe", "recovery_required=%d, expected %d" % (o[O_REC], want_rec))
            # -- the queue offered to the protocol layer
            visible = sum(1 for a in accepted[popped:] if a[1] <= t)
            if env_ok:
                if o[O_QV] != (1 if visible > 0 else 0):
                    self.fail(t, "queue-valid" if ep["start"] < 0 or t > ep["start"] + 1 else "reenable-stale-buffers",
                              "queue.valid=%d with %d accepted, undelivered header(s)" % (o[O_QV], visible))
                elif visible > 0:
                    got = (o[O_Q0], o[O_Q1], o[O_Q2], o[O_Q3])
                    if got != accepted[popped][0]:
                        self.fail(t, "queue-order", "queue offers %s, the oldest accepted undelivered header is %s"
                                  % (["%08x" % x for x in got], ["%08x" % x for x in accepted[popped][0]]))
            did_pop = bool(o[O_QV] and i[I_QR])
            if did_pop:
                popped += 1
                self.tags.add("pop")
            maxfill = max(maxfill, len(accepted) - popped)
            # -- the epoch's enable point
            reset_ev = bool((last_enable and not i[I_EN]) or i[I_RST])
            if ep["t_en"] is None and i[I_EN] and not reset_ev and t > ep["start"]:
                ep["t_en"] = t
                if o[O_SV]:
                    # the command in flight at link-down has not drained (generator without abort): the epoch is
                    # checked like every other - the stale command must not be sent, the advertisement must follow
                    ep["busy"] = True
                    self.tags.add("epoch:generator-busy-at-enable")
            # -- link commands on the source
            if o[O_SV] and i[I_RDY]:
                is_hdr = (o[O_SD] == U.LCSTART and o[O_SC] == 15)
                if not cmd_hdr or (is_hdr and reset_since_hdr):
                    if cmd_hdr:
                        self.tags.add("lc-truncated-by-link-down")   # generator with abort: the stale command is dropped
                    if not is_hdr:
                        self.fail(t, "lc-framing", "link command does not start with SLC SLC SLC EPF")
                    cmd_hdr = True
                    reset_since_hdr = False
                else:
                    cmd_hdr = False
                    d = U.lc_decode(o[O_SD]) if o[O_SC] == 0 else None
                    if not o[O_SENT]:
                        self.fail(t, "lc-sent-strobe", "link_command_sent not pulsed with the command word")
                    if d is None:
                        self.fail(t, "lc-word", "malformed link command word %08x" % o[O_SD])
                    elif ep["t_en"] is None:
                        self.tags.add("lc-while-down:" + U.LC_NAMES.get(d[0], str(d[0])))   # stale command draining
                    else:
                        cmd, sub = d
                        self.tags.add("lc:" + U.LC_NAMES.get(cmd, str(cmd)))
                        # C38: the first five commands of the epoch
                        if ep["checked"] and len(ep["cmds"]) < 5:
                            k = len(ep["cmds"])
                            want = (U.LGOOD, ep["adv"]) if k == 0 else (U.LCRD, k - 1)
                            if ep["rrq"]:
                                ep["checked"] = False
                                self.tags.add("epoch:retry-request-during-advertisement")
                            elif (cmd, sub) != want and ep.get("busy"):
                                self.fail(t, "reenable-stale-command",
                                          "command #%d after link re-entry at cycle %d (%s, during %s) is %s_%d, expected %s_%d: "
                                          "the link command that was in flight when the link went down was still in the "
                                          "generator when enable rose and %s"
                                          % (k + 1, ep["start"], ep["kind"], ep["phase"], U.LC_NAMES.get(cmd, cmd), sub,
                                             U.LC_NAMES[want[0]], want[1],
                                             "went out ahead of the advertisement" if k == 0 else
                                             "its completion was taken for the LGOOD advertisement"))
                                ep["checked"] = False
                                lc_ok = False
                            elif (cmd, sub) != want:
                                self.fail(t, "reenable-advert" if ep["start"] >= 0 else "initial-advert",
                                          "command #%d after link %s at cycle %d (%s, during %s) is %s_%d, expected %s_%d"
                                          % (k + 1, "re-entry" if ep["start"] >= 0 else "bring-up", ep["start"], ep["kind"],
                                             ep["phase"], U.LC_NAMES.get(cmd, cmd), sub, U.LC_NAMES[want[0]], want[1]))
                                ep["checked"] = False
                            else:
                                ep["cmds"].append((cmd, sub))
                                if len(ep["cmds"]) == 5 and ep["start"] >= 0:
                                    self.tags.add("epoch-ok:%s:%s" % (ep["kind"], ep["phase"]))
                        if not lc_ok:
                            pass
                        elif cmd == U.LGOOD:
                            if sub != (adv + lgoods) % 8:
                                self.fail(t, "lgood-seq", "LGOOD_%d sent, the next header to acknowledge is %d"
                                          % (sub, (adv + lgoods) % 8))
                            if env_ok and lgoods >= 1:
                                k = ack_base + lgoods - 1
                                if k >= len(accepted) or accepted[k][1] > t:
                                    self.fail(t, "lgood-unreceived", "LGOOD_%d sent before a header with that number was accepted" % sub)
                                elif (accepted[k][0][3] >> 16) & 7 != sub:
                                    self.fail(t, "lgood-seq", "LGOOD_%d acknowledges header with sequence number %d"
                                              % (sub, (accepted[k][0][3] >> 16) & 7))
                            lgoods += 1
                        elif cmd == U.LCRD:
                            if sub != lcrds % 4:
                                self.fail(t, "lcrd-order", "LCRD_%s sent, next in A-B-C-D order is %s" % ("ABCD"[sub % 4], "ABCD"[lcrds % 4]))
                            lcrds += 1
                            if env_ok and lcrds > 4 + (popped - pop_base) - (1 if did_pop else 0):
                                self.fail(t, "credit-overrun", "%d credits advertised with only %d buffers freed"
                                          % (lcrds, popped - pop_base))
                        elif cmd == U.LBAD:
                            lbads += 1
                            total_lbads += 1
                            if lbads > len(bad_events):
                                self.fail(t, "lbad-spurious", "LBAD without a corrupted header")
                        elif cmd in (U.LRTY, U.LUP, U.LXU):
                            counts[cmd] += 1
                            lim = {U.LRTY: "rrq", U.LUP: "ka", U.LXU: "rej"}[cmd]
                            if counts[cmd] > counts[lim]:
                                self.fail(t, "lc-unrequested", "%s sent without a request" % U.LC_NAMES[cmd])
                        else:
                            self.fail(t, "lc-unexpected", "unexpected link command %d" % cmd)
            elif o[O_SENT]:
                self.fail(t, "lc-sent-strobe", "link_command_sent without a command word transfer")
            counts["rrq"] += i[I_RRQ]
            counts["ka"] += i[I_KA]
            counts["rej"] += i[I_REJ]
            if i[I_RRQ] and len(ep["cmds"]) < 5:
                ep["rrq"] = True
            # -- register updates effective next cycle
            if t in accept_at:
                if len(accepted) - popped >= 4 or (len(accepted) - ack_base) - max(lgoods - 1, 0) >= 4:
                    env_ok = False          # the partner overran our buffers: outside the property's environment
                    self.tags.add("env-broken")
                if len(ep["cmds"]) < 2:
                    ep["checked"] = False   # a header before the first credit: outside the environment of C38
                accepted.append((accept_at[t], t + 1))
                expected = (expected + 1) % 8
                self.tags.add("accept")
            if t in bad_at:
                bad_events.append(t)
                all_bad_events.append(t)
            if i[I_RRX]:
                if ignore:
                    self.tags.add("retry-ends-ignore")
                ignore = False
            elif t in bad_at:
                ignore = True
            if reset_ev:
                if cmd_hdr:
                    reset_since_hdr = True
                # the reset-on-disable block: fresh receive state, buffered headers dropped
                phase = "idle" if not o[O_SV] else ("header" if o[O_SC] == 15 else "command")
                kind = ("usb_reset" if i[I_RST] else "") + ("+" if i[I_RST] and last_enable and not i[I_EN] else "") + \
                       ("disable" if (last_enable and not i[I_EN]) else "")
                if t in accept_at:
                    expected = (expected - 1) % 8      # written in the cycle of the reset: dropped, not counted
                if i[I_RST]:
                    expected = 0
                checked = not (t in accept_at or t in pending_check or (t + 1) in pending_check)
                if not checked:
                    self.tags.add("epoch:header-during-link-down")
                ignore = False
                popped = len(accepted)
                pop_base = popped
                ack_base = len(accepted)
                lgoods = lcrds = lbads = 0
                bad_events = []
                adv = (expected + 7) % 8
                env_ok = True
                lc_ok = t not in pending_check   # a header checked against the pre-reset sequence number in this
                #                                  very cycle is outside the environment (RxQuiet) of C38
                counts = {"rrq": 0, "ka": 0, "rej": counts["rej"] - counts[U.LXU], U.LRTY: 0, U.LUP: 0, U.LXU: 0}
                if ep["start"] != t - 1 or ep["t_en"] is not None:
                    self.tags.add("reset:%s:%s" % (kind, phase))
                    ep = {"start": t, "t_en": None, "checked": checked, "cmds": [], "adv": adv, "rrq": False,
                          "kind": kind, "phase": phase}
                else:          # the reset condition persists (usb_reset held): same epoch
                    ep["start"] = t
                    ep["adv"] = adv
                    ep["checked"] = ep["checked"] and checked
            last_enable = i[I_EN]
        self.tags.add("maxfill=%d" % maxfill)
        return None, all_bad_events, total_lbads


def lbad_liveness(mon, irows, orows, bad_events, lbads, ready_need=150):
    """every corrupted header noticed early enough must have produced its LBAD by the end of the trace"""
    n = len(irows)
    ready_after = 0
    cnt = [0] * (n + 1)
    for t in range(n - 1, -1, -1):
        cnt[t] = cnt[t + 1] + (1 if irows[t][I_RDY] else 0)
    due = sum(1 for t in bad_events if cnt[t] >= ready_need)
    if lbads < due:
        mon.fail(n - 1, "lbad-missing", "%d corrupted header(s) noticed, only %d LBAD sent although the link was "
                 "granted for more than %d further cycles" % (due, lbads, ready_need))


def gen_cases(tier, rng):
    n = {"quick": 64, "widen": 160, "thorough": 640}[tier]
    out = []
    for k in range(n):
        mode = "chaos" if k % 8 == 7 else "legal"
        out.append({"mode": mode, "k": rng.below(64) if k >= 64 else k, "seed": rng.u64(),
                    "cycles": 1400 if tier == "quick" else 2500,
                    "en_delay": rng.choice([0, 0, 1, 2, 7]), "p_corrupt": rng.choice([0, 10, 15, 30, 50]),
                    "p_strobe": rng.choice([0, 1, 1, 3])})
    return out


def run_case(desc):
    problems = U.validate_reference_crcs()
    if problems:
        # the gateware's own CRC logic no longer computes the USB 3.2 CRCs the property is stated with:
        # headers with correct check fields would be rejected (or corrupted ones accepted)
        return Case([0], [[0]], [[None]], [{"cycle": 0, "sig": "gateware-crc-differs-from-specification",
                    "what": "the link-layer CRC logic of the gateware disagrees with the USB 3.2 CRC-5/CRC-16 "
                            "definitions: %r" % (problems[:2],)}], ["crc-reference-mismatch"], desc, ["-"], ["-"],
                    lean=False)
    dut, ins, outs = build()
    if desc.get("stimulus"):
        irows, orows = U.run_open(dut, ins, outs, desc["stimulus"])
        ptags = set()
    else:
        p = Partner(Rng(desc["seed"]), desc)
        irows, orows = U.run_closed(dut, ins, outs, p.drive, desc.get("cycles", 1200))
        ptags = p.tags
    mon = Monitor()
    ready_at, bad_events, lbads = mon.run(irows, orows)
    if desc.get("mode") == "legal" and all(r[I_EN] for r in irows[8:]) and not any(r[I_RST] for r in irows):
        lbad_liveness(mon, irows, orows, bad_events, lbads)
    tags = sorted(mon.tags | ptags | {"mode:" + desc.get("mode", "replay")})
    return Case([1, 0, generator_abort()], irows, [list(r) for r in orows], mon.fails, tags, desc, IN_NAMES, OUT_NAMES)
