"""C39 — header transmission respects credits and retransmits unacknowledged headers
(luna/gateware/usb/usb3/link/transmitter.py: PacketTransmitter + RawPacketTransmitter + LinkCommandDetector)."""
from harness.common.framework import Case
from harness.common.rng import Rng
from harness.props import sslink_util as U

PROP = "C39"
LEAN_MODULES = ["LunaVerif.Props.C39", "LunaVerif.Lemmas.C39Round", "LunaVerif.Lemmas.C39RoundRun",
                "LunaVerif.Props.C39Retry", "LunaVerif.Lemmas.C39Wire", "LunaVerif.Lemmas.C39Live"]
DRIVER = "Driver/C39.lean"
REQUIRED_THEOREMS = ["send_only_with_credit", "sequence_numbers_consecutive_from_advertised",
                     "retire_only_on_matching_lgood", "lbad_retry_one_step_facts",
                     "lbad_retransmits_all_unacked_in_order_with_dl", "lbad_retransmission_kth", "lbad_round",
                     "wire_latches", "lbad_retransmits_on_the_wire", "lbad_round_completes"]
RULE = ("cases = closed-loop link partner (sequence advertisement, LCRD A-D, LGOOD per received header after a random "
        "delay, LBAD for a randomly 'corrupted' header followed by ignoring until our LRTY) + protocol layer queue "
        "timing + source back-pressure + lrty_pending timing + link down/up (a quarter of the cases at random moments - the "
        "monitor stops there unless nothing is in flight -, a quarter at quiet moments: the queue is stopped until every header is "
        "answered, then enable falls for 1-12 cycles and the partner advertises again; the monitor restarts its bookkeeping and "
        "demands the whole property of every further epoch, in particular the retransmission after an LBAD that follows a "
        "re-entry with a number of retired headers that is not a multiple of 4); 'chaos' partner: wrong credit letters, "
        "wrong / duplicate / early LGOODs, unsolicited LBAD/LRTY/LGO_U, corrupted command words; three credit time-outs; "
        "extra column env_r (Lean driver only) = the environment hypothesis EnvStepR of the retransmission theorem, "
        "expected to be 1 in every link-up cycle until the monitor sees the partner leave the environment")
ASSUMPTIONS = [
    "data_sink idle (valid = 0): DATA headers are followed by a zero-length or aborted payload; payload streaming is C36",
    "model = the REPAIRED transmitter (fix b52a16f, /repo main 1908059)",
    "the link stays up; the partner acknowledges only outstanding headers and never holds out more credits than "
    "4 + acknowledged headers (its four buffers); mismatching LCRD/LGOOD are allowed and proved to request recovery",
    "retransmission theorem only (EnvStepR.ackSent): the partner acknowledges a header only after its (re)transmission has "
    "been started - since the last LBAD, if there was one (an LGOOD for a header not yet put on the wire again after an "
    "LBAD cannot come from a conforming partner: acknowledgements are in order and precede the LBAD)",
    "retransmission theorems speak about the headers handed to the raw transmitter after the LBAD cycle (latches) and about "
    "the headers whose DW3 is accepted on the wire (wireHdrs, wire_latches; the words of each are given state by state by "
    "tx_word_carries_header); the packet that was already in flight at the LBAD is set aside, as in the monitor",
    "completion (lbad_round_completes): no further LBAD and at least 20*m+20 cycles with source.ready and without "
    "lrty_pending, spread arbitrarily over the history",
    "link re-entry of the transmitter with a header in flight is outside the property (dispatch FSM / raw transmitter are not "
    "reset by ~enable; the monitor stops at such a link-down, and goes on into the next epoch after a link-down at which "
    "nothing was in flight)",
]
PARTIAL = ""

IN_NAMES = ["sink_valid", "sink_data", "sink_ctrl", "source_ready", "enable", "queue_valid", "q_dw0", "q_dw1", "q_dw2",
            "q_dw3", "lrty_pending"]
OUT_NAMES = ["source_valid", "source_data", "source_ctrl", "queue_ready", "bringup_complete", "link_command_received",
             "retry_received", "retry_required", "recovery_required", "lgo_received", "lgo_target",
             "credits_available", "packets_to_send", "env_r"]
(I_SV, I_SD, I_SC, I_RDY, I_EN, I_QV, I_Q0, I_Q1, I_Q2, I_Q3, I_LRTY) = range(11)
(O_SV, O_SD, O_SC, O_QR, O_BR, O_LCR, O_RRX, O_RRQ, O_REC, O_LGO, O_LGT, O_CR, O_PTS, O_ENVR) = range(14)
FREQS = {41: 8e3, 201: 40e3, 625001: 125e6}


def build(timeout):
    from luna.gateware.usb.usb3.link.transmitter import PacketTransmitter
    dut = PacketTransmitter(ss_clock_frequency=FREQS[timeout])
    h = dut.queue.header
    ins = [dut.sink.valid, dut.sink.data, dut.sink.ctrl, dut.source.ready, dut.enable, dut.queue.valid,
           h.dw0, h.dw1, h.dw2, h.crc16, h.sequence_number, h.dw3_reserved, h.hub_depth, h.delayed, h.deferred, h.crc5,
           dut.lrty_pending]
    outs = [dut.source.valid, dut.source.data, dut.source.ctrl, dut.queue.ready, dut.bringup_complete,
            dut.link_command_received, dut.retry_received, dut.retry_required, dut.recovery_required,
            dut.lgo_received, dut.lgo_target, dut.credits_available, dut.packets_to_send]
    return dut, ins, outs


def to_dut(row):
    d = row[I_Q3]
    return row[:I_Q3] + [d & 0xFFFF, (d >> 16) & 7, (d >> 19) & 7, (d >> 22) & 7, (d >> 25) & 1, (d >> 26) & 1,
                         (d >> 27) & 31, row[I_LRTY]]


class Pattern:
    def __init__(self, rng, choices, phase=(5, 120)):
        self.rng, self.choices, self.phase = rng, choices, phase
        self.left, self.p = 0, 0

    def next(self):
        if self.left == 0:
            self.p = self.rng.choice(self.choices)
            self.left = self.rng.range(*self.phase)
        self.left -= 1
        return 1 if self.rng.chance(self.p) else 0


class Partner:
    """link partner's receiver (credits, LGOOD/LBAD), our own receiver's lrty_pending, the protocol layer's queue"""

    def __init__(self, rng, desc):
        self.rng = rng
        self.mode = desc.get("mode", "legal")
        k = desc.get("k", 0)
        self.rdy = Pattern(rng, [[100], [100, 80, 40], [100, 20, 0], [50, 10]][k % 4])
        self.qv = Pattern(rng, [[100], [100, 50, 0], [30, 5], [100, 0, 0]][(k // 4) % 4])
        self.p_bad = desc.get("p_bad", 10)
        self.ack_delay = [(0, 3), (0, 30), (20, 90), (0, 8)][(k // 16) % 4]
        self.updown = desc.get("updown", 0)      # 0 link stays up | 1 down at random moments | 2 down at quiet moments
        self.drain = 0                           # cycles spent waiting for a quiet moment to take the link down
        self.sinkq = []          # words for the DUT's sink: (valid, data, ctrl)
        self.events = []         # (due cycle, kind, arg) partner actions scheduled
        self.rx_words = None     # header being received from the DUT's source
        self.state_reset()
        self.en = 0
        self.en_left = rng.range(0, 6)
        self.lrty = 0
        self.lrty_left = 0
        self.qhdr = self.new_hdr()
        self.tags = set()
        self.prev_in = None

    def state_reset(self):
        self.adv_sent = False
        self.exp_seq = 0
        self.ignoring = False
        self.next_letter = 0
        self.last_due = 0
        self.events = []
        self.sinkq = []
        self.rx_words = None

    def new_hdr(self):
        r = self.rng
        typ = r.weighted([(3, 0), (4, 4), (3, 8), (1, 12), (1, r.below(16))])
        return [(r.bits(32) & ~15) | typ, r.bits(32), r.bits(32), r.bits(32)]

    def send_lc(self, cmd, sub, corrupt=None):
        r = self.rng
        w = U.lc_word(cmd, sub)
        ctrl = 0
        if corrupt == "crc":
            w ^= 1 << r.below(32)
        elif corrupt == "ctrl":
            ctrl = 1 << r.below(4)
        rows = [(1, U.LCSTART, 15)]
        while r.chance(15):
            rows.append((0, r.bits(32), r.below(16)))
        rows.append((1, w, ctrl))
        rows.extend([(r.below(2), 0, 0)] * r.range(0, 3))
        self.sinkq.extend(rows)
        self.tags.add("lc:%s%s" % (U.LC_NAMES.get(cmd, cmd), ":" + corrupt if corrupt else ""))

    def on_header(self, t, words):
        """the partner has received a complete header from the DUT"""
        r = self.rng
        c5, c16, seq = U.header_ok(words)
        if self.ignoring:
            self.tags.add("partner:ignored-header")
            return
        bad = (not (c5 and c16)) or r.chance(self.p_bad)
        if bad:
            self.ignoring = True
            self.last_due = max(self.last_due + 1, t + r.range(*self.ack_delay))
            self.events.append((self.last_due, "lbad", 0))
            self.tags.add("partner:lbad")
            return
        if seq != self.exp_seq:
            self.tags.add("partner:seq-mismatch")
            return
        self.exp_seq = (self.exp_seq + 1) % 8
        d = self.last_due = max(self.last_due + 1, t + r.range(*self.ack_delay))   # acknowledgements stay in order
        self.events.append((d, "lgood", seq))
        self.events.append((d + r.range(0, 40), "lcrd", None))

    def observe(self, t, pin, pout):
        if not (pout[O_SV] and pin[I_RDY]) or not pin[I_EN]:
            return
        d, c = pout[O_SD], pout[O_SC]
        if c == 15 and d == U.HPSTART:
            self.rx_words = []
        elif self.rx_words is not None and c == 0:
            self.rx_words.append(d)
            if len(self.rx_words) == 4:
                w = self.rx_words
                self.rx_words = None
                self.on_header(t, w)
        else:
            self.rx_words = None

    def quiet_now(self, prev_out):
        """nothing in flight in either direction: every header sent was answered, the answers were delivered, the
        transmitter shows nothing to send and is not sending"""
        return (prev_out is not None and prev_out[O_PTS] == 0 and not prev_out[O_SV] and not self.sinkq
                and self.rx_words is None and not self.ignoring and self.lrty_left == 0
                and not any(e[1] in ("lgood", "lbad", "lrty-seen", "advert") for e in self.events))

    def drive(self, t, prev_out):
        r = self.rng
        if prev_out is not None:
            self.observe(t, self.prev_in, prev_out)
            if prev_out[O_RRQ] and self.lrty_left == 0:
                # our receiver will send LRTY: lrty_pending rises a cycle later and stays for a while
                self.lrty_left = r.choice([1, 2, 5, 12, 40])
                self.events.append((t + self.lrty_left + r.range(2, 6), "lrty-seen", 0))
            if prev_out[O_QR] and self.prev_in[I_QV]:
                self.qhdr = self.new_hdr()
                self.tags.add("enqueue")
        # link up / down
        self.en_left -= 1
        if self.en_left < 0:
            if self.en == 0:
                self.en = 1
                self.en_left = (r.choice([150, 300, 500]) if self.updown == 2 else
                                r.choice([200, 400, 800, 5000]) if self.updown else 10 ** 9)
                self.drain = 0
                self.state_reset()
                self.events.append((t + r.range(1, 10), "advert", 0))
            elif self.updown == 2 and self.drain < 300 and not self.quiet_now(prev_out):
                self.drain += 1          # the queue stops offering headers (below) until everything is answered
            else:
                if self.updown == 2:
                    self.tags.add("link-down:at-quiet-moment" if self.drain < 300 else "link-down:drain-gave-up")
                self.en = 0
                self.en_left = r.range(1, 12)
                self.state_reset()
                self.tags.add("link-down")
        # partner actions that are due
        if self.en and not self.sinkq:
            due = sorted([e for e in self.events if e[0] <= t], key=lambda e: e[0])
            if due:
                e = due[0]
                self.events.remove(e)
                chaos = self.mode == "chaos"
                if e[1] == "advert":
                    n = r.below(8)
                    self.exp_seq = (n + 1) % 8
                    self.send_lc(U.LGOOD, n)
                    for _ in range(4):
                        self.send_lc(U.LCRD, self.next_letter)
                        self.next_letter = (self.next_letter + 1) % 4
                    self.adv_sent = True
                elif e[1] == "lgood":
                    self.send_lc(U.LGOOD, e[2] if not (chaos and r.chance(10)) else r.below(8),
                                 "crc" if chaos and r.chance(8) else None)
                elif e[1] == "lcrd":
                    self.send_lc(U.LCRD, self.next_letter if not (chaos and r.chance(10)) else r.below(4),
                                 "ctrl" if chaos and r.chance(5) else None)
                    self.next_letter = (self.next_letter + 1) % 4
                elif e[1] == "lbad":
                    self.send_lc(U.LBAD, 0)
                elif e[1] == "lrty-seen":
                    self.ignoring = False
            elif self.mode == "chaos" and r.chance(2):
                cmd = r.choice([U.LBAD, U.LRTY, U.LGO_U, U.LGOOD, U.LCRD, U.LAU, U.LUP])
                self.send_lc(cmd, r.below(8), r.choice([None, None, None, "crc"]))
        v, d, c = self.sinkq.pop(0) if self.sinkq else (r.below(2) if r.chance(20) else 0, 0, 0)
        if self.lrty_left > 0:
            self.lrty_left -= 1
            lr = 1
        else:
            lr = 1 if (self.mode == "chaos" and r.chance(1)) else 0
        qv = self.qv.next()
        if self.updown == 2 and self.en and self.en_left < 0:
            qv = 0                       # draining before a link-down at a quiet moment
        row = [v, d, c, self.rdy.next(), self.en, qv] + self.qhdr + [lr]
        self.prev_in = row
        return row


# ------------------------------------------------------------------------------------------- monitor
def fields(dw3):
    """link control word without sequence number: (reserved, hub_depth, delayed, deferred)"""
    return ((dw3 >> 19) & 7, (dw3 >> 22) & 7, (dw3 >> 25) & 1, (dw3 >> 26) & 1)


class Monitor:
    def __init__(self, timeout):
        self.fails = []
        self.tags = set()
        self.timeout = timeout
        self.stop_t = None       # cycle in which the partner left the environment / the link went down

    def fail(self, t, sig, what):
        if len(self.fails) < 4:
            self.fails.append({"cycle": t, "sig": sig, "what": what})

    def run(self, irows, orows):
        for t in self._run(irows, orows):
            self.stop_t = t

    def _run(self, irows, orows):
        """generator: yields the cycle in which the monitor stops (nothing if it runs to the end)"""
        n = len(irows)
        # ---- link commands arriving on the sink (detector framing): word cycle -> (cmd, sub)
        lc_at = {}
        st = 0
        for t, r in enumerate(irows):
            if st == 0:
                if r[I_SV] and r[I_SD] == U.LCSTART and r[I_SC] == 15:
                    st = 1
            elif r[I_SV]:
                st = 0
                d = U.lc_decode(r[I_SD]) if r[I_SC] == 0 else None
                if d is not None:
                    lc_at[t] = d
        # ---- bookkeeping of the property
        bring = False
        adv = None
        credits_rx = 0           # credits accepted by the DUT (in-order LCRDs) this epoch, effective now
        next_letter = 0
        accepted = []            # headers taken from the queue this epoch: dict(words, seq, sent, cycle)
        retired = 0
        next_ack = 7
        pending = []             # (effective cycle, fn)
        cur = None               # header being transmitted: list of words
        cur_start = None
        retry = None             # dict(list=[indices], pos, since) after an LBAD
        first_tx = 0             # index of the next header that has never been transmitted
        last_lbad = -1           # cycle of the last LBAD (retry_required)
        down_retired = None      # headers retired in the previous epoch (None: this is the first one)
        for t in range(n):
            i, o = irows[t], orows[t]
            # -- effects of the link command whose word was on the sink in the previous cycle
            want = {"lcr": 0, "rrx": 0, "rrq": 0, "rec": 0, "lgo": 0}
            d = lc_at.get(t - 1)
            en_prev = irows[t - 1][I_EN] if t else 0
            if d is not None:
                cmd, sub = d
                want["lcr"] = 1
                if cmd == U.LCRD:
                    if sub == next_letter:
                        if i[I_EN]:
                            credits_rx += 1
                            next_letter = (next_letter + 1) % 4
                            if credits_rx > 4 + retired + sum(1 for p in pending if p[0] == "retire"):
                                # more credits than the partner has buffers: outside the environment (the four
                                # transmit buffers would be overwritten)
                                self.tags.add("env:more-credits-than-buffers")
                                yield t
                                return
                        self.tags.add("credit")
                    else:
                        want["rec"] = 1
                        self.tags.add("credit-mismatch")
                elif cmd == U.LGOOD:
                    if not bring:
                        if i[I_EN]:
                            bring_next = True
                            adv = sub
                            next_ack = (sub + 1) % 8
                            pending.append(("bring", sub))
                    elif sub == next_ack:
                        next_ack = (next_ack + 1) % 8
                        if retired < len(accepted) and accepted[retired]["ack_ok"]:
                            pending.append(("retire", None))
                            self.tags.add("retire")
                        elif retired < len(accepted) and accepted[retired]["sent"]:
                            # acknowledgements are in order and precede an LBAD: after an LBAD a conforming partner
                            # acknowledges a header only once it has been retransmitted (EnvStepR.ackSent)
                            self.tags.add("env:lgood-before-retransmission")
                            yield t
                            return
                        elif retired < len(accepted):
                            self.tags.add("env:lgood-for-unsent-header")
                            yield t
                            return
                        else:
                            self.tags.add("env:lgood-nothing-outstanding")
                            yield t
                            return
                    else:
                        want["rec"] = 1
                        self.tags.add("lgood-mismatch")
                elif cmd == U.LBAD:
                    want["rrq"] = 1
                    self.tags.add("lbad")
                elif cmd == U.LRTY:
                    want["rrx"] = 1
                elif cmd == U.LGO_U:
                    want["lgo"] = 1
            for name, idx in (("lcr", O_LCR), ("rrx", O_RRX), ("rrq", O_RRQ), ("lgo", O_LGO)):
                if o[idx] != want[name]:
                    self.fail(t, "lc-strobe-" + name, "%s=%d, the received link command says %d" % (OUT_NAMES[idx], o[idx], want[name]))
            if want["rec"] and not o[O_REC]:
                self.fail(t, "recovery-missing", "credit/sequence mismatch did not request recovery")
            if o[O_REC] and not want["rec"]:
                self.tags.add("recovery:timeout")
            if want["rec"]:
                self.tags.add("env:mismatch-recovery-requested")   # the link goes to Recovery: nothing more to check
                yield t
                return
            # -- queue: only with credit, only after bring-up
            if o[O_QR] and not (bring and credits_rx - len(accepted) > 0):
                self.fail(t, "send-without-credit", "queue.ready with bring-up=%s, %d credits received, %d headers taken"
                          % (bring, credits_rx, len(accepted)))
            if o[O_BR] != (1 if bring else 0):
                self.fail(t, "bringup", "bringup_complete=%d, expected %d" % (o[O_BR], bring))
            if o[O_QR] and i[I_QV]:
                k = len(accepted)
                accepted.append({"w": (i[I_Q0], i[I_Q1], i[I_Q2]), "f": fields(i[I_Q3]), "k": k, "sent": 0, "ack_ok": 0,
                                 "t": t})
                self.tags.add("accept")
            # -- transmitted headers
            if o[O_SV] and i[I_RDY]:
                if o[O_SC] == 15 and o[O_SD] == U.HPSTART:
                    cur = []
                elif cur is not None and len(cur) < 4:
                    if o[O_SC] != 0:
                        self.fail(t, "tx-framing", "control symbols inside a header")
                    cur.append(o[O_SD])
                    if len(cur) == 4:
                        self.check_header(t, cur, cur_start, accepted, retired, adv, retry, first_tx, bring)
                        seq = (cur[3] >> 16) & 7
                        for a in accepted[retired:]:
                            if (adv + 1 + a["k"]) % 8 == seq:
                                if a["k"] == first_tx:
                                    first_tx += 1
                                a["sent"] += 1
                                if cur_start is not None and cur_start > last_lbad:
                                    a["ack_ok"] = 1      # put on the wire (again) since the last LBAD
                        if retry is not None and cur_start is not None and cur_start > retry["since"]:
                            retry["pos"] += 1
                            if retry["pos"] >= len(retry["list"]):
                                retry = None
                        cur = None
            if o[O_SV] and not (orows[t - 1][O_SV] if t else 0) and o[O_SD] == U.HPSTART and o[O_SC] == 15:
                cur_start = t - 1          # the cycle in which the raw transmitter latched this header
            # -- registered effects
            if want["rrq"] and i[I_EN]:
                last_lbad = t
                for a in accepted[retired:]:
                    a["ack_ok"] = 0
                lst = [a["k"] for a in accepted[retired:]]
                retry = {"list": lst, "pos": 0, "since": t} if lst else None
                if lst:
                    self.tags.add("retry-round:%d" % len(lst))
                    if down_retired is not None:
                        self.tags.add("retry-round-after-reentry:%s" % ("retired-before-not-multiple-of-4" if down_retired % 4
                                                                        else "retired-before-multiple-of-4"))
            for p in pending:
                if p[0] == "bring":
                    bring = True
                elif p[0] == "retire":
                    retired += 1
            pending = []
            if not i[I_EN] and t and irows[t - 1][I_EN]:
                # link re-entry of the transmitter with something in flight is outside C39 (its FSM / raw transmitter
                # are not reset by ~enable: a header in flight is completed after re-entry and its `done` is taken for
                # the next one).  A link that goes down at a quiet moment - every header taken before this cycle has
                # been put on the wire completely, no retransmission round open, nothing shown as to be sent, source
                # silent in this cycle and the one before - starts afresh: the partner advertises again, and the
                # property is demanded of the new epoch like of the first one.
                quiet = (cur is None and retry is None and o[O_PTS] == 0 and not o[O_SV] and not orows[t - 1][O_SV]
                         and first_tx >= sum(1 for a in accepted if a["t"] < t)
                         and all(a["sent"] for a in accepted if a["t"] < t))
                if not quiet:
                    self.tags.add("link-down:monitor-stops")
                    yield t
                    return
                self.tags.add("link-down:quiet-monitor-continues")
                self.tags.add("link-down:quiet-with-%d-retired-mod-4" % (retired % 4))
                down_retired = retired
            if not i[I_EN]:
                bring, adv, credits_rx, next_letter, accepted, retired, retry, first_tx = False, None, 0, 0, [], 0, None, 0
                cur_start = None
                cur = None
                pending = []
        return

    def check_header(self, t, w, start, accepted, retired, adv, retry, first_tx, bring):
        c5, c16, seq = U.header_ok(w)
        if not (c5 and c16):
            self.fail(t, "tx-crc", "transmitted header with bad CRC-5/CRC-16")
            return
        if adv is None:
            self.tags.add("tx-while-down")
            return
        cand = [a for a in accepted[retired:] if (adv + 1 + a["k"]) % 8 == seq]
        if not cand:
            # a header retired while it was being (re)transmitted is fine; look at everything accepted
            cand = [a for a in accepted if (adv + 1 + a["k"]) % 8 == seq and a["sent"]][-1:]
            if not cand:
                self.fail(t, "tx-sequence", "header sent with sequence number %d, which no unacknowledged header "
                          "(advertised %d, %d taken, %d retired) carries" % (seq, adv, len(accepted), retired))
                return
        a = cand[0]
        dl = (w[3] >> 25) & 1
        if tuple(w[:3]) != a["w"] or fields(w[3])[:2] != a["f"][:2] or fields(w[3])[3] != a["f"][3]:
            self.fail(t, "tx-content", "header #%d transmitted with altered content" % a["k"])
        if a["k"] > first_tx:
            self.fail(t, "tx-order", "header #%d sent before header #%d was ever sent" % (a["k"], first_tx))
        in_retry = retry is not None and start is not None and start > retry["since"]
        if in_retry:
            wantk = retry["list"][retry["pos"]]
            if a["k"] != wantk:
                self.fail(t, "retry-order", "after LBAD at cycle %d retransmission #%d is header #%d, expected #%d"
                          % (retry["since"], retry["pos"] + 1, a["k"], wantk))
            elif not dl:
                self.fail(t, "retry-dl", "header #%d retransmitted after LBAD at cycle %d without the delayed bit"
                          % (a["k"], retry["since"]))
            else:
                self.tags.add("retransmit-dl")
        else:
            if a["sent"] == 0 and dl < a["f"][2]:
                self.fail(t, "tx-dl", "first transmission of header #%d with delayed=%d, queue said %d" % (a["k"], dl, a["f"][2]))
            self.tags.add("tx:first" if a["sent"] == 0 else "tx:again")


def gen_cases(tier, rng):
    n = {"quick": 72, "widen": 160, "thorough": 640}[tier]
    out = []
    for k in range(n):
        out.append({"mode": "chaos" if k % 6 == 5 else "legal", "k": rng.below(64), "seed": rng.u64(),
                    "cycles": 1600 if tier == "quick" else 3000, "timeout": [201, 41, 625001][k % 3],
                    "p_bad": rng.choice([0, 5, 15, 35]), "updown": 1 if k % 4 == 3 else 2 if k % 4 == 1 else 0})
        if out[-1]["updown"] == 2 and out[-1]["p_bad"] < 15:
            out[-1]["p_bad"] = 25          # re-entry cases are there for the LBAD after the re-entry
    return out


def run_case(desc):
    timeout = desc.get("timeout", 201)
    dut, ins, outs = build(timeout)
    if desc.get("stimulus"):
        lean_rows = [list(r) for r in desc["stimulus"]]
        _, orows = U.run_open(dut, ins, outs, [to_dut(r) for r in lean_rows])
        ptags = set()
    else:
        p = Partner(Rng(desc["seed"]), desc)
        lean_rows = []

        def drive(t, prev):
            row = p.drive(t, prev)
            lean_rows.append(row)
            return to_dut(row)
        _, orows = U.run_closed(dut, ins, outs, drive, desc.get("cycles", 1600))
        ptags = p.tags
    mon = Monitor(timeout)
    mon.run(lean_rows, orows)
    # env_r (computed by the Lean driver only): the environment hypothesis EnvStepR of the retransmission theorem must
    # hold in every cycle in which the link is up and the monitor still considers the partner within the environment
    stop = len(lean_rows) if mon.stop_t is None else mon.stop_t
    for t in range(1, len(lean_rows)):       # env_r is compared in the first link-up epoch only (as before)
        if lean_rows[t - 1][I_EN] and not lean_rows[t][I_EN]:
            stop = min(stop, t)
            break
    orows = [list(r) + [1 if (t < stop and lean_rows[t][I_EN]) else None] for t, r in enumerate(orows)]
    tags = sorted(mon.tags | ptags | {"mode:" + desc.get("mode", "replay"), "timeout=%d" % timeout})
    return Case([timeout, 1 << timeout.bit_length()], lean_rows, [list(r) for r in orows], mon.fails, tags, desc, IN_NAMES, OUT_NAMES)
