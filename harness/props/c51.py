"""C51 — SPIRegisterInterface / SPICommandInterface (luna/gateware/interface/spi.py)."""
from harness.common.framework import Case
from harness.common.rng import Rng
from harness.common import sim

PROP = "C51"
LEAN_MODULES = ["LunaVerif.Props.C51"]
DRIVER = "Driver/C51.lean"
REQUIRED_THEOREMS = ["read_returns_addressed_or_default", "write_updates_exactly_addressed_once",
                     "abort_changes_nothing", "refines_protocol", "word_complete_exactly_after_full_word",
                     "command_is_sampled_bits", "abort_returns_to_idle", "sdo_is_next_unsent_bit",
                     "strobes_only_for_addressed"]
RULE = ("cases = register map (address size 3/7/15, register size 8/16/32, random read-only constant / read-only "
        "input / memory-backed (sizes <= register size) / write-only strobe registers, with and without the "
        "autonegotiation register) x controller behaviour; behaviours: legal reads and writes of assigned and "
        "unassigned addresses with random legal clock timing, the same with chip select dropped at a uniformly "
        "chosen bit position (every position of command and data phase, either clock level: SCK low | SCK high with SCK "
        "falling together with the release or held high into the next transaction | in the cycle of the falling edge | "
        "'highlate' (2 of 5 aborts): SCK high at the release and falling 1..4 cycles LATER while the bus is idle, the "
        "next transaction then always an ordinary complete read or write, which is the one judged; 12% of the aborts: release in "
        "the very cycle of the LAST falling edge), extra clocks after the word, too-fast clocks, unstructured pin noise; a "
        "transaction whose command+data bits were all clocked with chip select asserted is COMPLETE (judged by read-value / "
        "write-strobe-count / read-strobe-count / register-value) however soon chip select is released: release 1, 2, 3 "
        "(20% each) or 4..6 cycles after the cycle of the last falling edge (1 = the cycle in which the interface reports "
        "the word)")
ASSUMPTIONS = [
    "SPI mode 0 controller: sdi is valid in the cycle in which the falling edge of sck is seen; no synchronisers "
    "in the class: sck/sdi/cs are synchronous to the gateware clock",
    "SCK timing for the transaction-level statements: sck low for >= 5 clock cycles before each rising edge (the "
    "controller samples sdo at the rising edge; 5 cycles cover the PROCESSING/LATCH_OUTPUT wait states after "
    "the last command bit), high for >= 1 cycle; chip select asserted at least one cycle before the first "
    "falling edge and held through the cycle in which the last falling edge is seen (it may be released in the very "
    "next cycle; released IN the cycle of the last edge the last bit does not count: abort) (minimum SCK period = 6 "
    "clock cycles)",
    "an aborted transaction may release chip select at either SCK level; after a release with SCK high, SCK returns "
    "low in the same cycle, 1..4 cycles later while chip select is deasserted (then >= 1 idle + >= 1 chip-select lead "
    "+ >= 4 low cycles of the first bit: the SCK-low time before the next rising edge is still >= 5 cycles), or only "
    "inside the next transaction (SCK held high through the idle period, first falling edge >= 1 cycle after chip "
    "select is asserted)",
    "chip select deasserted for >= 4 clock cycles between transactions (a shorter deassertion that falls entirely "
    "into the PROCESSING/LATCH_OUTPUT wait states after the last command bit is not seen by the FSM)",
    "the theorems about the protocol machine hold for every pin history; they describe which falling edges "
    "the command interface counts (edges during the three wait-state cycles are not counted)",
]
PARTIAL = ""

K_CONST, K_INPUT, K_MEM, K_SFR = 0, 1, 2, 3


def gen_cases(tier, rng):
    n = {"quick": 72, "widen": 200}.get(tier, 600)
    out = []
    for k in range(n):
        A = rng.choice([3, 7, 15]) if k % 4 else rng.choice([1, 2, 4])
        R = rng.choice([8, 16, 32]) if k % 5 else rng.choice([1, 3, 12, 33])
        out.append({"A": A, "R": R, "kind": k % 6, "seed": rng.u64()})
    return out


def make_map(desc, rng):
    A, R = desc["A"], desc["R"]
    auto = rng.chance(50)
    regs = []
    if auto:
        regs.append([0, K_CONST, (1 << R) - 1, 0])
    space = 1 << A
    want = min(space - (1 if auto else 0), rng.range(2, 7))
    used = {0} if auto else set()
    cand = [space - 1, 0, 1, 2, space // 2]
    while len(regs) < want + (1 if auto else 0):
        a = cand.pop(0) if cand and rng.chance(60) else rng.below(space)
        if a in used:
            continue
        used.add(a)
        kind = rng.choice([K_CONST, K_INPUT, K_MEM, K_MEM, K_SFR])
        if kind == K_CONST:
            regs.append([a, kind, rng.bits(R), 0])
        elif kind == K_MEM:
            size = R if rng.chance(60) else rng.range(1, R)
            regs.append([a, kind, size, rng.bits(size)])
        else:
            regs.append([a, kind, 0, 0])
    return {"A": A, "R": R, "D": rng.bits(R), "auto": int(auto), "regs": regs}


class _Ctl:
    def __init__(self, rng, nregs, R, regs):
        self.rng, self.R, self.regs = rng, R, regs
        self.sck = self.sdi = self.cs = 0
        self.vals = [0] * nregs
        self.rows = []

    def emit(self, n=1):
        for _ in range(n):
            self.rows.append([self.sck, self.sdi, self.cs] + list(self.vals))

    def new_inputs(self):
        for k, r in enumerate(self.regs):
            if r[1] == K_INPUT:
                self.vals[k] = self.rng.bits(self.R)

    def bit(self, b, lo, hi, abort=None):
        """one SPI bit (mode 0).  abort = None | 'low' | 'high' | 'highlate' | 'edge': drop cs during the bit
        ('highlate' = while sck is high, like 'high'; the caller then lets sck fall only AFTER cs was released)."""
        r = self.rng
        self.sdi = b
        pre = r.range(lo[0], lo[1])
        if abort == "low":
            self.emit(r.range(0, pre))
            return False
        self.emit(pre)
        self.sck = 1
        if r.chance(30):
            self.sdi = r.below(2)          # sdi may change while the clock is high ...
        h = r.range(hi[0], hi[1])
        if abort in ("high", "highlate"):
            self.emit(r.range(1, h))
            return False
        self.emit(h)
        self.sdi = b                        # ... but is valid at the falling edge
        self.sck = 0
        if abort == "edge":
            self.cs = 0                     # cs drops in the very cycle of the falling edge
            self.emit(1)
            return False
        self.emit(1)
        return True


def make_stimulus(desc, mp, rng):
    A, R, regs = mp["A"], mp["R"], mp["regs"]
    kind = desc["kind"]
    n = len(regs)
    budget = 1800 if R <= 16 else 3000
    if kind == 5:        # unstructured noise
        rows = []
        sck = sdi = cs = 0
        vals = [0] * n
        p, pc = rng.choice([10, 30, 50]), rng.choice([1, 3, 10])
        for _ in range(budget // 2):
            if rng.chance(p):
                sck ^= 1
            if rng.chance(50):
                sdi ^= 1
            if rng.chance(pc):
                cs ^= 1
            rows.append([sck, sdi, cs] + vals)
        return rows
    c = _Ctl(rng, n, R, regs)
    c.new_inputs()
    c.emit(rng.range(2, 5))
    fast = kind == 4
    addrs = [r[0] for r in regs]
    force_ok = False         # the transaction after a 'highlate' abort is an ordinary complete one (it is the one judged)
    while len(c.rows) < budget:
        lo, hi = ((4, 8), (1, 4)) if not fast else ((0, 3), (1, 2))
        if not fast and rng.chance(30):
            lo, hi = (4, 4), (1, 1)       # the fastest legal clock
        is_write = rng.below(2)
        a = rng.choice(addrs) if rng.chance(75) else rng.below(1 << A)
        special = rng.below(8)
        data = 0 if special == 0 else ((1 << R) - 1 if special == 1 else rng.bits(R))
        bits = [is_write] + [(a >> (A - 1 - k)) & 1 for k in range(A)] + [(data >> (R - 1 - k)) & 1 for k in range(R)]
        abort_at, how = None, None
        if kind in (1, 2) and rng.chance(70 if kind == 1 else 100) and not force_ok:
            abort_at = rng.below(len(bits))
            how = rng.choice(["low", "high", "edge", "highlate", "highlate"])
            if rng.chance(12):
                abort_at, how = len(bits) - 1, "edge"    # release in the very cycle of the LAST falling edge ("0 cycles after")
        force_ok = False
        if rng.chance(50):
            c.new_inputs()
        c.emit(rng.range(1, 4))
        c.cs = 1
        c.emit(rng.range(1, 3))
        ok = True
        for k, b in enumerate(bits):
            ok = c.bit(b, lo, hi, how if k == abort_at else None)
            if not ok:
                break
        if ok:
            # all bits clocked: the transaction is COMPLETE however soon chip select is released now.  c.bit() emitted the
            # row of the last falling edge (chip select still asserted there); 0 further rows = release ONE cycle after
            # that edge (the cycle in which the interface, having counted the last bit, reports the word), 1 = two, ...
            c.emit(rng.below(3) if rng.chance(60) else rng.range(3, 5))
            if kind == 3 or rng.chance(15):   # extra clocks / data after the word: must be ignored (STALL)
                for _ in range(rng.range(1, R + 2)):
                    c.bit(rng.below(2), lo, hi)
        c.cs = 0
        if not ok and how == "highlate":
            # chip select released with SCK still high; SCK returns low 1..4 cycles LATER, while the bus is idle
            d = rng.range(1, 4)
            c.emit(d)
            c.sck = 0
            c.emit(rng.range(max(1, 3 - d), 4))                    # with the >= 1 below: cs deasserted >= 4 cycles
            force_ok = True
            continue
        if rng.chance(30):
            c.sck = 0
        c.emit(rng.range(3, 6) if not fast else rng.range(0, 2))   # with the >= 1 below: cs high >= 4 cycles
    return c.rows


def monitor(desc, mp, stim, rows, cols):
    """Transaction-level property on the real trace (legal-timing kinds); structural safety for all."""
    A, R, D, regs = mp["A"], mp["R"], mp["D"], mp["regs"]
    C = A + 1
    legal = desc["kind"] in (0, 1, 2, 3)
    fails, tags = [], set()

    def fail(t, sig, what):
        if not any(f["sig"] == sig for f in fails):
            fails.append({"cycle": t, "sig": sig, "what": what})

    val = {k: r[3] for k, r in enumerate(regs) if r[1] == K_MEM}      # expected register file
    T = len(stim)
    # ---- structural safety (every kind): a backing store changes only in the cycle after its write strobe
    for t in range(1, T):
        for k, r in enumerate(regs):
            v, ws, rs = cols(rows[t], k)
            pv, pws, prs = cols(rows[t - 1], k)
            if r[1] == K_MEM and v != pv and not pws:
                fail(t, "value-changed-without-strobe", "register 0x%x changed %#x -> %#x without its write strobe" % (r[0], pv, v))
    if not legal:
        return fails, tags
    # ---- parse chip-select windows
    after_late_fall = False
    t = 0
    while t < T:
        if not stim[t][2]:
            t += 1
            continue
        t0 = t
        while t < T and stim[t][2]:
            t += 1
        t1 = t                    # window = rows [t0, t1)
        if t1 >= T - 4:
            break                 # truncated by the end of the trace
        falls = [u for u in range(t0 + 1, t1) if stim[u - 1][0] == 1 and stim[u][0] == 0]
        rises = [u for u in range(t0 + 1, t1) if stim[u - 1][0] == 0 and stim[u][0] == 1]
        # a falling edge in the row in which cs drops is seen by the device but the word is abandoned
        edge_abort = t1 < T and stim[t1 - 1][0] == 1 and stim[t1][0] == 0
        bits = [stim[u][1] for u in falls]
        complete = len(falls) >= C + R
        end = min(t1 + 3, T)
        # strobes observed over the window (+ pipeline)
        wcount = {k: 0 for k in range(len(regs))}
        rcount = {k: 0 for k in range(len(regs))}
        for u in range(t0, end):
            for k in range(len(regs)):
                v, ws, rs = cols(rows[u], k)
                wcount[k] += ws or 0
                rcount[k] += rs or 0
        if not complete:
            tags.add("abort@cmd" if len(falls) < C else "abort@data")
            tags.add("abort-pos=%d" % min(len(falls), 3) if len(falls) < 3 else "abort-pos>=3")
            if edge_abort:
                tags.add("abort-on-edge")
                if len(falls) == C + R - 1:
                    tags.add("release-in-cycle-of-last-edge")      # "0 cycles after": the last bit was NOT clocked with cs asserted
            if stim[t1 - 1][0] == 1 and stim[t1][0] == 1:
                u = t1
                while u < T and not stim[u][2] and stim[u][0]:
                    u += 1
                tags.add("abort-sck-high:" + ("falls-while-idle" if u < T and not stim[u][2] else "held-into-next"))
                late_fall = u < T and not stim[u][2]
            else:
                late_fall = False
            after_late_fall = late_fall
            if any(wcount.values()) or any(rcount.values()):
                fail(t1, "strobe-on-abort", "transaction aborted after %d bits raised a strobe" % len(falls))
            for k in val:
                if cols(rows[end - 1], k)[0] != val[k]:
                    fail(t1, "abort-changed-register", "aborted transaction (%d bits) changed register 0x%x to %#x (was %#x)"
                         % (len(falls), regs[k][0], cols(rows[end - 1], k)[0], val[k]))
            continue
        if after_late_fall:
            tags.add("complete-after-abort-with-late-sck-fall")
        after_late_fall = False
        cmd, dat = bits[:C], bits[C:C + R]
        is_write = cmd[0]
        addr = 0
        for b in cmd[1:]:
            addr = (addr << 1) | b
        data = 0
        for b in dat:
            data = (data << 1) | b
        hit = [k for k, r in enumerate(regs) if r[0] == addr]
        tags.add(("write" if is_write else "read") + ("-unassigned" if not hit else "-kind%d" % regs[hit[0]][1]))
        if len(falls) > C + R:
            tags.add("extra-clocks-after-word")
        else:
            # COMPLETE by the stimulus's own bit count: all C+R sampling edges fell while chip select was asserted.  How
            # soon after the last edge chip select is released does not matter for the clauses below.
            tags.add("%s-release-after-last-edge=%s" % ("write" if is_write else "read",
                                                        t1 - falls[-1] if t1 - falls[-1] <= 3 else ">3"))
        # ---- read value: sdo at the rising edges of the data phase
        drises = [u for u in rises if u > falls[C - 1]][:R]
        got = 0
        for u in drises:
            got = (got << 1) | rows[u][0]
        latch_row = falls[C - 1] + 3           # LATCH_OUTPUT cycle: the value read is the value then
        if not hit:
            want = D
        else:
            r = regs[hit[0]]
            want = {K_CONST: r[2], K_INPUT: stim[latch_row][3 + hit[0]], K_MEM: val.get(hit[0]), K_SFR: D}[r[1]]
        if len(drises) == R and got != want:
            fail(drises[-1], "read-value", "%s of address 0x%x returned %#x, register/default value is %#x"
                 % ("write" if is_write else "read", addr, got, want))
        # ---- strobes and updates
        for k in range(len(regs)):
            has_w = regs[k][1] in (K_MEM, K_SFR)
            ew = 1 if (is_write and hit and k == hit[0] and has_w) else 0
            er = 1 if (not is_write and hit and k == hit[0]) else 0
            if has_w and wcount[k] != ew:
                fail(t1, "write-strobe-count", "write=%d address 0x%x: register 0x%x write strobe high for %d cycles, expected %d"
                     % (is_write, addr, regs[k][0], wcount[k], ew))
            if cols(rows[t0], k)[2] is not None and rcount[k] != er:
                fail(t1, "read-strobe-count", "write=%d address 0x%x: register 0x%x read strobe high for %d cycles, expected %d"
                     % (is_write, addr, regs[k][0], rcount[k], er))
        if is_write and hit and regs[hit[0]][1] == K_MEM:
            val[hit[0]] = data & ((1 << regs[hit[0]][2]) - 1)
        for k in val:
            if cols(rows[end - 1], k)[0] != val[k]:
                fail(t1, "register-value", "after write=%d address 0x%x data %#x: register 0x%x holds %#x, expected %#x"
                     % (is_write, addr, data, regs[k][0], cols(rows[end - 1], k)[0], val[k]))
                val[k] = cols(rows[end - 1], k)[0]
    return fails, tags


def run_case(desc):
    from amaranth import Signal, Const
    from luna.gateware.interface.spi import SPIRegisterInterface
    rng = Rng(desc["seed"])
    mp = desc.get("map") or make_map(desc, rng.fork("map"))
    A, R, D, regs = mp["A"], mp["R"], mp["D"], mp["regs"]
    dut = SPIRegisterInterface(address_size=A, register_size=R, default_read_value=D,
                               support_size_autonegotiation=bool(mp["auto"]))
    ins = [dut.spi.sck, dut.spi.sdi, dut.spi.cs]
    outs = [dut.spi.sdo, dut.idle, dut.stalled, dut.interface.command_ready, dut.interface.command,
            dut.interface.word_complete, dut.interface.word_received]
    mask = [True] * len(outs)
    for k, (a, kind, p1, p2) in enumerate(regs):
        inp = Signal(R, name="in_%d" % k)
        ins.append(inp)
        ws, rs = Signal(name="ws_%d" % k), Signal(name="rs_%d" % k)
        if mp["auto"] and k == 0:
            outs += [Const(0), Const(0), Const(0)]      # added by the constructor: no strobes
            mask += [False, True, False]
            continue
        if kind == K_CONST:
            dut.add_read_only_register(a, read=p1, read_strobe=rs)
            outs += [Const(0), Const(0), rs]
            mask += [False, True, True]
        elif kind == K_INPUT:
            dut.add_read_only_register(a, read=inp, read_strobe=rs)
            outs += [Const(0), Const(0), rs]
            mask += [False, True, True]
        elif kind == K_MEM:
            v = dut.add_register(a, size=p1, init=p2, write_strobe=ws, read_strobe=rs)
            outs += [v, ws, rs]
            mask += [True, True, True]
        else:
            dut.add_sfr(a, write_signal=Signal(R, name="wv_%d" % k), write_strobe=ws, read_strobe=rs)
            outs += [Const(0), ws, rs]
            mask += [False, True, True]
    stim = desc.get("stimulus") or make_stimulus(desc, mp, rng.fork("stim"))
    raw = sim.run_cycles(dut, ins, outs, stim, domain="sync")
    rows = [[v if m else None for v, m in zip(r, mask)] for r in raw]

    def cols(row, k):
        return row[7 + 3 * k], row[8 + 3 * k], row[9 + 3 * k]

    fails, tags = monitor(desc, mp, stim, rows, cols)
    tags |= {"A=%d" % A, "R=%d" % R, "kind=%d" % desc["kind"], "auto=%d" % mp["auto"]}
    for s in ("idle", "stalled"):
        pass
    cfg = [A, R, D, len(regs)] + [x for r in regs for x in r]
    d = dict(desc)
    d["map"] = mp
    names_out = ["sdo", "idle", "stalled", "command_ready", "command", "word_complete", "word_received"]
    for k, r in enumerate(regs):
        names_out += ["reg%x_value" % r[0], "reg%x_write_strobe" % r[0], "reg%x_read_strobe" % r[0]]
    return Case(cfg, stim, rows, fails, sorted(tags), d, ["sck", "sdi", "cs"] + ["in_%d" % k for k in range(len(regs))],
                names_out)
