"""C57 — the ready-made USB serial (CDC-ACM) device: `USBSerialDevice`, `ACMRequestHandlers` (usb/devices/acm.py).

DUT: the real `USBSerialDevice(bus=UTMIInterface(), …)` (12 MHz full-speed configuration), driven event by event
through harness/props/devx_util.SerialHarness (a DevHarness around the serial device: `produce 4` feeds `tx`,
`consume 4` drains `rx`).  Every event is compared with the Lean full-device model instantiated for this device
(control + standard handler + ACM handler, never-fed stream IN endpoint 3, bulk OUT 4, bulk IN 4, the device's
real descriptors).  The monitor states the property on the decoded bus traffic with its own host-side bookkeeping:

  c57-enumeration               the standard enumeration sequence is answered with the device's descriptors
                                (taken from `create_descriptors`), SET_ADDRESS / SET_CONFIGURATION complete
  c57-set-line-coding           SETUP ACKed, the 7-byte OUT data stage ACKed, status IN answered with a DATA1 ZLP
  c57-class-vendor-not-stalled  EVERY other class request and EVERY vendor / reserved request (whatever bRequest,
                                recipient, direction, wLength): no DATA, no ACK (data-stage and status-stage OUT
                                packets included), first data-stage IN or status IN answered STALL
  c57-class-vendor-state-change address and configuration are unchanged for as long as such a request is the latched one
  c57-rx-order                  bytes of OUT packets the device accepted (ACK, not a retransmission) come out of `rx`
                                in order, nothing else does
  c57-tx-order                  bytes accepted by `tx` reach the host in order, exactly once (host discards
                                retransmissions by data toggle)
  c57-tx-stuck                  ... and they do reach it when the host keeps polling: NAK_LIMIT consecutive NAKs of IN 4
                                while the accepted, undelivered bytes contain a whole stream packet are a failure
CLEAR_FEATURE(ENDPOINT_HALT) naming endpoint 4 is part of the host script (also with a tx packet in flight); the rx / tx
monitors follow it as the theorems rx_in_order / tx_in_order state it: both sides restart with DATA0 when the ACK of the
status stage arrives, buffered data stay, and a tx packet the host had accepted whose ACK the device did not see must
come exactly once more (it is not counted as new data).
"matrix" cases sweep request type x recipient x bRequest x direction x data stage systematically (`request_matrix`),
before and after enumeration and between bulk transfers.
"txack" cases (monitor only) write `tx` CONCURRENTLY with the host's handshake (AlignedHarness): the byte that completes a
stream packet is accepted in every cycle around the host's ACK of the previous IN packet (offset sweep).
"overflow" cases keep the rx consumer stalled while the host fills the receive FIFO and keeps writing (the packets that
do not fit must be NAKed and must not advance the toggle; an ACKed-and-dropped packet shows up as c57-rx-order).
"""
import os

from harness.common.framework import Case
from harness.common.rng import Rng
from harness.common import devharness as DH
from harness.common import usbref as U
from harness.common import leanrun
from harness.props import dev_ctl
from harness.props import devx_util as X

PROP = "C57"
LEAN_MODULES = ["LunaVerif.Props.C57", "LunaVerif.Lemmas.C57Ghost", "LunaVerif.Lemmas.C57Rx", "LunaVerif.Lemmas.C57Tx",
                "LunaVerif.Props.C57Streams", "LunaVerif.Props.C57RxHost",
                "LunaVerif.Lemmas.C57CycBridge", "LunaVerif.Lemmas.C57CycRuns", "LunaVerif.Props.C57Cycles"]
DRIVER = "Driver/C57.lean"
REQUIRED_THEOREMS = ["acm_enumerates", "set_line_coding_accepted", "other_class_vendor_stalled", "vendor_reserved_stalled",
                     "unsupported_request_stalled", "rx_in_order_partial", "tx_in_order_partial",
                     "rx_in_order", "rx_delivered_prefix", "tx_in_order", "tx_kept_prefix", "tx_exactly_once",
                     "halt_clear_is_clear_feature", "rx_host_in_order", "rx_host_exactly_once",
                     "out_data_follows_out_token",
                     "in_bridge", "out_bridge", "in_cycles_refine", "out_cycles_refine",
                     "acm_rx_cycles", "acm_tx_cycles", "acm_status_cycles", "cycle_ghost_eq",
                     "rx_in_order_cycles", "delivered_is_stream", "tx_in_order_cycles", "tx_exactly_once_cycles"]
RULE = ("cases = (a) 'matrix' sessions: ONE request matrix per run, cut into 4 (quick) / 48 (thorough) sessions = the FULL "
        "cross request type (standard / class / vendor / reserved) x recipient (device / interface / endpoint / other / a "
        "reserved one) x direction x data stage (none / wLength 7 / another wLength) for every bRequest that ACMRequestHandlers implements (its "
        "integer class constants, read from acm.py: SET_LINE_CODING 0x20), plus, for the neighbours of those codes (-1, +1, "
        "+2, +3, ^0x80), the other CDC codes (0x00..0x02, 0x21..0x23), 0xFF and random codes, the cross type (class / vendor "
        "/ reserved) x direction x data stage with random recipient (thorough: the full cross again); every cell is a clean "
        "control transfer, a quarter of them before enumeration (address 0, unconfigured), the rest after it, directly "
        "after bulk IN / bulk OUT transfers, SET_LINE_CODING, status-endpoint polls, and one in five right after an "
        "abandoned SET_LINE_CODING (SETUP only / SETUP + data); (b) USBSerialDevice (strings / max packet size 64) x "
        "adaptive host script: enumeration, then a random mix of "
        "SET_LINE_CODING, other class / vendor / reserved requests (bRequest: half of the time a code the ACM handler "
        "knows or a neighbour), standard requests, OUT transfers to endpoint 4 "
        "(retransmissions after 'lost' ACKs, corrupted packets, PING, rx consumer draining at random), IN transfers from "
        "endpoint 4 (tx producer chunks of 1..2*mps+3 bytes with and without `last`, lost / corrupted host ACKs, "
        "other devices' transactions in between), CLEAR_FEATURE(ENDPOINT_HALT) for endpoint 3 / OUT 4 / IN 4 (a third of "
        "them right after a tx packet whose ACK the host loses or corrupts), polls of the never-fed endpoint 3, SOF, "
        "malformed packets; "
        "'overflow' cases keep the rx consumer stalled while the host fills the FIFO and keeps writing; (c) 'txack' cases "
        "(monitor only; 4 quick / 8 widen / 24 thorough): enumeration, then 36 rounds, one per offset 1..36: a short tx "
        "message, the host's IN transaction for it, and a second message of 1..3 bytes written CONCURRENTLY so that its "
        "packet-completing byte (its `last` byte, or - 1 round in 3, after a pre-fill of 64-L bytes without `last` - the "
        "byte that fills the packet to max_packet_size) is offered `offset` cycles after the end of the device's data "
        "packet, i.e. in every cycle around the host's ACK; odd case indices with fixed bus timing (every alignment hit "
        "exactly once), even ones with random timing; the host then polls until it has everything (<= 25 polls); "
        "all modes: c57-tx-stuck = 20 consecutive NAKs of IN 4 while the bytes accepted by tx and not yet delivered "
        "contain a whole stream packet")
ASSUMPTIONS = dev_ctl.ASSUMPTIONS + [
    "stream events happen between transactions (theorems and model; the monitor-only 'txack' cases also write tx "
    "concurrently with the host's handshake); tx `first` is not used by the endpoint",
    "rx_in_order: no assumption on the event history (every history of the whole-device model from reset, legal or not)",
    "tx_in_order: HostAcksWhatItGot - a handshake ACK that reaches the device while its token detector shows the IN "
    "token of endpoint 4 follows directly on a DATA answer that the host received intact (the host's reception is an "
    "annotation `got` of the IN-token events; the device-side event history cannot tell); the host applies the toggle "
    "rule, restarts with DATA0 when the ACK of a CLEAR_FEATURE(ENDPOINT_HALT) status stage for IN 4 reaches the device, "
    "and keeps its toggles across a bus reset (the gateware keeps the endpoints' toggles and buffers across it)",
    "rx_host_in_order / rx_host_exactly_once: HostOutDiscipline - a data packet the host sends while the device's token "
    "detector shows OUT / endpoint 4 carries the host's sequence bit, and while a packet is pending (not seen ACKed: "
    "`got` of the data event) the host sends that packet again; the host restarts with DATA0 when the ACK of a "
    "CLEAR_FEATURE(ENDPOINT_HALT) status stage for OUT 4 reaches the device",
    "operation-level theorems rx_in_order_partial / tx_in_order_partial: no CLEAR_FEATURE(ENDPOINT_HALT) in between",
]
PARTIAL = ("rx_in_order / tx_in_order are now proved for EVERY event history of the whole-device model (control "
           "transfers incl. CLEAR_FEATURE(ENDPOINT_HALT) for any endpoint, bus resets, other endpoints' and devices' "
           "traffic, lost / corrupted packets and handshakes, back-pressure), with what a halt-clear does stated as "
           "coded: OUT 4 - expected toggle back to DATA0, buffered bytes stay; IN 4 - both sides restart with DATA0, "
           "buffered bytes stay, and a packet the host had accepted whose ACK the device has not seen is delivered a "
           "second time (logged in `redone`, at most one per such halt-clear; tx_exactly_once when there is none). "
           "rx_host_in_order / rx_host_exactly_once add the host's bookkeeping (seen ACKed / pending) over the same "
           "histories: device-ACKed-fresh = host's done ++ pending-if-the-device-has-it, a halt-clear of OUT 4 while the "
           "host has missed an ACK re-delivers that packet once (logged in `rredone`). "
           "Remaining: what the host receives / sees ACKed is an annotation `got` of the events (hypotheses "
           "HostAcksWhatItGot, HostOutDiscipline) rather than derived from a model of the bus; a host that loses the ACK "
           "of the CLEAR_FEATURE status stage itself (it restarts its toggle, the device does not) is outside the "
           "hypotheses. acm_enumerates is proved for the default descriptor set regenerated from "
           "create_descriptors on every run and for every address. Cycles -> events: proved for the three non-control "
           "endpoints (acm_rx_cycles / acm_tx_cycles / acm_status_cycles: C13's / C11's cycle-level machines over C12's "
           "clock-cycle expansions of every whole-device history put out what the whole-device model's endpoints put out; "
           "cycle_ghost_eq, rx_in_order_cycles, delivered_is_stream, tx_in_order_cycles transfer rx / tx order to the "
           "cycle-level models) under CycLegal (data packets directly follow a token, are acceptor-legal byte sequences "
           "and fit into the rx FIFO while the registers name OUT 4: the overflow -> NAK path is not transferred; stream "
           "events between transactions); the control endpoint (token registers, new_token, halt-clear strobe, request "
           "handlers incl. ACMRequestHandlers) and the packet layer below the endpoint interfaces remain tied to the "
           "gateware by co-simulation only.")

S, I, O, P = U.PID_SETUP, U.PID_IN, U.PID_OUT, U.PID_PING
D0, D1 = U.PID_DATA0, U.PID_DATA1
ACK, NAK, STALL = U.PID_ACK, U.PID_NAK, U.PID_STALL
MPS = 64
SERIAL_EPS = [["in", 3, MPS], ["out", 4, MPS], ["in", 4, MPS]]      # order of add_endpoint in USBSerialDevice.elaborate
GEN = os.path.join(leanrun.LEAN, "LunaVerif", "Generated", "AcmDescriptors.lean")


# ----------------------------------------------------------------------------- translator
def translate_descriptors():
    """lean/LunaVerif/Generated/AcmDescriptors.lean: the descriptor table of the default USBSerialDevice, as
    produced by the repository's own `create_descriptors`."""
    table = X.serial_descriptor_table({})
    lines = ["/- GENERATED by harness/props/c57.py from USBSerialDevice.create_descriptors — do not edit -/",
             "namespace LunaVerif.Generated", "",
             "/-- (type, index, bytes) of every descriptor of the default `USBSerialDevice`. -/",
             "def acmDescriptors : List (Nat × Nat × List Nat) := ["]
    lines.append(",\n".join("  (%d, %d, [%s])" % (t, i, ", ".join(str(b) for b in bs)) for t, i, bs in table))
    lines += ["]", "", "end LunaVerif.Generated", ""]
    text = "\n".join(lines)
    os.makedirs(os.path.dirname(GEN), exist_ok=True)
    if not os.path.exists(GEN) or open(GEN).read() != text:
        with open(GEN, "w") as f:
            f.write(text)
    return [os.path.relpath(GEN, leanrun.VERIF)]


TRANSLATORS = [translate_descriptors]


def serial_spec(strings=None):
    sp = {"strings": strings} if strings else {}
    return {"serial": sp, "shape": "acm", "desc": X.serial_descriptor_table(sp), "eps": SERIAL_EPS,
            "handlers": [["acm", 1, 0x20]]}


# ----------------------------------------------------------------------------- the request matrix
ACCEPTED = {(1, 0x20)}            # (type, bRequest) the property names as accepted: CLASS / SET_LINE_CODING
CDC_CODES = [0x00, 0x01, 0x02, 0x20, 0x21, 0x22, 0x23]       # CDC-PSTN request numbers a serial function may see


def acm_known_codes():
    """bRequest codes `ACMRequestHandlers` implements, read from the real class in the repository under test: its
    upper-case integer class constants (today SET_LINE_CODING = 0x20 only)."""
    from luna.gateware.usb.devices.acm import ACMRequestHandlers
    codes = sorted({v for k, v in vars(ACMRequestHandlers).items()
                    if k.isupper() and isinstance(v, int) and not isinstance(v, bool) and 0 <= v < 256})
    return codes or [0x20]


def request_matrix(rng, tier):
    """[[type, recipient, bRequest, dir_in, data], …] (data: 0 = no data stage, 1 = wLength 7, the size of a line coding,
    2 = another wLength): the full cross type (standard / class / vendor / reserved) x recipient (device / interface /
    endpoint / other / a reserved one) x direction x data for every code the ACM handler knows; for the neighbours of those codes, the other CDC codes and random codes the
    cross type (class / vendor / reserved) x direction x data stage with a random recipient (quick) or the full cross
    (thorough)."""
    known = acm_known_codes()
    near = sorted(({(c + d) & 0xFF for c in known for d in (-1, 1, 2, 3)} | {c ^ 0x80 for c in known} | set(CDC_CODES)
                   | {0xFF}) - set(known))
    rnd = [c for c in (rng.below(256) for _ in range(4 if tier == "quick" else 24)) if c not in known]
    out = []
    for code in known:
        for t in (0, 1, 2, 3):
            for rc in (0, 1, 2, 3, None):
                for d in (0, 1):
                    for data in (0, 1, 2):
                        out.append([t, rng.range(4, 31) if rc is None else rc, code, d, data])
    for code in near + rnd:
        for t in (1, 2, 3):
            for d in (0, 1):
                if tier == "quick":
                    for data in (0, rng.choice([1, 2])):
                        out.append([t, rng.choice([0, 1, 1, 2, 3, rng.range(4, 31)]), code, d, data])
                else:
                    for rc in (0, 1, 2, 3, None):
                        for data in (0, 1, 2):
                            out.append([t, rng.range(4, 31) if rc is None else rc, code, d, data])
    return rng.shuffle(out)


# ----------------------------------------------------------------------------- host
class SerialHost(X.FullHost):
    def __init__(self, rng, spec, tags, overflow=False):
        super().__init__(rng, spec, "c07", tags)
        self.overflow = overflow
        self.tx_ep = [e for e in spec["eps"] if e[0] == "in" and e[1] == 4][0]
        self.rx_ep = [e for e in spec["eps"] if e[0] == "out"][0]
        self.idle_ep = [e for e in spec["eps"] if e[0] == "in" and e[1] == 3][0]
        self.stream_in = [self.tx_ep]          # endpoint 3's stream is never driven
        self.in_eps = [4]

    def foreign(self, k=None):
        # dev_ctl.Host.maybe_foreign may name the kind of traffic it prefers; FullHost chooses for itself
        return super().foreign()

    def desc_bytes(self, t, i):
        for dt, di, b in self.spec["desc"]:
            if (dt, di) == (t, i):
                return b
        return None

    def simple_transfer(self, su, out_data=None, n_in=8):
        """A clean control transfer (no abandon / loss): returns after the status stage."""
        is_in, length = bool(su[0] & 0x80), su[6] | (su[7] << 8)
        yield ["tok", S, self.addr, 0]
        r = yield ["data", D0, su, 1]
        if not r.resp.is_hs(ACK):
            return
        yield from self.between()
        if length and is_in:
            got = 0
            for _ in range(n_in):
                r = yield ["tok", I, self.addr, 0]
                if not r.resp.is_data:
                    break
                yield ["hs", ACK]
                got += len(r.resp.payload)
                if len(r.resp.payload) < 64 or got >= length:
                    break
            if r.resp.is_hs(STALL):
                return
            yield ["tok", O, self.addr, 0]
            yield ["data", D1, [], 1]
        else:
            if length:
                yield ["tok", O, self.addr, 0]
                yield ["data", D1, out_data if out_data is not None else self.rng.bytes(min(length, 64)), 1]
                yield from self.between()
            r = yield ["tok", I, self.addr, 0]
            if r.resp.is_data:
                yield ["hs", ACK]

    def enumerate(self):
        rng = self.rng
        self.tag("enumeration")
        yield from self.simple_transfer(DH.setup_bytes(0x80, 6, 0x0100, 0, 64))
        a = rng.range(1, 127)
        yield from self.simple_transfer(DH.setup_bytes(0x00, 5, a))
        self.addr = a
        yield from self.simple_transfer(DH.setup_bytes(0x80, 6, 0x0100, 0, 18))
        yield from self.simple_transfer(DH.setup_bytes(0x80, 6, 0x0200, 0, 9))
        total = len(self.desc_bytes(2, 0))
        yield from self.simple_transfer(DH.setup_bytes(0x80, 6, 0x0200, 0, rng.choice([total, 255, total])))
        yield from self.simple_transfer(DH.setup_bytes(0x80, 6, 0x0300, 0, 255))
        for i in (1, 2, 3):
            if self.desc_bytes(3, i) is not None and rng.chance(80):
                yield from self.simple_transfer(DH.setup_bytes(0x80, 6, 0x0300 | i, 0x0409, 255))
        yield from self.simple_transfer(DH.setup_bytes(0x00, 9, 1))

    def class_request(self):
        rng = self.rng
        k = rng.weighted([(5, "slc"), (3, "scls"), (2, "glc"), (3, "vendor"), (2, "class-other"), (1, "reserved")])
        self.tag("req:" + k)
        if k == "slc":
            yield from self.simple_transfer(DH.setup_bytes(0x21, 0x20, 0, rng.choice([0, 1]), 7),
                                            out_data=[0x80, 0x25, 0, 0, 0, 0, 8])
        elif k == "scls":
            yield from self.simple_transfer(DH.setup_bytes(0x21, 0x22, rng.below(4), 0, 0))
        elif k == "glc":
            yield from self.simple_transfer(DH.setup_bytes(0xA1, 0x21, 0, 0, 7))
        elif k == "vendor":
            yield from self.simple_transfer(DH.setup_bytes(rng.choice([0x40, 0xC0, 0x41, 0xC1, 0x42, 0x43]), self.some_code(),
                                                           rng.below(65536), rng.below(65536), rng.choice([0, 0, 4, 7, 64])))
        elif k == "reserved":
            yield from self.simple_transfer(DH.setup_bytes(rng.choice([0x60, 0xE0, 0x61, 0xE1]), self.some_code(), 0,
                                                           rng.choice([0, 1]), rng.choice([0, 2, 7])))
        else:
            yield from self.simple_transfer(DH.setup_bytes(rng.choice([0x21, 0xA1, 0x20, 0xA2]),
                                                           rng.choice([0x00, 0x21, 0x22, 0x23, 0x1F, rng.below(256)]),
                                                           rng.below(65536), 0, rng.choice([0, 0, 7, 2])))

    def some_code(self):
        """a bRequest for a vendor / reserved request: half of the time one the ACM handler knows or a neighbour"""
        rng = self.rng
        known = acm_known_codes()
        return rng.weighted([(3, rng.choice(known)), (2, (rng.choice(known) + rng.choice([-1, 1, 2, 3])) & 0xFF),
                             (5, rng.below(256))])

    def slc(self):
        self.tag("req:slc")
        yield from self.simple_transfer(DH.setup_bytes(0x21, 0x20, 0, self.rng.choice([0, 1]), 7),
                                        out_data=[0x80, 0x25, 0, 0, 0, 0, 8])

    def matrix_request(self, combo, phase):
        """one cell of the request matrix, as a clean control transfer; one time in five right after a
        SET_LINE_CODING transfer the host abandoned after its SETUP or data stage (the ACM handler then has just seen
        'its' request)"""
        rng = self.rng
        t, rc, code, d, data = combo
        length = 0 if not data else 7 if data == 1 else rng.choice([1, 6, 8, 64, 300] if not d else [1, 6, 8, 64, 255])
        su = DH.setup_bytes((d << 7) | (t << 5) | rc, code, rng.choice([0, 0, rng.below(65536)]),
                            rng.choice([0, 1, rng.below(65536)]), length)
        pre = rng.weighted([(80, "none"), (10, "slc-setup"), (10, "slc-data")])
        if pre != "none":
            self.tag("mx:after-abandoned-" + pre)
            yield ["tok", S, self.addr, 0]
            r = yield ["data", D0, DH.setup_bytes(0x21, 0x20, 0, 0, 7), 1]
            if pre == "slc-data" and r.resp.is_hs(ACK):
                yield ["tok", O, self.addr, 0]
                yield ["data", D1, [0x80, 0x25, 0, 0, 0, 0, 8], 1]
        known = code in acm_known_codes()
        self.tag("mx:%s:type%d:%s" % (phase, t, "known-code" if known else "other-code"))
        self.tag("mx:type%d:%s:%s:%s" % (t, "req%#04x" % code if known else "other-code", "in" if d else "out",
                                        ["nodata", "len7", "len-other"][data]))
        self.tag("mx:recipient%s" % (rc if rc < 4 else "-reserved"))
        yield from self.simple_transfer(su, out_data=[0x80, 0x25, 0, 0, 0, 0, 8] if length == 7 else None)

    def drain(self):
        """finish the tx transfer, fetch everything, empty rx"""
        yield ["produce", 4, [self.rng.below(256)], 1]
        for _ in range(12):
            r = yield ["tok", I, self.addr, 4]
            if r.resp.is_data:
                yield ["hs", ACK]
            elif r.resp.is_hs(NAK):
                break
        yield ["consume", 4, 400]

    def matrix_script(self, combos):
        """the request matrix at every point of a session: a quarter of the cells before enumeration (address 0, not
        configured), the rest after it, with bulk transfers in both directions, SET_LINE_CODING and polls of the
        status endpoint in between"""
        rng = self.rng
        n0 = len(combos) // 4
        for c in combos[:n0]:
            yield from self.matrix_request(c, "unenumerated")
            if rng.chance(8):
                yield from self.slc()
        yield from self.enumerate()
        bulk = False
        for c in combos[n0:]:
            yield from self.matrix_request(c, "after-bulk" if bulk else "enumerated")
            bulk = False
            k = rng.weighted([(60, "next"), (12, "tx"), (12, "rx"), (8, "slc"), (4, "idle-ep"), (4, "between")])
            if k == "tx":
                yield from self.bulk_in(self.tx_ep)
                bulk = True
            elif k == "rx":
                yield from self.bulk_out(self.rx_ep)
                bulk = True
            elif k == "slc":
                yield from self.slc()
            elif k == "idle-ep":
                yield ["tok", I, self.addr, 3]
            elif k == "between":
                yield from self.between()
        yield from self.slc()
        yield from self.drain()

    def script(self, n_steps):
        rng = self.rng
        if rng.chance(85):
            yield from self.enumerate()
        for _ in range(n_steps):
            k = rng.weighted([(12, "class"), (8, "ctrl"), (30, "tx"), (30, "rx"), (4, "idle-ep"), (6, "between"), (6, "halt")])
            if k == "class":
                yield from self.class_request()
            elif k == "halt":
                # CLEAR_FEATURE(ENDPOINT_HALT) for endpoint 3 / OUT 4 / IN 4, also with a tx packet in flight (a third of
                # the time right after an IN transaction whose ACK the host "loses")
                if rng.chance(33):
                    self.tag("clear-halt:tx-in-flight")
                    yield ["produce", 4, rng.bytes(rng.choice([1, 3, 64])), 1]
                    r = yield ["tok", I, self.addr, 4]
                    if r.resp.is_data:
                        yield rng.choice([["raw", [0xD2 ^ (1 << rng.below(8))]], ["quiet"]])
                yield from self.clear_halt()
            elif k == "ctrl":
                yield from self.control_transfer()
            elif k == "tx":
                yield from self.bulk_in(self.tx_ep)
            elif k == "rx":
                if self.overflow:
                    yield from self.rx_overflow()
                else:
                    yield from self.bulk_out(self.rx_ep)
            elif k == "idle-ep":
                self.tag("poll-ep3")
                yield ["tok", I, self.addr, 3]
            else:
                yield from self.between()
        yield from self.drain()

    def rx_overflow(self):
        """rx consumer stalled: the host fills the receive FIFO (127 bytes) and keeps writing short packets"""
        rng = self.rng
        self.tag("rx-overflow")
        sizes = rng.choice([[64, 63], [64, 62], [64, 63], [63, 64]]) + [rng.choice([1, 2, 3]) for _ in range(rng.choice([1, 2]))]
        for n in sizes:
            t = self.toggle.get(4, 0)
            yield ["tok", O, self.addr, 4]
            r = yield ["data", D1 if t else D0, rng.bytes(n), 1]
            if r.resp.is_hs(ACK):
                self.toggle[4] = t ^ 1


# ----------------------------------------------------------------------------- tx writes aligned with the host's ACK
TXACK_OFFSETS = 36          # the completing byte is offered 1 .. 36 cycles after the end of the device's data packet
NAK_LIMIT = 20              # consecutive NAKs of IN 4 while a complete packet is owed: far above anything the device needs


ALIGNED_EP = 200            # pseudo event ["produce", ALIGNED_EP + offset, bytes, last]: a write CONCURRENT with the next events


class AlignedHarness(X.SerialHarness):
    """SerialHarness whose `tx` stream can also be written CONCURRENTLY with the host's events (the plain `produce`
    event runs between transactions only).  The pseudo event ["produce", ALIGNED_EP + offset, bytes, last] takes no
    time; it schedules a write of `bytes` (`last` on the final one) that starts `offset` cycles after the device's NEXT
    transmission (its answer to the IN token that follows) has left the bus, i.e. around the host's handshake.  Its
    `delivered` counts the bytes the stream accepted.  Being an event it is part of the recorded stimulus."""

    def __init__(self, spec, timing_rng=None):
        super().__init__(spec, timing_rng)
        self.job = None
        self.jobs = []
        self._pv = 0

    async def _event(self, ctx, ev):
        if ev[0] == "produce" and ev[1] >= ALIGNED_EP - 16:
            res = DH.EventResult(list(ev), DH.Response(DH.RESP_NONE), ctx.get(self.address), ctx.get(self.configuration),
                                 0, 0, self.cycle, [])
            self.log.append(res)
            if self.job is None:
                self.job = {"res": res, "offset": ev[1] - ALIGNED_EP, "data": list(ev[2]), "last": int(bool(ev[3])),
                            "at": None, "i": 0, "stall": 0, "first_cycle": None, "ev": len(self.log) - 1}
                self.jobs.append(self.job)
            return res
        return await super()._event(ctx, ev)

    async def _tick(self, ctx, rx=(0, 0, 0), line_state=None):
        st = self.dev.tx
        j = self.job
        mine = False
        if j is not None and j["at"] is not None and self.cycle >= j["at"]:
            if j["i"] < len(j["data"]) and j["stall"] <= 40:
                ctx.set(st.payload, j["data"][j["i"]])
                ctx.set(st.valid, 1)
                ctx.set(st.first, int(j["i"] == 0))
                ctx.set(st.last, int(bool(j["last"]) and j["i"] == len(j["data"]) - 1))
                mine = True
            else:
                ctx.set(st.valid, 0)
                ctx.set(st.first, 0)
                ctx.set(st.last, 0)
                self.job = None
        if mine:
            if ctx.get(st.ready):
                if j["first_cycle"] is None:
                    j["first_cycle"] = self.cycle
                j["i"] += 1
                j["res"].delivered = j["i"]
                j["stall"] = 0
            else:
                j["stall"] += 1
        v = await super()._tick(ctx, rx, line_state)
        if j is not None and j["at"] is None and self._pv and not v:
            j["at"] = self.cycle + j["offset"]          # the device's transmission has just ended
        self._pv = v
        return v


def with_jobs(log):
    """The event log with the concurrent writes presented as plain `produce 4` entries.  They stand where the write was
    scheduled (before the IN token), i.e. the bytes are known to the tx bookkeeping of `monitor` up to three events before
    the stream accepted them, which no clause minds (order among the writes is kept; the liveness clause allows
    NAK_LIMIT NAKs)."""
    out = []
    for r in log:
        if r.event[0] == "produce" and r.event[1] >= ALIGNED_EP - 16:
            r = DH.EventResult(["produce", 4, list(r.event[2]), r.event[3]], r.resp, r.address, r.configuration,
                               r.delivered, r.cycles, r.start_cycle, r.probe)
        out.append(r)
    return out


def txack_script(host, h, rounds):
    """enumeration, then per round: a short message M1 (one stream packet), the host's IN transaction for it, and a
    second message M2 of 1..3 bytes written so that its packet-completing byte (its `last` byte, or the byte that fills
    the packet to max_packet_size after a pre-fill without `last`) is accepted in a swept cycle around the host's ACK;
    the host then keeps polling until it has everything (at most NAK_LIMIT + 5 polls)."""
    rng = host.rng
    yield from host.enumerate()
    given = got = 0
    for offset, variant, ln in rounds:
        host.tag("txack:%s:len%d" % (variant, ln))
        m1 = rng.bytes(rng.choice([1, 2, 3, 5, 5, 17, MPS - 1]))
        r = yield ["produce", 4, m1, 1]
        given += r.delivered or 0
        if variant == "fill":
            r = yield ["produce", 4, rng.bytes(MPS - ln), 0]
            given += r.delivered or 0
        m2 = rng.bytes(ln)
        # `offset` = the cycle of the packet-completing byte
        yield ["produce", ALIGNED_EP + offset - (ln - 1), m2, int(variant == "last")]
        given += ln
        stuck = 0
        while got < given and stuck < NAK_LIMIT + 5:
            r = yield ["tok", I, host.addr, 4]
            if r.resp.is_data:
                yield ["hs", ACK]
                got += len(r.resp.payload)
                stuck = 0
            else:
                stuck += 1
        if got < given:
            host.tag("txack:gave-up")
            return
        if rng.chance(50):
            yield ["tok", I, host.addr, 4]          # nothing left: NAK
    yield from host.drain()


# ----------------------------------------------------------------------------- monitor
def monitor(log, spec, overflow=False):
    fails = []

    def fail(k, sig, what):
        if len(fails) < 5:
            fails.append({"cycle": k, "sig": sig, "what": "event %d %r -> %r: %s" % (k, log[k].event, log[k].resp, what)})

    table = {(t, i): b for t, i, b in spec["desc"]}
    addr = 0
    tok = None               # last token for the device (pid, ep)
    setup_wait = False
    cur = None               # dict: su, stage bookkeeping
    # rx
    rx_host = []             # bytes of accepted OUT packets
    rx_seen = []             # bytes delivered by consume
    out_toggle = 0
    # tx
    tx_given = []            # bytes accepted by the tx stream
    tx_host = []             # bytes the host has accepted
    in_toggle = 0
    last_in4 = None          # index of the last IN ep4 token answered with data
    # CLEAR_FEATURE(ENDPOINT_HALT) for endpoint 4 (as coded: it takes effect when the host's ACK of the status stage
    # arrives; both sides restart with DATA0, buffered data stay).  IN 4: a packet the host has accepted while the
    # device has not seen its ACK (`tx_unconf`) comes again as DATA0 and is accepted a second time (`tx_redo`: the
    # next packet accepted must be `tx_last` again and is not new data) - theorem tx_in_order, ghost `redone`.
    tx_unconf = False
    tx_redo = False
    tx_last = None
    # liveness the property implies: bytes the tx stream has accepted are eventually delivered when the host keeps polling.
    # A packet is OWED when the accepted bytes the host does not have yet contain a whole stream packet (a `last` byte, or
    # max_packet_size bytes since the last transfer end); NAK_LIMIT consecutive NAKs of IN 4 while one is owed = stuck.
    tx_end = 0               # offset in tx_given of the last transfer end (`last` byte accepted)
    tx_owed = 0              # offset in tx_given up to which the accepted bytes form whole packets
    nak_run = 0
    for k, r in enumerate(log):
        ev, resp = r.event, r.resp
        kind = ev[0]
        if kind == "tok":
            if ev[2] == addr:
                tok = (ev[1], ev[3])
                setup_wait = (ev[1] == S)
                if ev[1] == S:
                    cur = None
                pid, ep = ev[1], ev[3]
                if ep == 0 and pid == I and cur is not None:
                    c = cur
                    if c["in_data"] and not c["status"]:
                        # data stage IN
                        if c["kind"] == "get_descriptor" and c["clean"]:
                            if c["want"] is not None:
                                want = c["want"][c["pos"]:c["pos"] + 64]
                                if not resp.is_data or resp.payload != want:
                                    fail(k, "c57-enumeration", "GET_DESCRIPTOR %#06x wLength %d: expected packet %r"
                                         % (c["value"], c["length"], want))
                        elif c["kind"] == "unsupported":
                            if resp.is_data or resp.is_hs(ACK):
                                fail(k, "c57-class-vendor-not-stalled", "request %r answered in its data stage" % (c["su"],))
                            elif not c["stalled"] and not resp.is_hs(STALL) and c["clean"]:
                                fail(k, "c57-class-vendor-not-stalled", "data-stage IN of %r not STALLed" % (c["su"],))
                            c["stalled"] = c["stalled"] or resp.is_hs(STALL)
                    elif not c["in_data"]:
                        c["status"] = True
                        if c["kind"] == "slc":
                            if c["clean"] and not (resp.is_data and resp.pid == D1 and not resp.payload):
                                fail(k, "c57-set-line-coding", "status stage of SET_LINE_CODING not answered with a DATA1 ZLP")
                        elif c["kind"] == "unsupported":
                            if resp.is_data or resp.is_hs(ACK):
                                fail(k, "c57-class-vendor-not-stalled", "request %r answered in its status stage" % (c["su"],))
                            elif not c["stalled"] and not resp.is_hs(STALL) and c["clean"]:
                                fail(k, "c57-class-vendor-not-stalled", "status IN of %r not STALLed" % (c["su"],))
                            c["stalled"] = c["stalled"] or resp.is_hs(STALL)
                        elif c["kind"] in ("set_address", "set_configuration") and c["clean"]:
                            if not (resp.is_data and not resp.payload):
                                fail(k, "c57-enumeration", "status stage of %s not answered with a ZLP" % c["kind"])
                            c["zlp"] = True
                if ep == 0 and pid in (O, P) and cur is not None and cur["in_data"]:
                    cur["status"] = True
                if ep == 4 and pid == I:
                    last_in4 = k if resp.is_data else None
                    if resp.is_hs(NAK) and len(tx_host) < tx_owed and not tx_unconf and not tx_redo:
                        nak_run += 1
                        if nak_run == NAK_LIMIT:
                            fail(k, "c57-tx-stuck", "the tx stream has accepted %d bytes that form whole packets, the host has "
                                 "%d of them and keeps polling, but IN 4 was NAKed %d times in a row"
                                 % (tx_owed, len(tx_host), nak_run))
                    else:
                        nak_run = 0
                if ep == 3 and pid == I and not resp.is_hs(NAK):
                    fail(k, "c57-idle-endpoint", "the never-fed endpoint 3 did not NAK")
            else:
                tok = None if tok is None else (0, tok[1])
        elif kind == "data":
            if tok is not None and tok[0] == S and setup_wait and ev[3] and len(ev[2]) <= 8:
                setup_wait = False
                if len(ev[2]) == 8 and tok[1] == 0:
                    if not resp.is_hs(ACK):
                        fail(k, "c57-enumeration", "a well-formed SETUP transaction was not ACKed")
                    else:
                        su = ev[2]
                        typ, req = (su[0] >> 5) & 3, su[1]
                        value, length = su[2] | (su[3] << 8), su[6] | (su[7] << 8)
                        cur = {"su": su, "in_data": bool(su[0] & 0x80) and length != 0, "status": False, "stalled": False,
                               "clean": True, "kind": "other", "value": value, "length": length, "pos": 0, "pending": 0,
                               "out_acked": False, "zlp": False}
                        if typ == 0 and req == 6 and (su[0] & 0x80) and length:
                            cur["kind"] = "get_descriptor"
                            b = table.get((value >> 8, value & 0xFF))
                            cur["want"] = None if b is None else b[:length]
                        elif typ == 0 and req == 5:
                            cur["kind"] = "set_address"
                        elif typ == 0 and req == 9:
                            cur["kind"] = "set_configuration"
                        elif typ == 0 and req == 1:
                            cur["kind"] = "clear_feature"
                        elif (typ, req) in ACCEPTED:
                            cur["kind"] = "slc"
                        elif typ != 0:
                            # EVERY other class request and EVERY vendor / reserved request, whatever its bRequest,
                            # recipient, direction and wLength
                            cur["kind"] = "unsupported"
                            cur["state"] = (log[k - 1].address, log[k - 1].configuration) if k else (0, 0)
            elif tok == (O, 0) and cur is not None and log[k - 1].event[0] == "tok":
                c = cur
                if not c["in_data"] and c["length"] and not c["status"]:
                    if c["kind"] == "slc" and ev[3] and not resp.is_hs(ACK):
                        fail(k, "c57-set-line-coding", "the line-coding data packet was not ACKed")
                # data stage or status stage: an unsupported request never gets an ACK (or DATA) for an OUT packet
                if c["kind"] == "unsupported" and (resp.is_hs(ACK) or resp.is_data):
                    fail(k, "c57-class-vendor-not-stalled", "OUT packet of %r answered (%s stage)"
                         % (c["su"], "status" if c["in_data"] or c["status"] or not c["length"] else "data"))
            elif tok == (O, 4) and log[k - 1].event[0] == "tok":
                t = 1 if ev[1] == D1 else 0
                if resp.is_hs(ACK) and ev[3] and t == out_toggle:
                    rx_host += list(ev[2])
                    out_toggle ^= 1
        elif kind == "hs":
            if ev[1] == ACK and cur is not None and tok == (I, 0) and log[k - 1].event[0] == "tok":
                c = cur
                if c["kind"] == "get_descriptor":
                    c["pos"] += 64
                if c["kind"] == "set_address" and c["zlp"]:
                    if r.address != (c["value"] & 0x7F):
                        fail(k, "c57-enumeration", "SET_ADDRESS %d completed but the address is %d" % (c["value"] & 0x7F, r.address))
                if c["kind"] == "set_configuration" and c["zlp"]:
                    if r.configuration != (c["value"] & 0xFF):
                        fail(k, "c57-enumeration", "SET_CONFIGURATION %d completed but the configuration is %d" % (c["value"] & 0xFF, r.configuration))
                if c["kind"] == "clear_feature" and log[k - 1].resp.is_data and not c.get("cleared"):
                    # the ACK of the status-stage ZLP: the halt-clear is strobed for the endpoint wIndex names
                    c["cleared"] = True
                    idx = c["su"][4]
                    if idx & 0x0F == 4 and not idx & 0x80:
                        out_toggle = 0
                    if idx & 0x0F == 4 and idx & 0x80:
                        in_toggle = 0
                        tx_redo = tx_redo or tx_unconf
                        tx_unconf = False
        elif kind == "reset":
            if cur:
                cur["clean"] = False
                cur.pop("state", None)
        elif kind == "produce" and ev[1] == 4:
            tx_given += list(ev[2][:r.delivered])
            if ev[3] and r.delivered == len(ev[2]) and r.delivered:
                tx_end = tx_owed = len(tx_given)
            else:
                tx_owed = max(tx_owed, tx_end + (len(tx_given) - tx_end) // MPS * MPS)
        elif kind == "consume" and ev[1] == 4:
            rx_seen += [b for (b, _f, _l) in r.delivered]
            if rx_seen != rx_host[:len(rx_seen)]:
                fail(k, "c57-rx-order", "rx stream delivered %d bytes that are not the prefix of the %d bytes of accepted OUT packets"
                     % (len(rx_seen), len(rx_host)))
                rx_seen = rx_host[:len(rx_seen)]
        # a STALLed (unsupported) request changes nothing: address and configuration stay what they were when its
        # SETUP packet arrived (the streams are covered by c57-rx-order / c57-tx-order, which keep running)
        if cur is not None and cur.get("state") is not None and (r.address, r.configuration) != cur["state"]:
            fail(k, "c57-class-vendor-state-change", "address/configuration were %r when %r arrived, now %r"
                 % (cur["state"], cur["su"], (r.address, r.configuration)))
            cur["state"] = None
        # tx: did the host take the packet of the previous IN token?
        if last_in4 is not None and k == last_in4 + 1:
            got = (kind == "hs" and ev[1] == ACK) or (kind == "raw" and len(ev[1]) == 1)       # (corrupted) ACK: host has the data
            if got:
                p = log[last_in4].resp
                t = 1 if p.pid == D1 else 0
                if t == in_toggle:
                    in_toggle ^= 1
                    if tx_redo:
                        tx_redo = False
                        if list(p.payload) != tx_last:
                            fail(k, "c57-tx-order", "after the halt-clear the host did not get the unconfirmed packet %r again but %r"
                                 % (tx_last, list(p.payload)))
                    else:
                        tx_host += list(p.payload)
                    tx_last = list(p.payload)
                    tx_unconf = True
                if kind == "hs":
                    tx_unconf = False          # the device has seen the ACK
                if tx_host != tx_given[:len(tx_host)]:
                    fail(k, "c57-tx-order", "the host has received %d bytes that are not the prefix of the %d bytes given to tx"
                         % (len(tx_host), len(tx_given)))
                    tx_host = tx_given[:len(tx_host)]
            last_in4 = None
        addr = r.address
    # after the drain phase everything has arrived.  The tx claim is only made when the trace itself shows that the
    # drain was complete (so that a replayed, no longer adaptive script cannot raise a false alarm): the last chunk
    # given to tx was accepted entirely and ended the transfer (`last`), and the last poll of endpoint 4 was NAKed.
    if log and log[-1].event[0] == "consume" and log[-1].event[2] >= 127:
        if rx_seen != rx_host:
            fail(len(log) - 1, "c57-rx-order", "%d bytes of accepted OUT packets never came out of rx (%d delivered)" % (len(rx_host), len(rx_seen)))
        prods = [r for r in log if r.event[0] == "produce" and r.event[1] == 4]
        polls = [r for r in log if r.event[0] == "tok" and r.event[1] == I and r.event[3] == 4]
        complete = (prods and prods[-1].event[3] and prods[-1].delivered == len(prods[-1].event[2])
                    and polls and polls[-1].resp.is_hs(NAK) and polls[-1].start_cycle > prods[-1].start_cycle)
        if complete and tx_host != tx_given:
            fail(len(log) - 1, "c57-tx-order", "%d bytes given to tx, %d reached the host after the final drain" % (len(tx_given), len(tx_host)))
    return fails


# ----------------------------------------------------------------------------- cases
def gen_cases(tier, rng):
    if tier == "quick":
        n, steps, n_over, n_mx = 30, 14, 4, 4
    elif tier == "widen":
        n, steps, n_over, n_mx = 100, 20, 6, 8
    else:
        n, steps, n_over, n_mx = 400, 30, 30, 48
    out = []
    # the request matrix first (spread over the workers): one matrix per run, cut into n_mx sessions
    mseed = rng.u64()
    mtier = "thorough" if tier == "thorough" else "quick"
    for k in range(n_mx):
        out.append({"mode": "matrix", "seed": rng.u64(), "mseed": mseed, "mtier": mtier, "part": k, "parts": n_mx, "k": k})
    for k in range(n):
        out.append({"mode": "serial", "seed": rng.u64(), "steps": steps, "k": k})
    for k in range(n_over):
        out.append({"mode": "overflow", "seed": rng.u64(), "steps": 8, "k": k})
    # tx writes aligned with the host's ACK: every case sweeps ALL offsets (one round each, random order)
    for k in range({"quick": 4, "widen": 8}.get(tier, 24)):
        out.append({"mode": "txack", "seed": rng.u64(), "k": k})
    return out


def txack_rounds(rng, k):
    """[(offset, variant, length)]: every offset 1..TXACK_OFFSETS once, in random order; variant `last` (M2 ends with
    `last`) 2 of 3, `fill` (M2 fills the packet to max_packet_size) 1 of 3; length 1..3 rotating with the case index"""
    offs = rng.shuffle(list(range(1, TXACK_OFFSETS + 1)))
    return [[o, "fill" if (o + k) % 3 == 2 else "last", 1 + (o + k // 3 + i) % 3] for i, o in enumerate(offs)]


def run_case(desc):
    rng = Rng(desc["seed"])
    tags = set()
    overflow = desc["mode"] == "overflow"
    strings = desc.get("strings")
    if strings is None and not desc.get("stimulus") and rng.fork("strings").chance(30):
        srng = rng.fork("strings")
        strings = [srng.choice(["LUNA", "ACME Corp", "x"]), srng.choice(["USB-to-serial", "Serial thing with a long name 0123456789"]),
                   srng.choice(["", "12345678"])]
    spec = serial_spec(strings)
    txack = desc["mode"] == "txack"
    if txack:
        # k odd: fixed bus timing (no byte gaps, tx_ready always high), so that the offset sweep covers every alignment
        # of the write and the ACK exactly once; k even: the usual random timing
        h = AlignedHarness(spec["serial"], None if desc.get("k", 0) % 2 else rng.fork("timing"))
    else:
        h = X.SerialHarness(spec["serial"], rng.fork("timing"))
    if desc.get("stimulus"):
        script = [DH.decode_event(row) for row in desc["stimulus"]]
    else:
        host = SerialHost(rng.fork("host"), spec, tags, overflow=overflow)

        if desc["mode"] == "matrix":
            combos = request_matrix(Rng(desc["mseed"]), desc["mtier"])[desc["part"]::desc["parts"]]

            def script(_h):
                return host.matrix_script(combos)
        elif txack:
            rounds = txack_rounds(rng.fork("rounds"), desc.get("k", 0))

            def script(_h):
                return txack_script(host, _h, rounds)
        else:
            def script(_h):
                return host.script(desc["steps"])
    d = dict(desc)
    d["strings"] = strings
    log, hung = X.run_guarded(h, script)
    if hung is not None:
        return X.hang_case(X.cfg_ints_full(spec, acm=True), h, hung, d, tags, prefix="c57")
    inputs, outputs = X.full_rows(log, legal_flag=not desc.get("stimulus"))
    if txack:
        for j in h.jobs:
            if j["first_cycle"] is not None and j["ev"] + 3 < len(log):
                tags.add("txack:write-starts-%s" % ("before-the-handshake-event" if j["first_cycle"] < log[j["ev"] + 2].start_cycle
                                                    else "in-the-handshake-event" if j["first_cycle"] < log[j["ev"] + 3].start_cycle
                                                    else "after-the-handshake-event"))
    fails = monitor(with_jobs(log) if txack else log, spec, overflow=overflow)
    cfails, mtags = X.cycle_monitor(h.trace, log)       # C20's monitor comes for free on this device too
    for f in cfails:
        f["sig"] = "c57-" + f["sig"]
    fails += cfails
    for r in log:
        tags.add("resp:%d" % r.resp.kind if r.resp.kind != DH.RESP_HS else "resp:hs%d" % r.resp.pid)
    tags |= {t for t in mtags if not t.startswith("latency")}
    tags.add("mode:" + desc["mode"])
    # txack: monitor-only (the event-level Lean model has stream events between transactions only)
    return Case(X.cfg_ints_full(spec, acm=True), inputs, outputs, fails, sorted(tags), d, ["event…"], X.NAMES_OUT,
                lean=not txack)
