"""C07 — see harness/props/dev_ctl.py (event level, shared with the other control-endpoint properties) and
harness/props/c07_cyc.py (cycle level: the real USBControlEndpoint + StandardRequestHandler standalone against
Model/Usb2/ControlCyc.lean, run through the `extra_checks` hook with its own driver)."""
from harness.common import framework
from harness.props import dev_ctl, c07_cyc

PROP = "C07"
LEAN_MODULES = ["LunaVerif.Props.C07"]
DRIVER = dev_ctl.DRIVER
REQUIRED_THEOREMS = ["stage_follows_setup", "data_in_only_after_in_setup", "in_token_answered_only_in_data_or_status_in", "out_data_answered_only_in_status_out", "setup_always_restarts", "other_endpoint_tokens_are_stutter", "other_endpoint_transactions_are_stutter"]
RULE = dev_ctl.RULE + (" | cycle level (extra_checks): cases = (descriptor-set shape, endpoint number, max packet size) x a "
                       "per-cycle micro-host driving the EndpointInterface of the standalone USBControlEndpoint (control "
                       "transfers with abandoned stages, transactions on other endpoints and for other devices between the "
                       "stages, corrupted SETUP data, PING, plus bursts of arbitrary tokenizer flags / strobes)")
ASSUMPTIONS = dev_ctl.ASSUMPTIONS
PARTIAL = dev_ctl.PARTIAL["C07"]


def gen_cases(tier, rng):
    return dev_ctl.gen_dev_cases(tier, rng, "c07")


def run_case(desc):
    if desc.get("mode") == "cyc":
        return c07_cyc.run_case(desc)
    return dev_ctl.run_dev_case(desc, PROP)


def extra_checks(tier, rng, proof):
    return c07_cyc.extra_checks(tier, rng, proof, nproc=framework.NPROC)
