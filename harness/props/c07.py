"""C07 — see harness/props/dev_ctl.py (event level, shared with the other control-endpoint properties) and
harness/props/c07_cyc.py (cycle level: the real USBControlEndpoint + StandardRequestHandler standalone against
Model/Usb2/ControlCyc.lean, run through the `extra_checks` hook with its own driver)."""
from harness.common import framework
from harness.props import dev_ctl, c07_cyc

PROP = "C07"
# cycle-level refinement for the streaming handler states and the bus reset (added by the second C07 prover)
STREAM_MODULES = ["LunaVerif.Lemmas.C07Stream", "LunaVerif.Lemmas.C07StreamCycles", "LunaVerif.Lemmas.C07StreamSeq",
                  "LunaVerif.Lemmas.C07StreamMain", "LunaVerif.Lemmas.C07StreamRun", "LunaVerif.Lemmas.C07StreamExamples",
                  "LunaVerif.Lemmas.C07StreamContracts", "LunaVerif.Lemmas.C07Closed",
                  "LunaVerif.Lemmas.C07Closed2", "LunaVerif.Lemmas.C07Legal",
                  # every max_packet_size (event-level model with start_position += max_packet_size), the GET_DESCRIPTOR data
                  # stage, the closed loops and the LegalHost chain for 8 / 16 / 32 / 64; additional request handlers
                  "LunaVerif.Lemmas.C07Mps", "LunaVerif.Lemmas.C07MpsExamples", "LunaVerif.Lemmas.C07MpsRead",
                  "LunaVerif.Lemmas.C07MpsClosed", "LunaVerif.Lemmas.C07MpsLegal", "LunaVerif.Lemmas.C07Extra",
                  # stepM / coreM (Model/Device/ControlM.lean, the model drv_dev steps) against step / core from the same state
                  "LunaVerif.Lemmas.DeviceStepsM"]
# the C07 stage theorems stated of the cycle-level closed loop (only C07 audits this one)
TRANSFER_MODULES = ["LunaVerif.Lemmas.C07Transfer", "LunaVerif.Lemmas.C07MpsTransfer"]
LEAN_MODULES = ["LunaVerif.Props.C07"] + dev_ctl.CYC_MODULES + STREAM_MODULES + TRANSFER_MODULES
DRIVER = dev_ctl.DRIVER
REQUIRED_THEOREMS = ["stage_follows_setup", "data_in_only_after_in_setup", "in_token_answered_only_in_data_or_status_in", "out_data_answered_only_in_status_out", "setup_always_restarts", "other_endpoint_tokens_are_stutter", "other_endpoint_transactions_are_stutter",
                     "ctrl_stage_restarts_on_setup", "handler_restarts_on_setup", "handshake_forwarded_only_for_own_in_token",
                     "address_strobe_only_on_gated_ack_in_set_address", "unhandled_stalls", "requests_come_from_their_stage",
                     "cyc_stage_follows_setup", "cyc_requests_follow_setup", "cycle_refines_event", "cycle_refines_event_run",
                     "sim_window", "cycle_refines_event_streams", "cycle_refines_event_all", "cycle_refines_event_streams_run",
                     "ready_cycle_wires", "transmitter_contract", "descriptorPacket_spec", "block_handler_contract", "dist_handler_contract",
                     "wires_indep", "sysStep_ignores_t", "cl_send", "closed_event", "closed_loop_refines_event_run",
                     "cl2_desc", "closed_event2", "closed2_refines_event_run",
                     "readInv_legal", "legal_read_in_order", "closed2_refines_legal_run",
                     "closed2_data_only_after_in_setup", "closed2_in_answered_only_in_data_or_status_in",
                     "coreM_eq_core", "cycle_refines_event_streams_mps", "cycle_refines_event_all_mps",
                     "cycle_refines_event_streams_run_mps", "cycle_refines_event_streams_run_of_mps",
                     "get_descriptor_data_stage_mps", "cyc_get_descriptor_data_stage_mps",
                     "closed_loop_refines_event_run_mps", "closed2_refines_event_run_mps",
                     "readInv_legal_mps", "legal_read_in_order_mps", "closed2_refines_legal_run_mps",
                     "closed2_data_only_after_in_setup_mps", "closed2_in_answered_only_in_data_or_status_in_mps",
                     "stage_follows_setup_mps", "data_in_only_after_in_setup_mps", "out_data_answered_only_in_status_out_mps",
                     "setup_always_restarts_mps", "other_endpoint_tokens_are_stutter_mps", "coreM_ctl", "stepM_ctl",
                     "muxN_spec", "stepX_state", "stepX_unclaimed", "stepX_extra_owner", "stepX_conflict",
                     "extra_handlers_invisible", "cycle_refines_event_streams_run_extra"]
RULE_SYS = ("; next to it the two streamer models of the closed loops (Model/Usb2/ControlCycSys.lean: StreamGen.serStep wired to "
            "the handler model's transmitter wires; Desc.Block.step over Rom.layout of the case's descriptor table wired to "
            "value / length / start_position / start / ready, in the cases with GetDescriptorHandlerBlock) are compared with "
            "the real transmitter's / descriptor handler's outputs in every cycle (41 values per cycle); max packet sizes 8 / 16 / "
            "32 / 64; in half of the cases 1-2 additional request handlers (devharness zlpreg: vendor / class requests, the same "
            "request twice, a standard request) sit behind the real request multiplexer -- their interface outputs are sampled as "
            "inputs of the model (Model/Usb2/ControlCycX.lean stepX: abstract handlers, the multiplexer is the model's), the "
            "cycle-level monitor checks the multiplexer rule on the real trace (only claimant drives, nobody / several -> STALL)")
RULE_STATUS = ("; status stage IN: the host repeats the status IN (up to three times) when its ACK of the status ZLP was lost / "
               "corrupted / replaced by a NAK; the monitor demands an answer (ZLP / NAK / STALL, silence = "
               "c07-repeated-status-in-not-answered) to EVERY status-stage IN of a SET_ADDRESS / SET_CONFIGURATION / "
               "CLEAR_FEATURE(ENDPOINT_HALT) / singly-claimed extra-handler transfer until the host has ACKed the ZLP, the device "
               "STALLed, a new SETUP token or a reset; a repeated status OUT is not judged (the unchanged device answers only the "
               "first one)")
RULE = dev_ctl.RULE + RULE_STATUS + dev_ctl.CYC_RULE + RULE_SYS
ASSUMPTIONS = dev_ctl.ASSUMPTIONS
PARTIAL_STREAMS = (
    "the property theorems are about the event-level model, tied to the whole USBDevice by event-by-event co-simulation at control "
    "max packet sizes 8 / 16 / 32 / 64 (the shared driver drv_dev steps with stepM and reports legalEventM of "
    "Model/Device/ControlM.lean: Device.step / legalEvent with start_position += c.maxPacket, which ARE Device.step / legalEvent "
    "for 64 -- stepM_eq_step, legalEventM_64); the cycle-level model of USBControlEndpoint + request multiplexer + StandardRequestHandler "
    "(Model/Usb2/ControlCyc.lean, co-simulated cycle by cycle against the real standalone control endpoint with max packet "
    "sizes 8 / 16 / 32 / 64) is proved to simulate the event-level model along EVERY event history for EVERY max_packet_size "
    "(cycle_refines_event_streams_run_mps, no hypothesis on the size: all handler states incl. the GET_STATUS / "
    "GET_CONFIGURATION / GET_DESCRIPTOR data stages with their payload bytes, data PIDs and the start_position advance by "
    "max_packet_size on the gated ACK, and bus resets); the event-level model of that theorem is coreM / stepM "
    "(Lemmas/C07Mps.lean) = Device.core / Device.step with start_position += c.maxPacket, which IS Device.core for 64 "
    "(coreM_eq_core; Device.core itself, on which C12 / C14 / C20 / C57 build, advances by the literal 64; coreM / stepM is the "
    "model the event-level co-simulation of the whole USBDevice runs at all four sizes, so both sides of the refinement are "
    "co-simulated against the gateware at every size); get_descriptor_data_stage_mps / cyc_get_descriptor_data_stage_mps: for max_packet_size in "
    "{8, 16, 32, 64} the data stage read by IN + ACK pairs is exactly C09's Desc.dataStage (mps-sized chunks of the first "
    "wLength bytes, zero-length packet iff the total is a multiple of mps and smaller than wLength, DATA1 / DATA0 alternating), "
    "at event level and on the cycle-level bus; the property theorems of Props/C07.lean are re-stated for coreM / stepM "
    "(Lemmas/C07MpsTransfer.lean: stage_follows_setup_mps, data_in_only_after_in_setup_mps, "
    "in_token_answered_only_in_data_or_status_in_mps, out_data_answered_only_in_status_out_mps, setup_always_restarts_mps, "
    "other_endpoint_tokens_are_stutter_mps, other_endpoint_transactions_are_stutter_mps) and the data-stage / IN-token rules "
    "transferred to the cycle-level closed loop for the four sizes; the C08 and C10 property theorems are re-stated for coreM / stepM / "
    "LegalHostM as well (Lemmas/C08Mps.lean: address_changes_only_on_status_ack_mps, configuration_changes_only_on_status_ack_mps "
    "and the one-step theorems; Lemmas/C10Mps.lean: unsupported_never_answered_mps, handling_step_mps, "
    "unsupported_setup_establishes_handling_mps; Lemmas/DeviceStepsM.lean coreM_ctl / stepM_ctl: from the same state the two "
    "models differ in start_position and the LegalHost ghost only); in the refinement theorem the StreamSerializer "
    "'transmitter' and the descriptor handler are INPUTS of the cycle-level model, constrained in the expansion of an "
    "event by their stream contract (silent unless started; after `start` silent for lat >= 1 cycles, then the answer byte by "
    "byte, each held until tx.ready, `first`/`last` flags, ZLP = valid & last & ~first, missing descriptor = one stall "
    "cycle: Desc.respTrace); BOTH contracts are discharged by formal closed loops, for 64 and (…_mps) for every legal size: "
    "closed_loop_refines_event_run(_mps) proves the "
    "same refinement of sysStep = CtrlCyc.step composed with the serializer model StreamGen.serStep "
    "(Model/Usb2/ControlCycSys.lean, co-simulated in situ against the real transmitter in every cycle) with no assumption "
    "on the transmitter (any descriptor handler satisfying the contract), and closed2_refines_event_run(_mps, sizes 8 / 16 / 32 "
    "/ 64) proves it of "
    "sys2Step = CtrlCyc.step + serializer model + the C09 model of GetDescriptorHandlerBlock (Desc.Block.step over "
    "Rom.layout of the event-level descriptor table) with NO stream contract left: the handler model produces the window's "
    "beats itself (cl2_desc, from C09 block_packet_exact / block_returns_idle via block_handler_contract and "
    "descriptorPacket_spec: the event-level descriptorPacket is C09's specResponse at in-order offsets), the theorem "
    "provides the descriptor-window latencies (SameButLat); remaining hypotheses there: the block handler's constructor "
    "preconditions (wellFormed collection, position register >= 2 bits), well-sized in-order descriptor reads (DescReqOk: "
    "start_position <= min(wLength, |descriptor|)) -- which closed2_refines_legal_run(_mps) derives from LegalHost / LegalHostM "
    "(legal_read_in_order(_mps): invariant ReadInv of legal histories, the host stops after a packet shorter than "
    "max_packet_size) --, windows long "
    "enough (WinFrom / Fits2From = C09's Complete 4); both streamer models inside the loops are co-simulated IN SITU (inside the real handler, on the "
    "model's own wires) in every cycle of the cycle-level co-simulation; for the distributed "
    "descriptor handler only the contract link is proved (dist_handler_contract, lat <= 2: its STALL in the start cycle is "
    "in the expansion -- GapsS.stallNow --, a DATA beat in the start cycle would not be), for the descriptor-handler mux no "
    "link lemma is stated (C09 mux_requests_exact has the same form); the host-side contract is that a started "
    "stream is consumed within the event's window (StreamFits) and that descriptor reads are in order; the expansion also "
    "encodes the contracts of the token detector, setup decoder and the device core's receiver strobes (proved at C04-C06, "
    "not composed formally here); additional request handlers: the cycle-level model stepX (Model/Usb2/ControlCycX.lean, "
    "co-simulated against the real control endpoint with 0-2 additional handlers) has ANY number of abstract handlers behind "
    "the multiplexer (their interface outputs are inputs; handshakes_out.nak of an additional handler is not modelled); "
    "muxN_spec proves the multiplexer's rule (the only claimant drives; nobody or several claimants -> the stall-only "
    "fallback), stepX_state that the control endpoint's and the standard handler's registers never depend on them, "
    "stepX_extra_owner / stepX_conflict the two claimed cases cycle by cycle, and extra_handlers_invisible / "
    "cycle_refines_event_streams_run_extra that along every history none of whose latched SETUP packets they claim (claim = a "
    "decidable predicate of the setup packet; everything else they drive is arbitrary) the run with them IS the run without "
    "them and refines the event-level model of the device with the standard handler only; NOT covered: a history-level "
    "refinement for the requests an additional handler DOES claim (the event-level model's concrete zlpreg handlers, c.extra "
    "!= [], are tied to the gateware by the event-level co-simulation and to the cycle level only by those one-cycle lemmas: "
    "an abstract handler's answers would have to become inputs of the event-level model), the rx stream pass-through of the "
    "DATA_OUT stage")
PARTIAL = PARTIAL_STREAMS


def gen_cases(tier, rng):
    return dev_ctl.gen_dev_cases(tier, rng, "c07")


def run_case(desc):
    if desc.get("mode") == "cyc":
        return c07_cyc.run_case(desc)
    return dev_ctl.run_dev_case(desc, PROP)


def extra_checks(tier, rng, proof):
    return c07_cyc.extra_checks(tier, rng, proof, nproc=framework.NPROC)
