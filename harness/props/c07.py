"""C07 — see harness/props/dev_ctl.py (shared with the other control-endpoint properties)."""
from harness.props import dev_ctl

PROP = "C07"
LEAN_MODULES = ["LunaVerif.Props.C07"]
DRIVER = dev_ctl.DRIVER
REQUIRED_THEOREMS = ["stage_follows_setup", "data_in_only_after_in_setup", "in_token_answered_only_in_data_or_status_in", "out_data_answered_only_in_status_out", "setup_always_restarts", "other_endpoint_tokens_are_stutter", "other_endpoint_transactions_are_stutter"]
RULE = dev_ctl.RULE
ASSUMPTIONS = dev_ctl.ASSUMPTIONS
PARTIAL = dev_ctl.PARTIAL["C07"]


def gen_cases(tier, rng):
    return dev_ctl.gen_dev_cases(tier, rng, "c07")


def run_case(desc):
    return dev_ctl.run_dev_case(desc, PROP)
