"""C07 — see harness/props/dev_ctl.py (event level, shared with the other control-endpoint properties) and
harness/props/c07_cyc.py (cycle level: the real USBControlEndpoint + StandardRequestHandler standalone against
Model/Usb2/ControlCyc.lean, run through the `extra_checks` hook with its own driver)."""
from harness.common import framework
from harness.props import dev_ctl, c07_cyc

PROP = "C07"
LEAN_MODULES = ["LunaVerif.Props.C07"] + dev_ctl.CYC_MODULES
DRIVER = dev_ctl.DRIVER
REQUIRED_THEOREMS = ["stage_follows_setup", "data_in_only_after_in_setup", "in_token_answered_only_in_data_or_status_in", "out_data_answered_only_in_status_out", "setup_always_restarts", "other_endpoint_tokens_are_stutter", "other_endpoint_transactions_are_stutter",
                     "ctrl_stage_restarts_on_setup", "handler_restarts_on_setup", "handshake_forwarded_only_for_own_in_token",
                     "address_strobe_only_on_gated_ack_in_set_address", "unhandled_stalls", "requests_come_from_their_stage",
                     "cyc_stage_follows_setup", "cyc_requests_follow_setup", "cycle_refines_event", "cycle_refines_event_run"]
RULE = dev_ctl.RULE + dev_ctl.CYC_RULE
ASSUMPTIONS = dev_ctl.ASSUMPTIONS
PARTIAL = dev_ctl.PARTIAL["C07"]


def gen_cases(tier, rng):
    return dev_ctl.gen_dev_cases(tier, rng, "c07")


def run_case(desc):
    if desc.get("mode") == "cyc":
        return c07_cyc.run_case(desc)
    return dev_ctl.run_dev_case(desc, PROP)


def extra_checks(tier, rng, proof):
    return c07_cyc.extra_checks(tier, rng, proof, nproc=framework.NPROC)
