"""C19 — USB2 reset / high-speed chirp handshake / suspend (luna/gateware/usb/usb2/reset.py: USBResetSequencer).

Rows of a case are *run-length segments*, not single cycles:
    input row  = [low_speed_only, full_speed_only, bus_busy, vbus_connected, line_state, disconnect, n]
                 (the six inputs are held for n clock cycles of the `usb` domain)
    output row = [cfg_is_luna, k, off_1, out_1, ..., off_k, out_k]
                 every cycle of the segment in which the packed output ports differ from the cycle before
                 (offset inside the segment, new value).  The real gateware is sampled in EVERY cycle and
                 the Lean driver steps the model through every cycle, so this is an exact cycle-by-cycle
                 comparison; only the text that is exchanged is compressed.
    packed outputs: bit0 bus_reset, bit1 suspended, bits2-3 current_speed, bits4-5 operating_mode,
                    bit6 termination_select, bit7 tx.valid, bits8-15 tx.data
"""
import bisect

from harness.common.framework import Case
from harness.common.rng import Rng
from harness.common import sim

PROP = "C19"
LEAN_MODULES = ["LunaVerif.Props.C19"]
DRIVER = "Driver/C19.lean"
REQUIRED_THEOREMS = ["hs_only_after_handshake", "no_chirp_when_restricted", "leaves_hs_within_two_cycles",
                     "falls_back_on_timeout", "bus_reset_only_if", "suspend_only_after_3ms_idle"]
RULE = ("line-state scripts from the grammar {power-up, bus reset, device chirp, host K-J chirps with per-chirp "
        "durations around the 2.5us threshold +-3, glitches, HS idle, HS suspend/reset discrimination window, FS/LS "
        "suspend, resume, reset from suspend, VBUS loss, soft disconnect, restriction toggles (also inside the "
        "200us window), bus_busy during chirp preparation, K/J exactly at the 2.5ms time-out, SE0 longer than the "
        "timer wrap}; real class constants (0.2-0.5 M cycles per scenario) and scaled-down constant sets (the "
        "instance attributes the repo's own test overrides) so that timer wrap-around and every boundary is hit "
        "often.  ROWS ARE RUN-LENGTH SEGMENTS: 'cycles' in the summary counts segments; simulated clock cycles "
        "are in the coverage tag cycles=…")
ASSUMPTIONS = [
    "clock of the usb domain is 60 MHz (all times are cycle counts: 2.5us=150, 5us=300, 200us=12000, 2ms=120000, "
    "2.5ms=150000, 3ms=180000)",
    "bus_busy is asserted for less than 1 ms in total between a bus reset and the device chirp (chirp length = "
    "2ms+1 cycles minus the cycles spent in PREPARE_FOR_CHIRP_0/1)",
]
PARTIAL = ""

SPEC = {"c2p5us": 150, "c5us": 300, "c200us": 12000, "c2ms": 120000, "c2p5ms": 150000, "c3ms": 180000}
ATTR = {"c2p5us": "_CYCLES_2P5_MICROSECONDS", "c5us": "_CYCLES_5_MICROSECONDS", "c200us": "_CYCLES_200_MICROSECONDS",
        "c2ms": "_CYCLES_2_MILLISECONDS", "c2p5ms": "_CYCLES_2P5_MILLISECONDS", "c3ms": "_CYCLES_3_MILLISECONDS"}
KEYS = ["c2p5us", "c5us", "c200us", "c2ms", "c2p5ms", "c3ms"]
SCALED = [
    (5, 10, 40, 120, 150, 180),
    (7, 13, 50, 100, 170, 200),
    (3, 6, 20, 60, 75, 90),
    (5, 10, 40, 120, 150, 255),
    (4, 9, 30, 200, 230, 250),
]
SE0, J, K, SE1 = 0, 1, 2, 3
HIGH, FULL, LOW = 0, 1, 2
NORMAL, NONDRIVING, CHIRP = 0, 1, 2


# ------------------------------------------------------------------------------------------------ stimulus
class Script:
    def __init__(self, c, rng):
        self.c = c
        self.rng = rng
        self.rows = []
        self.cur = {"low": 0, "full": 0, "busy": 0, "vbus": 0, "line": J, "disc": 0}
        self.t = 0
        self.tags = set()

    def emit(self, n, **kw):
        self.cur.update(kw)
        if n <= 0:
            return
        c = self.cur
        self.rows.append([c["low"], c["full"], c["busy"], c["vbus"], c["line"], c["disc"], int(n)])
        self.t += n

    # ---- small helpers
    def d(self, lo=-2, hi=3):
        return self.rng.range(lo, hi)

    def idle_line(self):
        return K if self.cur["low"] else J

    def restricted(self):
        return self.cur["low"] or self.cur["full"]

    # ---- phrases
    def powerup(self):
        self.tags.add("powerup")
        self.emit(self.rng.range(1, 20), vbus=0, line=self.rng.choice([SE0, J, K]))
        self.emit(self.rng.range(3, 3 * self.c["c5us"]), vbus=1, line=self.idle_line())

    def noise(self, total):
        self.tags.add("noise")
        left = total
        while left > 0:
            n = min(left, self.rng.weighted([(5, 1), (3, 2), (3, self.rng.range(1, self.c["c2p5us"] + 3)),
                                             (1, self.rng.range(1, self.c["c5us"] + 3))]))
            self.emit(n, line=self.rng.choice([SE0, J, K, SE1, SE0, J, K]))
            left -= n

    def host_chirps(self, npairs, quality):
        """quality: 'good' (every state >= threshold+2), 'edge' (durations threshold-2..+3), 'glitchy'."""
        c = self.c
        for _ in range(npairs):
            for sym in (K, J):
                if quality == "good":
                    n = c["c2p5us"] + self.rng.range(2, 12)
                elif quality == "edge":
                    n = c["c2p5us"] + self.d(-2, 3)
                else:
                    n = self.rng.choice([1, 2, c["c2p5us"] - 1, c["c2p5us"], c["c2p5us"] + 1, c["c2p5us"] + 2,
                                         c["c2p5us"] + 5, 2 * c["c2p5us"]])
                self.emit(n, line=sym)
                if quality == "glitchy" and self.rng.chance(40):
                    self.emit(self.rng.range(1, 2), line=self.rng.choice([SE0, SE1, K, J]))
                    if self.rng.chance(50):
                        self.emit(self.rng.range(1, c["c2p5us"] + 3), line=sym)

    def reset(self, kind):
        """A bus reset seen from FS/LS idle.  kind selects what the host does after the device chirp."""
        c = self.c
        self.tags.add("reset:" + kind)
        # SE0 long enough (or not quite) for the 5us detection
        if kind == "short":
            self.emit(c["c5us"] + self.d(-3, 0), line=SE0)
            self.emit(self.rng.range(1, 5), line=self.idle_line())
            return
        pre = c["c5us"] + self.d(0, 4)
        self.emit(pre, line=SE0)
        if self.restricted():
            # no chirp expected: keep SE0 for a while (sometimes longer than the timer wrap), then idle
            if kind == "wrap":
                self.tags.add("se0-wrap")
                self.emit(c["M"] + self.d(-3, 6), line=SE0)
            else:
                self.emit(self.rng.range(1, 4 * c["c5us"]), line=SE0)
            self.emit(self.rng.range(2, 40), line=self.idle_line())
            return
        # device chirp phase (PREPARE_0/1 + DEVICE_CHIRP): the line shows K (or SE0 for a deaf PHY)
        if kind == "busy":
            self.tags.add("bus_busy")
            self.emit(2, busy=0)
            self.emit(self.rng.range(1, max(2, c["c2ms"] // 5)), busy=1)
            self.emit(self.rng.range(0, 3), busy=0)
            if self.rng.chance(50):
                self.emit(self.rng.range(1, 4), busy=1)
            self.emit(0, busy=0)
            kind = self.rng.choice(["good", "edge"])
            extra = 0
        chirp_line = self.rng.choice([K, K, SE0])
        # nominal: AWAIT_HOST_K begins c2ms + 3 cycles after the bus_reset strobe (if no bus_busy)
        already = self.t
        self.emit(c["c2ms"] + self.d(0, 6), line=chirp_line)
        if self.rng.chance(70):
            self.emit(self.rng.range(1, c["c5us"]), line=SE0)
        if kind in ("good", "edge", "glitchy"):
            self.host_chirps(self.rng.range(3, 5) if kind != "glitchy" else self.rng.range(3, 8), kind)
            self.emit(self.rng.range(2, 3 * c["c5us"]), line=SE0)
        elif kind == "few":
            self.host_chirps(self.rng.range(0, 2), "good")
            if self.rng.chance(50):
                self.emit(c["c2p5us"] + 5, line=K)
            self.emit(c["c2p5ms"] + self.d(-2, 8), line=self.rng.choice([SE0, J, K]))
            self.emit(self.rng.range(2, 30), line=self.idle_line())
        elif kind == "jjj":
            # one K, then J bursts separated by one-cycle gaps of exactly the counting boundary
            self.tags.add("jjj")
            self.emit(c["c2p5us"] + 3, line=K)
            for _ in range(self.rng.range(3, 5)):
                self.emit(c["c2p5us"] + self.rng.choice([1, 1, 1, 0, 2, 3]), line=J)
                self.emit(1, line=self.rng.choice([SE0, SE1]))
            self.emit(c["c2p5us"] + 4, line=J)
            self.emit(self.rng.range(5, 40), line=SE0)
        elif kind == "timeout":
            # nothing (or a single K/J sample) until the 2.5ms time-out
            self.tags.add("timeout-edge")
            gap = c["c2p5ms"] - (self.t - already - c["c2ms"]) + self.d(-3, 3)
            self.emit(max(1, gap), line=self.rng.choice([SE0, SE0, J]))
            self.emit(self.rng.range(1, 3), line=self.rng.choice([K, J]))
            self.emit(self.rng.range(4, 4 * c["c5us"]), line=SE0)
            self.emit(self.rng.range(2, 30), line=self.idle_line())
        else:  # "none": full-speed host
            self.emit(c["c2p5ms"] + self.d(0, 10), line=SE0)
            self.emit(self.rng.range(2, 30), line=self.idle_line())

    def hs_idle(self):
        self.tags.add("hs_idle")
        c = self.c
        for _ in range(self.rng.range(1, 3)):
            self.emit(self.rng.range(1, c["c3ms"] - 1), line=SE0)
            self.emit(self.rng.range(1, 6), line=self.rng.choice([J, K, SE1]))

    def hs_long_se0(self, outcome):
        """3 ms of SE0 at high speed, then the 200us discrimination window."""
        c = self.c
        self.tags.add("hs_window:" + outcome)
        self.emit(c["c3ms"] + 1 + self.d(0, 2), line=SE0)
        w = c["c200us"]
        if outcome == "restrict":
            a = self.rng.range(1, w - 2)
            self.emit(a, line=SE0)
            self.emit(w - a + 4, line=SE0, **{self.rng.choice(["low", "full"]): 1})
            self.emit(self.rng.range(3, 3 * c["c5us"]), line=SE0)
            self.emit(self.rng.range(5, 50), line=self.idle_line())
        elif outcome == "suspend":
            a = self.rng.range(0, w - 3)
            self.emit(a, line=self.rng.choice([SE0, SE0, K]))
            self.emit(w - a + 5, line=J)
        elif outcome == "edge":
            # the sampled cycle is the boundary between two values
            self.emit(w - 2 + self.d(-2, 2), line=self.rng.choice([SE0, J]))
            self.emit(self.rng.range(1, 4), line=self.rng.choice([SE0, J, K]))
            self.emit(6, line=self.rng.choice([SE0, J]))
        else:  # "reset": stays SE0 -> chirp again
            self.emit(w + 4, line=SE0)

    def fs_suspend(self):
        c = self.c
        self.tags.add("fs_suspend")
        self.emit(c["c3ms"] + self.d(-2, 4), line=self.idle_line())

    def leave_suspend(self, how):
        c = self.c
        self.tags.add("leave_suspend:" + how)
        if how == "resume":
            k_line = J if self.cur["low"] else K
            self.emit(self.rng.range(1, 30), line=k_line)
            self.emit(self.rng.range(2, 30), line=self.rng.choice([SE0, self.idle_line()]))
        elif how == "reset":
            self.emit(c["c2p5us"] + self.d(-2, 3), line=SE0)
        else:  # wrong K / glitch
            self.emit(self.rng.range(1, 4), line=self.rng.choice([SE1, SE0, K, J]))
            self.emit(self.rng.range(1, 10), line=self.idle_line())

    def vbus_loss(self):
        self.tags.add("vbus_loss")
        self.emit(self.rng.range(1, 2 * self.c["c5us"]), vbus=0)
        self.emit(self.rng.range(1, 20), vbus=1)

    def disconnect(self):
        c = self.c
        self.tags.add("disconnect")
        self.emit(self.rng.range(1, 3), disc=1, line=self.rng.choice([J, K, self.idle_line()]))
        self.emit(c["c2p5us"] + self.d(-3, 4), line=self.rng.choice([SE0, J, self.cur["line"]]))
        self.emit(self.rng.range(1, 6), disc=0)
        self.emit(self.rng.range(2, 20), line=self.idle_line())

    def restrict(self):
        self.tags.add("restrict")
        which = self.rng.choice(["low", "full", "both", "none", "none"])
        self.emit(self.rng.range(1, 8), low=int(which in ("low", "both")), full=int(which in ("full", "both")))


def make_script(c, rng, kind, budget):
    s = Script(c, rng)
    R = rng
    if kind == "low":
        s.cur["low"] = 1
    elif kind == "full":
        s.cur["full"] = 1
    s.powerup()
    if kind == "random":
        # unstructured line states / toggles (malformed stream)
        while s.t < budget:
            what = R.weighted([(6, "noise"), (2, "reset"), (1, "vbus"), (1, "disc"), (1, "restrict"), (1, "long")])
            if what == "noise":
                s.noise(R.range(5, 20 * c["c5us"]))
            elif what == "reset":
                s.reset(R.choice(["good", "edge", "glitchy", "few", "short", "jjj", "timeout", "busy"]))
            elif what == "vbus":
                s.vbus_loss()
            elif what == "disc":
                s.disconnect()
            elif what == "restrict":
                s.restrict()
            else:
                s.emit(R.range(c["c200us"], c["c3ms"] + c["c200us"] + 10), line=R.choice([SE0, J, K]))
        return s
    # structured: follow the protocol, tracking what mode the device should nominally be in
    mode = "fs"
    while s.t < budget:
        if mode == "fs":
            what = R.weighted([(6, "reset"), (2, "suspend"), (1, "vbus"), (1, "disc"), (2, "restrict"), (1, "noise"),
                               (1, "short")])
            if what == "reset":
                if s.restricted():
                    s.reset(R.choice(["none", "none", "wrap"]))
                else:
                    k = R.weighted([(4, "good"), (4, "edge"), (3, "glitchy"), (2, "few"), (2, "none"), (2, "jjj"),
                                    (3, "timeout"), (2, "busy")])
                    s.reset(k)
                    if k in ("good",):
                        mode = "hs"
                    elif k in ("edge", "glitchy", "busy", "jjj"):
                        mode = "unknown"
            elif what == "short":
                s.reset("short")
            elif what == "suspend":
                s.fs_suspend()
                s.leave_suspend(R.choice(["resume", "reset", "glitch", "resume"]))
                mode = "unknown"
            elif what == "vbus":
                s.vbus_loss()
            elif what == "disc":
                s.disconnect()
            elif what == "restrict":
                s.restrict()
            else:
                s.noise(R.range(3, 6 * c["c5us"]))
        elif mode == "hs":
            what = R.weighted([(3, "idle"), (3, "window"), (1, "vbus"), (1, "disc"), (2, "restrict")])
            if what == "idle":
                s.hs_idle()
            elif what == "window":
                o = R.choice(["restrict", "suspend", "edge", "reset", "suspend", "restrict"])
                s.hs_long_se0(o)
                if o == "suspend":
                    s.emit(R.range(1, 50), line=J)
                    s.leave_suspend(R.choice(["resume", "resume", "reset"]))
                    mode = "unknown"
                elif o == "reset":
                    # the device chirps again: continue like the tail of a reset
                    s.emit(c["c2ms"] + s.d(0, 6), line=R.choice([K, SE0]))
                    s.host_chirps(R.range(2, 4), R.choice(["good", "edge"]))
                    s.emit(R.range(2, 3 * c["c5us"]), line=SE0)
                    mode = "unknown"
                else:
                    mode = "unknown"
            elif what == "vbus":
                s.vbus_loss()
                mode = "unknown"
            elif what == "disc":
                s.disconnect()
                mode = "unknown"
            else:
                s.restrict()
                s.emit(R.range(2, 20), line=SE0)
                mode = "unknown"
        else:
            # resynchronise: un-restrict sometimes, go idle long enough to be back in LS/FS non-reset
            if R.chance(40):
                s.emit(1, low=0, full=0)
            s.emit(R.range(2, 2 * c["c5us"]), line=s.idle_line())
            if R.chance(25):
                s.emit(c["c2p5ms"] + 10, line=s.idle_line())
            mode = "fs"
    return s


def gen_cases(tier, rng):
    out = []
    if tier == "quick":
        n_real, n_scaled = 2, 100
    elif tier == "widen":
        n_real, n_scaled = 24, 600
    else:
        n_real, n_scaled = 300, 2000
    kinds = ["hs", "hs", "low", "full", "random", "hs"]
    for k in range(n_real):
        out.append({"consts": "real", "kind": kinds[k % len(kinds)], "budget": 130000 + rng.range(0, 200000),
                    "seed": rng.u64()})
    for k in range(n_scaled):
        out.append({"consts": rng.below(len(SCALED)), "kind": rng.choice(kinds), "budget": rng.range(3000, 14000),
                    "seed": rng.u64()})
    # the sequencer as wired into USBDevice (monitor-only cases, appended last so that the other seeds do not move)
    for k in range({"quick": 6, "widen": 12}.get(tier, 24)):
        out.append({"kind": "devwire", "consts": "real", "which": k % 6, "seed": rng.u64()})
    return out


# ------------------------------------------------------------------------------------- the wiring in USBDevice
DEVWIRE_IN = ["ulpi_dir", "ulpi_nxt", "ulpi_data_i", "full_speed_only", "low_speed_only"]
DEVWIRE_OUT = ["reset_detected", "speed", "op_mode"]


def devwire_monitor(stim, rows):
    """C19 on the device's own ports: a device that is restricted to full or low speed in the cycle in which it
    reports the bus reset does not start the high-speed handshake (speed stays FS/LS, no chirp operating mode)."""
    fails = []
    for t, (v, r) in enumerate(zip(stim, rows)):
        fso, lso = v[3], v[4]
        if r[0] and (fso or lso):
            for u in range(t + 1, min(len(rows), t + 25)):
                if rows[u][1] == 0 or rows[u][2] == 2:
                    fails.append({"cycle": u, "sig": "devwire-restricted-never-chirps", "what":
                                  "USBDevice reported the bus reset in cycle %d with full_speed_only=%d low_speed_only=%d "
                                  "asserted, and %d cycles later speed=%d op_mode=%d (high speed / chirp): a restricted "
                                  "device must not start the high-speed handshake"
                                  % (t, fso, lso, u - t, rows[u][1], rows[u][2])})
                    return fails
    return fails


def run_devwire(desc):
    """USBDevice on a ULPI bus (the high-speed capable configuration); the PHY reports J, then SE0 by RxCmds."""
    from amaranth.hdl.rec import Record
    from amaranth.sim import Simulator
    from luna.gateware.usb.usb2.device import USBDevice
    from luna.gateware.usb.usb2.reset import USBResetSequencer
    bus = Record([('data', [('i', 8), ('o', 8), ('oe', 1)]), ('nxt', [('i', 1)]), ('stp', [('o', 1)]), ('dir', [('i', 1)])])
    dut = USBDevice(bus=bus, handle_clocking=False)
    c5 = int(USBResetSequencer._CYCLES_5_MICROSECONDS)
    if desc.get("stimulus"):
        stim = [list(r) for r in desc["stimulus"]]
    else:
        rng = Rng(desc["seed"])
        col = 3 + desc["which"] % 2
        rxcmd = lambda v: [[1, 0, v, 0, 0], [1, 0, v, 0, 0], [0, 0, 0, 0, 0]]
        # one bus reset per offset: the restriction is raised T = 5 us + off cycles into the SE0 and held to the end
        # of that SE0; off walks upwards through the decision cycle, so every attempt up to the race cycle is a
        # restricted reset (the device stays at full speed and the next attempt follows) and the first attempt that
        # is too late starts the handshake (which ends the useful part of the run)
        stim = [[0, 0, 0, 0, 0]] * 5
        for off in range(-5, 7):
            stim += rxcmd(0b00001101) + [[0, 0, 0, 0, 0]] * rng.range(4, 12) + rxcmd(0b00001100)
            for k in range(c5 + 14):
                row = [0, 0, 0, 0, 0]
                if k >= c5 + off:
                    row[col] = 1
                stim.append(row)
        stim += [[0, 0, 0, 0, 0]] * 30
    ins = [bus.dir.i, bus.nxt.i, bus.data.i, dut.full_speed_only, dut.low_speed_only]
    outs = [dut.reset_detected, dut.speed, dut.utmi.op_mode]
    top = sim._Wrap(dut, ["usb"])
    s = Simulator(top)
    s.add_clock(1e-6, domain="usb")
    rows = []

    async def tb(ctx):
        ctx.set(dut.connect, 1)
        for v in stim:
            for sig, x in zip(ins, v):
                ctx.set(sig, x)
            rows.append([int(ctx.get(o)) for o in outs])
            await ctx.tick("usb")

    s.add_testbench(tb)
    s.run()
    fails = devwire_monitor(stim, rows)
    tags = {"devwire"}
    for v, r in zip(stim, rows):
        if r[0]:
            tags.add("devwire-reset-%s" % ("restricted" if (v[3] or v[4]) else "unrestricted"))
        if r[2] == 2:
            tags.add("devwire-chirp")
    return Case([0], stim, rows, fails, sorted(tags), desc, DEVWIRE_IN, DEVWIRE_OUT, lean=False)


# ------------------------------------------------------------------------------------------------ simulation
def simulate(dut, rows):
    """Cycle-exact simulation; returns the list of (cycle, packed outputs) change events and the total cycles."""
    from amaranth import Cat
    from amaranth.sim import Simulator
    top = sim._Wrap(dut, ["usb"])
    s = Simulator(top)
    s.add_clock(1e-6, domain="usb")
    packed = Cat(dut.bus_reset, dut.suspended, dut.current_speed, dut.operating_mode, dut.termination_select,
                 dut.tx.valid, dut.tx.data)
    ins = [dut.low_speed_only, dut.full_speed_only, dut.bus_busy, dut.vbus_connected, dut.line_state, dut.disconnect]
    per_row = []

    async def tb(ctx):
        prev = -1
        for row in rows:
            for sig, v in zip(ins, row[:6]):
                ctx.set(sig, v)
            n = row[6]
            ev = []
            off = 0
            async for _clk, _rst, v in ctx.tick("usb").sample(packed):
                if v != prev:
                    ev.append(off)
                    ev.append(int(v))
                    prev = v
                off += 1
                if off == n:
                    break
            per_row.append(ev)

    s.add_testbench(tb)
    s.run()
    return per_row


class Piecewise:
    """A signal that is constant on intervals: starts[i] .. starts[i+1]-1 has value vals[i]."""

    def __init__(self):
        self.starts = []
        self.vals = []

    def add(self, t, v):
        if self.vals and self.vals[-1] == v:
            return
        self.starts.append(t)
        self.vals.append(v)

    def idx(self, t):
        return bisect.bisect_right(self.starts, t) - 1

    def at(self, t):
        return self.vals[self.idx(t)]

    def run_before(self, t, pred):
        """number of consecutive cycles ending at t-1 (inclusive) whose value satisfies pred"""
        if t <= 0:
            return 0
        i = self.idx(t - 1)
        end = t
        while i >= 0 and pred(self.vals[i]):
            i -= 1
        start = self.starts[i + 1] if i + 1 < len(self.starts) else t
        return max(0, end - start)

    def intervals(self, pred, total):
        out = []
        for i, v in enumerate(self.vals):
            if pred(v):
                a = self.starts[i]
                b = self.starts[i + 1] if i + 1 < len(self.starts) else total
                if out and out[-1][1] == a:
                    out[-1][1] = b
                else:
                    out.append([a, b])
        return out


def hsop(v):
    return ((v >> 2) & 3) == HIGH and ((v >> 4) & 3) == NORMAL


def monitor(c, rows, per_row, real_consts):
    """The property, evaluated on the real trace.  c: the SPEC cycle counts for this configuration."""
    fails = []

    def fail(t, sig, what):
        if len(fails) < 5:
            fails.append({"cycle": int(t), "sig": sig, "what": what})

    total = sum(r[6] for r in rows)
    line, vbus, restr, low = Piecewise(), Piecewise(), Piecewise(), Piecewise()
    outp = Piecewise()
    t = 0
    for r, ev in zip(rows, per_row):
        line.add(t, r[4]); vbus.add(t, r[3]); restr.add(t, int(r[0] or r[1])); low.add(t, r[0])
        for k in range(0, len(ev), 2):
            outp.add(t + ev[k], ev[k + 1])
        t += r[6]
    if not outp.vals:
        return fails, set()
    tags = set()
    c2p5us, c5us, c200us, c2ms, c2p5ms, c3ms = (c[k] for k in KEYS)
    is_se0 = lambda v: v == SE0

    # sanity on the packed value: tx.data must be 0, chirp only in chirp mode
    for v in set(outp.vals):
        if v >> 8:
            fail(outp.starts[outp.vals.index(v)], "tx-data-nonzero", "tx.data != 0 (packed outputs %#x)" % v)
        if (v >> 7) & 1 and not (((v >> 4) & 3) == CHIRP and ((v >> 2) & 3) == HIGH and (v >> 6) & 1):
            fail(outp.starts[outp.vals.index(v)], "chirp-outside-chirp-mode",
                 "tx.valid while not (speed HIGH, op_mode CHIRP, term_select 1): outputs %#x" % v)

    # ---- high-speed discrimination windows: hsop falls at f after >= 3ms of SE0 (and no restriction)
    # "undisturbed high-speed idle": high-speed operation, SE0 on the line, VBUS present, no restriction
    hsq = Piecewise()
    for t0 in sorted(set(line.starts) | set(vbus.starts) | set(restr.starts) | set(outp.starts)):
        hsq.add(t0, int(hsop(outp.at(t0)) and line.at(t0) == SE0 and vbus.at(t0) and not restr.at(t0)))
    hs_iv = outp.intervals(hsop, total)
    windows = {}      # f -> end cycle (f + c200us) of the 200us window
    for a, f in hs_iv:
        if f >= total:
            continue
        if hsq.run_before(f - 1, lambda v: v == 1) >= c3ms and not restr.at(f - 1):
            windows[f] = f + c200us
    win_starts = sorted(windows)

    def window_of(t):
        i = bisect.bisect_right(win_starts, t) - 1
        if i >= 0 and t <= windows[win_starts[i]]:
            return win_starts[i]
        return None

    # ---- (A) bus_reset only if …
    for a, b in outp.intervals(lambda v: v & 1, total):
        t = a
        while t < b:
            i = vbus.idx(t)
            seg_end = vbus.starts[i + 1] if i + 1 < len(vbus.starts) else total
            if not vbus.vals[i]:
                tags.add("reset:vbus")
                t = seg_end            # VBUS absent: allowed
                continue
            v = outp.at(t)
            f = window_of(t)
            se0 = line.run_before(t, is_se0)
            if f is not None:
                if not (t == windows[f] and line.at(t) != J):
                    fail(t, "reset-in-hs-window", "bus_reset at cycle %d inside the 200us window that began at %d "
                         "(window ends %d, line there %d)" % (t, f, windows[f], line.at(windows[f])))
                tags.add("reset:hs")
            elif v & 2:
                tags.add("reset:suspended")
                if se0 < c2p5us:
                    fail(t, "reset-early-suspended", "bus_reset in suspend after only %d cycles of SE0 (< %d)" % (se0, c2p5us))
            elif ((v >> 2) & 3) != HIGH:
                tags.add("reset:fs")
                if se0 < c5us:
                    fail(t, "reset-early-fs", "bus_reset at full/low speed after only %d cycles of SE0 (< %d)" % (se0, c5us))
            else:
                fail(t, "reset-at-hs", "bus_reset with VBUS present while current_speed is HIGH (outputs %#x)" % v)
            t += 1
            if fails:
                break

    # ---- (B) suspend only after 3ms idle
    sus_from_hs = {}
    for a, b in outp.intervals(lambda v: (v >> 1) & 1, total):
        if a == 0:
            fail(0, "suspended-at-reset", "suspended in cycle 0")
            continue
        f = window_of(a - 1)
        if f is not None and a - 1 == windows[f] and line.at(a - 1) == J:
            sus_from_hs[a] = True
            tags.add("suspend:hs")
            continue
        sus_from_hs[a] = False
        sp = (outp.at(a - 1) >> 2) & 3
        idle = {HIGH: SE0, FULL: J, LOW: K}[sp]
        run = line.run_before(a - 1, lambda v: v == idle)
        tags.add("suspend:fs" if sp == FULL else "suspend:ls")
        if sp == HIGH or run < c3ms:
            fail(a, "suspend-early", "suspended entered at cycle %d after only %d idle cycles (< %d), speed %d"
                 % (a, run, c3ms, sp))
    sus_iv = outp.intervals(lambda v: (v >> 1) & 1, total)

    # ---- (C) high speed only after a handshake (or resume from a high-speed suspend)
    reset_iv = outp.intervals(lambda v: v & 1, total)
    chirp_iv = outp.intervals(lambda v: (v >> 7) & 1, total)
    for a, b in hs_iv:
        if a == 0:
            fail(0, "hs-at-reset", "high speed in cycle 0")
            continue
        # resume?  SUSPENDED was left two cycles before the outputs show high speed
        res = [iv for iv in sus_iv if iv[1] == a - 1]
        if res:
            if sus_from_hs.get(res[0][0]):
                tags.add("hs:resume")
                continue
            fail(a, "hs-resume-from-fs-suspend", "high speed entered at %d out of a suspend that was not entered at "
                 "high speed" % a)
            continue
        r = max([iv[1] - 1 for iv in reset_iv if iv[1] - 1 < a] or [-1])
        ch = [iv for iv in chirp_iv if iv[0] > r and iv[1] <= a]
        if r < 0 or not ch:
            fail(a, "hs-without-chirp", "high speed entered at %d without a device chirp since the last bus reset (%d)" % (a, r))
            continue
        cs, ce = ch[-1]
        if ce - cs < c2ms // 2:
            fail(a, "hs-chirp-short", "device chirp before high speed lasted only %d cycles (< 1 ms = %d)" % (ce - cs, c2ms // 2))
        # K-J pairs in the line history [ce, a-1)
        pairs, want = 0, K
        i0 = line.idx(ce)
        i = i0
        while i < len(line.vals) and line.starts[i] < a - 1:
            st = max(line.starts[i], ce)
            en = min(line.starts[i + 1] if i + 1 < len(line.starts) else total, a - 1)
            if line.vals[i] == want and en - st >= c2p5us:
                if want == J:
                    pairs += 1
                want = J if want == K else K
            i += 1
        tags.add("hs:handshake")
        if pairs < 3:
            fail(a, "hs-too-few-pairs", "high speed entered at %d after only %d host K-J pairs with every state >= %d "
                 "cycles since the device chirp ended at %d" % (a, pairs, c2p5us, ce))

    # ---- (D) the chirp handshake never starts while restricted, and only after a bus reset
    for a, b in outp.intervals(lambda v: ((v >> 4) & 3) == CHIRP, total):
        if a < 2:
            fail(a, "chirp-mode-at-reset", "chirp mode in cycle %d" % a)
            continue
        tags.add("chirp-start")
        if restr.at(a - 2):
            fail(a, "chirp-while-restricted", "chirp mode entered at %d although the device was restricted to "
                 "full/low speed when the handshake was started (cycle %d)" % (a, a - 2))
        if not outp.at(a - 2) & 1:
            fail(a, "chirp-without-reset", "chirp mode entered at %d without a bus_reset strobe at %d" % (a, a - 2))

    # ---- (E) leaves high speed within two cycles of a restriction
    for a, b in hs_iv:
        i = restr.idx(a)
        t = None
        while i < len(restr.vals) and restr.starts[i] < b:
            if restr.vals[i]:
                t = max(a, restr.starts[i])
                break
            i += 1
        if t is not None:
            tags.add("hs-left-on-restriction")
            if b > t + 2:
                fail(t, "hs-not-left", "restricted to full/low speed at %d while at high speed; still high speed at %d" % (t, t + 2))

    # ---- (F) falls back on time-out: chirp mode ends at most 2.5ms (+2 cycles) after the device chirp
    mode_iv = outp.intervals(lambda v: ((v >> 4) & 3) == CHIRP, total)
    for cs, ce in chirp_iv:
        if ce >= total:
            continue
        m = [iv for iv in mode_iv if iv[0] <= ce < iv[1]]
        if m and m[0][1] < total or (m and total > ce + c2p5ms + 2):
            if m[0][1] > ce + c2p5ms + 2:
                fail(ce + c2p5ms + 2, "no-fallback-on-timeout", "device chirp ended at %d; still in chirp mode at %d "
                     "(> 2.5ms = %d cycles later)" % (ce, ce + c2p5ms + 3, c2p5ms))
            nxt = outp.at(m[0][1]) if m[0][1] < total else None
            if nxt is not None:
                tags.add("handshake->" + ("hs" if hsop(nxt) else "fs"))

    # ---- (G) the class constants are the 60 MHz cycle counts of the specification
    if real_consts is not None:
        for k in KEYS:
            if real_consts[k] != SPEC[k]:
                fail(0, "constants", "%s = %d but the specification time at 60 MHz is %d cycles" % (ATTR[k], real_consts[k], SPEC[k]))
    return fails, tags


def run_case(desc):
    if desc.get("kind") == "devwire":
        return run_devwire(desc)
    from luna.gateware.usb.usb2.reset import USBResetSequencer
    dut = USBResetSequencer()
    real = {k: int(getattr(USBResetSequencer, ATTR[k])) for k in KEYS}
    if desc["consts"] == "real":
        c = dict(real)
        spec = dict(SPEC)
        is_luna = 1
    else:
        vals = SCALED[desc["consts"]]
        c = dict(zip(KEYS, vals))
        for k in KEYS:
            setattr(dut, ATTR[k], c[k])
        spec = dict(c)
        is_luna = 0
    c["M"] = 1 << max(1, (c["c3ms"]).bit_length())
    spec["M"] = c["M"]
    if desc.get("stimulus"):
        rows = [list(r) for r in desc["stimulus"]]
        gtags = set()
    else:
        sc = make_script(spec, Rng(desc["seed"]), desc["kind"], desc["budget"])
        rows, gtags = sc.rows, sc.tags
    per_row = simulate(dut, rows)
    fails, mtags = monitor(spec, rows, per_row, real if desc["consts"] == "real" else None)
    total = sum(r[6] for r in rows)
    outputs = [[is_luna, len(ev) // 2] + ev for ev in per_row]
    tags = sorted(gtags | mtags | {"consts=%s" % desc["consts"], "cycles~2^%d" % max(0, total.bit_length() - 1)})
    return Case([c[k] for k in KEYS] + [c["M"]], rows, outputs, fails, tags, desc,
                ["low_speed_only", "full_speed_only", "bus_busy", "vbus_connected", "line_state", "disconnect", "n"],
                ["cfg_is_luna", "n_changes", "off/out..."])
