"""C47 — isochronous timestamp packets are decoded in full
(luna/gateware/usb/usb3/protocol/timestamp.py: TimestampPacketReceiver).

The Lean model is the gateware after the repair of F21 (14-bit bus_interval_counter, 13-bit delta).
On a tree without the repair the monitor fails with sig `itp-field-truncated` (that is the defect)."""
from harness.common.framework import Case
from harness.common.rng import Rng
from harness.common import sim

PROP = "C47"
LEAN_MODULES = ["LunaVerif.Props.C47"]
DRIVER = "Driver/C47.lean"
REQUIRED_THEOREMS = ["itp_fields_full_width", "itp_word_surjective", "itp_after_any_history",
                     "fields_held_until_next_itp", "unrepaired_truncates"]
RULE = ("cases = header-queue histories: ITP headers with all-ones / all-zero / one-hot / walking / random "
        "counter and delta fields, headers of the other types and of types one bit away from ITP, ITP words "
        "presented without valid, random valid density; dw1/dw2 and the link-layer fields are random")
ASSUMPTIONS = ["header_sink carries one header per cycle in which valid is high (the receiver accepts in the same cycle)"]
PARTIAL = ""

ITP = 0b01100


def gen_cases(tier, rng):
    n = {"quick": 48, "widen": 200}.get(tier, 600)
    return [{"seed": rng.u64(), "k": k, "len": 300 if tier == "quick" else 600} for k in range(n)]


def itp_word(counter, delta):
    return ITP | (counter << 5) | (delta << 19)


def make_stimulus(rng, k, L):
    rows = []
    mode = k % 4
    specials = [(0x3FFF, 0x1FFF), (0, 0), (0x3FFF, 0), (0, 0x1FFF), (0x2AAA, 0x1555), (0x1555, 0x0AAA), (1, 1),
                (0x2000, 0x1000), (2, 2)]
    specials += [(1 << b, 0) for b in range(14)] + [(0, 1 << b) for b in range(13)]
    specials += [(0x3FFF ^ (1 << b), 0x1FFF) for b in range(14)] + [(0x3FFF, 0x1FFF ^ (1 << b)) for b in range(13)]
    while len(rows) < L:
        r = rng.below(100)
        if mode == 0 and r < 60:
            c, d = specials[(len(rows) + k) % len(specials)]
            valid, dw0 = 1, itp_word(c, d)
        elif r < 45:
            valid, dw0 = 1, itp_word(rng.bits(14), rng.bits(13))
        elif r < 60:       # other packet types, including one-bit neighbours of ITP
            ty = rng.choice([0b00100, 0b01000, 0b00000, ITP ^ 1, ITP ^ 2, ITP ^ 4, ITP ^ 8, ITP ^ 16, rng.below(32)])
            valid, dw0 = 1, (rng.bits(27) << 5) | ty
        elif r < 75:       # an ITP word that is not valid
            valid, dw0 = 0, itp_word(rng.bits(14), rng.bits(13))
        else:
            valid, dw0 = (1 if rng.chance([5, 50, 95, 30][mode]) else 0), rng.bits(32)
        rows.append([valid, dw0, rng.bits(32), rng.bits(32), rng.bits(32)])
    return rows[:L]


def run_case(desc):
    from luna.gateware.usb.usb3.protocol.timestamp import TimestampPacketReceiver
    dut = TimestampPacketReceiver()
    stim = desc.get("stimulus") or make_stimulus(Rng(desc["seed"]), desc.get("k", 0), desc.get("len", 300))
    stim = [list(r) + [0] * (5 - len(r)) for r in stim]
    hs = dut.header_sink
    ins = [hs.valid, hs.header.dw0, hs.header.dw1, hs.header.dw2]
    # the link-layer fields are driven through their individual signals
    ll = [hs.header.crc16, hs.header.sequence_number, hs.header.dw3_reserved, hs.header.hub_depth,
          hs.header.delayed, hs.header.deferred, hs.header.crc5]
    shifts = [0, 16, 19, 22, 25, 26, 27]
    full = [r[:4] + [(r[4] >> s) for s in shifts] for r in stim]
    outs = [hs.ready, dut.update_received, dut.bus_interval_counter, dut.delta]
    rows = sim.run_cycles(dut, ins + ll, outs, full, domain="ss")

    # ---- property monitor (on the real trace; independent of the Lean model)
    fails = []
    wc, wd = len(dut.bus_interval_counter), len(dut.delta)
    if (wc, wd) != (14, 13):
        fails.append({"cycle": 0, "sig": "itp-field-truncated", "what":
                      "bus_interval_counter is %d bit(s) wide and delta %d; the ITP fields are 14 and 13 bits" % (wc, wd)})
    exp_upd, exp_c, exp_d = 0, 0, 0
    n_itp = 0
    for t, (ready, upd, cnt, dlt) in enumerate(rows):
        valid, dw0 = stim[t][0] & 1, stim[t][1] & 0xFFFFFFFF
        is_itp = bool(valid and (dw0 & 0x1F) == ITP)
        if (upd, cnt, dlt) != (exp_upd, exp_c, exp_d) and not fails:
            sig = "itp-field-truncated" if upd == exp_upd else "itp-update-strobe"
            fails.append({"cycle": t, "sig": sig, "what":
                          "cycle %d: reported (update,counter,delta)=(%d,0x%x,0x%x) but the last timestamp packet "
                          "says (%d,0x%x,0x%x)" % (t, upd, cnt, dlt, exp_upd, exp_c, exp_d)})
        if ready != int(is_itp) and not fails:
            fails.append({"cycle": t, "sig": "itp-ready", "what":
                          "cycle %d: header_sink.ready=%d for valid=%d dw0=0x%08x" % (t, ready, valid, dw0)})
        if is_itp:
            exp_upd, exp_c, exp_d = 1, (dw0 >> 5) & 0x3FFF, dw0 >> 19
            n_itp += 1
        else:
            exp_upd = 0
    tags = ["mode%d" % (desc.get("k", 0) % 4), "itp>0" if n_itp else "itp=0"]
    if any(r[0] and (r[1] & 0x1F) == ITP and (r[1] >> 5) == 0x7FFFFFF for r in stim):
        tags.append("all-ones")
    lean_in = [[r[0] & 1, r[1] & 0xFFFFFFFF] for r in stim]
    return Case([14, 13], lean_in, rows, fails, tags, desc,
                ["valid", "dw0"], ["ready", "update_received", "bus_interval_counter", "delta"])
