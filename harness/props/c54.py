"""C54 — PHY reset controller (luna/gateware/architecture/car.py: PHYResetController)."""
import math
from fractions import Fraction

from harness.common.framework import Case
from harness.common.rng import Rng
from harness.common import sim

PROP = "C54"
LEAN_MODULES = ["LunaVerif.Props.C54"]
DRIVER = "Driver/C54.lean"
REQUIRED_THEOREMS = ["run_eq_timer", "reset_pulse_exact", "stop_exact_after_reset", "returns_to_idle",
                     "power_on_pulse", "idle_waits", "unrepaired_counter_never_finishes"]
RULE = ("cases = (clock_frequency, reset_length, stop_length, power_on_reset) x trigger pattern; the cycle counts "
        "are read back from the real object (and recomputed with the constructor's float formula and with exact "
        "rationals); grid over reset cycles 1..70 and stop cycles 1..260 incl. stop >> reset, stop crossing the "
        "power of two above reset, and the library defaults; trigger patterns: none, random densities, held high, "
        "pulses placed on the cycles around the end of the reset and of the stop window")
ASSUMPTIONS = ["reset_length_cycles >= 1 and stop_length_cycles >= 1 (positive durations)",
               "the cycle counts are the integers Python computed (float ceil); theorems quantify over all counts"]
PARTIAL = ""

FRACS = [0.5, 0.1, 0.9, 0.3, 0.7, 0.45, 0.55]
FREQS = [1e6, 12e6, 48e6, 60e6, 100e6, 7.3728e6]


def _lengths_for(f, cycles, frac=0.5):
    """A duration (seconds, float) whose cycle count at frequency f is robustly `cycles`:
    (cycles - 1 + frac) clock periods, 0 < frac < 1."""
    return (cycles - 1 + frac) / f


def gen_cases(tier, rng):
    out = []
    pairs = []
    small = [1, 2, 3, 4, 5, 7, 8, 9]
    for r in small:
        for s in small + [15, 16, 17, 33]:
            pairs.append((r, s))
    pairs += [(3, 9), (1, 64), (1, 65), (2, 129), (16, 17), (17, 16), (31, 33), (32, 33), (33, 32), (64, 65),
              (70, 260), (64, 1), (5, 255), (5, 256), (5, 257), (120, 120)]
    if tier == "quick":
        pairs = [p for i, p in enumerate(pairs) if i % 3 == rng.below(3) or p[1] > 2 * p[0]][:70] + [(3, 9), (120, 120)]
        per = 1
    elif tier == "widen":
        per = 2
    else:
        per = 4
        for _ in range(150):
            pairs.append((rng.range(1, 70), rng.range(1, 260)))
    k = 0
    for (r, s) in pairs:
        for _ in range(per):
            f = FREQS[k % len(FREQS)]
            # durations that end 0.1 … 0.9 of a period into their last cycle (a duration is covered only
            # if the pulse is rounded UP to whole cycles)
            fr, fs = FRACS[k % len(FRACS)], FRACS[(k // len(FRACS) + 2) % len(FRACS)]
            out.append({"f": f, "reset_length": _lengths_for(f, r, fr), "stop_length": _lengths_for(f, s, fs),
                        "power_on": int(k % 4 != 3), "seed": rng.u64(), "k": k})
            k += 1
    # "natural" parameters (exact decimal durations: exercises the float ceil), incl. the library defaults
    nat = [(60e6, 2e-6, 2e-6), (1e6, 3e-6, 9e-6), (1e6, 4e-6, 5e-6), (12e6, 1e-6, 10e-6), (60e6, 1e-6, 3e-6),
           (48e6, 0.5e-6, 2.5e-6), (100e6, 1e-7, 2e-6), (1e6, 1e-6, 2e-6), (1e6, 1e-6, 1e-6),
           (19.2e6, 2e-6, 2e-6), (48e6, 1.3e-6, 2.1e-6), (26e6, 1.55e-6, 1e-6), (12e6, 2e-8, 1.2e-7),
           (24e6, 1e-6, 3e-8)]
    for i, (f, rl, sl) in enumerate(nat):
        out.append({"f": f, "reset_length": rl, "stop_length": sl, "power_on": int(i % 3 != 2),
                    "seed": rng.u64(), "k": i})
    # a synchronous reset of the controller's clock domain in the middle of a pulse (appended last: the seeds of
    # the cases above do not move)
    for i, (r, s) in enumerate([(5, 3), (3, 9), (6, 6), (1, 4), (9, 2), (2, 33)][:6 if tier != "quick" else 4]):
        out.append({"f": 1e6, "reset_length": r * 1e-6, "stop_length": s * 1e-6, "power_on": int(i % 3 != 2),
                    "seed": rng.u64(), "k": i, "domreset": 1})
    return out


def make_domreset_stimulus(R, S, rng, power_on):
    """trigger column value 2 = synchronous reset of the clock domain (no trigger): resets land at every offset of
    a pulse (power-on pulse or triggered pulse), in shuffled order, each followed by enough idle time."""
    total = R + S
    trig = []
    for off in rng.shuffle(list(range(0, total + 3))):
        if not power_on or rng.chance(50):
            trig += [0] * (total + 2) + [1]          # let any running pulse end, then trigger a new one
        trig += [0] * off + [2]
    trig += [0] * (total + 5)
    return [[v] for v in trig]


def make_stimulus(R, S, rng, k):
    total = R + S
    L = min(4 * total + 40 + rng.range(0, 20), 2200)
    mode = k % 5
    trig = [0] * L
    if mode == 0:       # nothing, then a few isolated pulses
        for _ in range(3):
            trig[rng.below(L)] = 1
    elif mode == 1:     # random density
        p = rng.choice([1, 5, 30, 80])
        trig = [1 if rng.chance(p) else 0 for _ in range(L)]
    elif mode == 2:     # held high: re-triggers on the first idle cycle
        trig = [1] * L
    elif mode == 3:     # pulses around the window boundaries of a pulse started at t0
        t0 = rng.range(0, 5)
        trig[t0] = 1
        for off in (R - 1, R, R + 1, total - 1, total, total + 1, total + 2):
            if rng.chance(60) and 0 <= t0 + 1 + off < L:
                trig[t0 + 1 + off] = 1
    else:               # bursts
        t = 0
        while t < L:
            n = rng.range(1, total + 2)
            for i in range(t, min(L, t + n)):
                trig[i] = 1
            t += n + rng.range(0, 2 * total + 3)
    return [[v] for v in trig]


def expected_waveform(R, S, power_on, trig):
    """The property, written as a timeline: a pulse starts at power-on (cycle 0) or in the cycle after a
    trigger that is seen while idle; phy_reset is high for the first R cycles of the pulse, phy_stop for
    all R + S cycles; triggers during the pulse are ignored."""
    exp = []
    start = 0 if power_on else None
    for t, x in enumerate(trig):
        if start is None:
            exp.append((0, 0))
            if x == 1:
                start = t + 1
        else:
            k = t - start
            exp.append((1 if k < R else 0, 1))
            if k + 1 == R + S:
                start = None
        if x == 2:          # reset of the clock domain: the controller is in its power-on state from the next cycle
            start = t + 1 if power_on else None
    return exp


def run_case(desc):
    from luna.gateware.architecture.car import PHYResetController
    f, rl, sl, po = desc["f"], desc["reset_length"], desc["stop_length"], bool(desc["power_on"])
    dut = PHYResetController(clock_frequency=f, reset_length=rl, stop_length=sl, power_on_reset=po)
    R, S = int(dut.reset_length_cycles), int(dut.stop_length_cycles)
    fails = []
    # The integers the constructor computed are judged against the exact rational product duration x
    # frequency: the pulse must cover the configured duration (rounded UP to whole cycles) and not exceed
    # it by more than the one cycle that float noise on an exact multiple can add (2 us at 60 MHz is
    # 119.99999999999999 periods, 5 us at 100 MHz is 500.00000000000006).  A pulse shorter than the
    # configured duration, or no pulse at all, is a failing configuration.
    eps = Fraction(1, 10 ** 6)
    prods = (Fraction(rl) * Fraction(f), Fraction(sl) * Fraction(f))
    exact = (math.ceil(prods[0]), math.ceil(prods[1]))
    lo = tuple(max(1, math.ceil(p - eps)) for p in prods)
    hi = tuple(max(1, math.ceil(p + eps)) for p in prods)
    tags = ["float-ceil=exact" if exact == (R, S) else "float-ceil!=exact"]
    if not (lo[0] <= R <= hi[0] and lo[1] <= S <= hi[1]):
        fails.append({"cycle": 0, "sig": "cycle-count-off", "what":
                      "clock %g Hz, reset %g s, stop %g s: the controller uses %r cycles, but covering the configured "
                      "durations takes ceil(duration*f) = %r cycles" % (f, rl, sl, (R, S), exact)})
        return Case([max(R, 1), max(S, 1), int(po)], [[0]], [[None, None]], fails, tags + ["cycle-count-off"], desc,
                    ["trigger"], ["phy_reset", "phy_stop"], lean=False)
    if desc.get("stimulus"):
        stim = desc["stimulus"]
    elif desc.get("domreset"):
        stim = make_domreset_stimulus(R, S, Rng(desc["seed"]), po)
    else:
        stim = make_stimulus(R, S, Rng(desc["seed"]), desc.get("k", 0))
    from amaranth import Signal
    from amaranth.hdl import ResetInserter
    rst = Signal(name="sync_domain_reset")
    rows = sim.run_cycles(ResetInserter({"sync": rst})(dut), [dut.trigger, rst], [dut.phy_reset, dut.phy_stop],
                          [[int(r[0] == 1), int(r[0] == 2)] for r in stim])
    trig = [r[0] for r in stim]
    exp = expected_waveform(R, S, po, trig)
    for t, (got, want) in enumerate(zip(rows, exp)):
        if tuple(got) != want:
            if got[0] != want[0]:
                sig, what = "phy-reset-pulse", "phy_reset=%d, a %d-cycle reset pulse requires %d" % (got[0], R, want[0])
            else:
                sig, what = "phy-stop-window", ("phy_stop=%d, STP must be high exactly during the reset and the %d "
                                                "cycles after it (then idle): requires %d" % (got[1], S, want[1]))
            fails.append({"cycle": t, "sig": sig, "what": "reset=%d stop=%d cycles power_on=%d, cycle %d: %s"
                          % (R, S, po, t, what)})
            break
    seen = set(exp)
    tags += ["power_on=%d" % po, "stop>reset" if S > R else "stop<=reset",
             "stop-crosses-pow2" if S > (1 << max(R - 1, 0).bit_length()) else "stop-within-pow2",
             "R=1" if R == 1 else "R>1", "S=1" if S == 1 else "S>1"]
    if (0, 0) in seen and exp[-1] == (0, 0):
        tags.append("returned-to-idle")
    n_pulses = sum(1 for i in range(1, len(exp)) if exp[i][0] and not exp[i - 1][0])
    tags.append("pulses>=2" if n_pulses >= 2 else "pulses<2")
    if any(r[0] == 2 for r in stim):
        tags.append("domain-reset-mid-pulse")
    return Case([R, S, int(po)], stim, rows, fails, tags, desc, ["trigger"], ["phy_reset", "phy_stop"])
