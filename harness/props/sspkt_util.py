"""Helpers shared by the SuperSpeed link-layer packet properties C36 / C40 (builder: sspkt):
framing of header packets and data packet payloads as 32-bit (data, ctrl) words, written from the
USB 3.2 link-layer framing rules (§7.2.1) with the reference CRCs of harness/common/usbref.py
(validated against the three recorded packets of /repo/tests/test_usb3_data.py, see notes/C40.md)."""
from harness.common import usbref

SHP, SDP, EPF, END, EDB, SLC = 0xFB, 0x5C, 0xF7, 0xFD, 0x7C, 0xFE
K = 1


def pack_symbols(syms):
    """[(byte, is_k)] -> [(data32, ctrl4)], symbol 0 in bits 7:0; the tail is padded with D0.0 (logical idle)."""
    syms = list(syms)
    while len(syms) % 4:
        syms.append((0, 0))
    words = []
    for i in range(0, len(syms), 4):
        d = sum(syms[i + j][0] << (8 * j) for j in range(4))
        c = sum(syms[i + j][1] << j for j in range(4))
        words.append((d, c))
    return words


HPSTART = (SHP | SHP << 8 | SHP << 16 | EPF << 24, 0xF)
DPPSTART = (SDP | SDP << 8 | SDP << 16 | EPF << 24, 0xF)
DPPEND = (END | END << 8 | END << 16 | EPF << 24, 0xF)
DPPABORT = (EDB | EDB << 8 | EDB << 16 | EPF << 24, 0xF)


def link_control_word(seq=0, reserved=0, hub_depth=0, delayed=0, deferred=0):
    """bits 26:16 of DWORD 3 (as an 11-bit integer)."""
    return (seq & 7) | (reserved & 7) << 3 | (hub_depth & 7) << 6 | (delayed & 1) << 9 | (deferred & 1) << 10


def dw3_for(dw0, dw1, dw2, lcw, crc16_xor=0, crc5_xor=0):
    crc16 = usbref.usb3_crc16([dw0, dw1, dw2]) ^ crc16_xor
    crc5 = usbref.usb3_crc5(lcw) ^ crc5_xor
    return crc16 | (lcw << 16) | (crc5 << 27)


def header_words(dw0, dw1, dw2, lcw=0, crc16_xor=0, crc5_xor=0):
    """HPSTART + the four header DWORDs as (data, ctrl) words."""
    return [HPSTART, (dw0, 0), (dw1, 0), (dw2, 0), (dw3_for(dw0, dw1, dw2, lcw, crc16_xor, crc5_xor), 0)]


def data_header(length, addr=0, seq=0, ep=0, direction=0, eob=0, setup=0, route=0, stream_id=0, pp=0):
    dw0 = 0b01000 | (route & 0xFFFFF) << 5 | (addr & 0x7F) << 25
    dw1 = (seq & 0x1F) | (eob & 1) << 6 | (direction & 1) << 7 | (ep & 0xF) << 8 | (setup & 1) << 15 | (length & 0xFFFF) << 16
    dw2 = (stream_id & 0xFFFF) | (pp & 1) << 27
    return dw0, dw1, dw2


def dpp_words(payload, crc32_xor=0, end=True):
    """DPPSTART, payload, CRC-32 right after the last byte, END END END EPF, padded to a word."""
    crc = usbref.usb3_crc32(payload) ^ crc32_xor
    syms = [(b, 0) for b in payload] + [((crc >> (8 * i)) & 0xFF, 0) for i in range(4)]
    if end:
        syms += [(END, K), (END, K), (END, K), (EPF, K)]
    return [DPPSTART] + pack_symbols(syms)


def data_packet_words(payload, lcw=0, length=None, **hdr):
    dw0, dw1, dw2 = data_header(len(payload) if length is None else length, **hdr)
    return header_words(dw0, dw1, dw2, lcw) + dpp_words(payload)
