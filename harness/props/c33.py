"""C33 — transmit CTC: CTCSkipInserter and its wiring in USB3PhysicalLayer (physical/ctc.py, physical/layer.py,
link/layer.py)."""
from harness.common.framework import Case
from harness.common.rng import Rng
from harness.common import sim, usbref

PROP = "C33"
LEAN_MODULES = ["LunaVerif.Props.C33", "LunaVerif.Lemmas.C33Fairness", "LunaVerif.Lemmas.C33NoIdle"]
DRIVER = "Driver/C33.lean"
REQUIRED_THEOREMS = ["tx_stream_is_input_with_idle_replaced", "scrambler_hold_iff_skp_word",
                     "skp_debt_accounting", "debt_counter_overflow_boundary", "link_layer_idle_mux_guarantees_env",
                     "ctc_bounded_fairness", "ctc_bounded_fairness_bucket", "no_idle_debt_counter_wraps",
                     "no_idle_counter_is_mod_8", "idle_every_178_not_enough", "ctc_bounded_fairness_windows"]
RULE = ("cases = DUT (CTCSkipInserter co-simulated against the Lean model; tx half of USB3PhysicalLayer with a "
        "PIPEInterface, monitor only) x traffic mode x seed; traffic = link-layer grammar: bursts (link commands, "
        "header packets, data packets up to 1056 bytes, training sets with COM, random words incl. all-zero words "
        "inside a burst) interleaved with logical-idle stretches of any length; burst lengths around 88/89 words "
        "(354 bytes) and its multiples; saturated stretches beyond 8*354 bytes (debt counter wrap); plus, for the "
        "model correspondence only, stimuli outside the environment (can_send_skip on non-idle words, valid gaps, "
        "source.ready toggling)")
ASSUMPTIONS = ["can_send_skip = 1 only in cycles in which the word offered on the sink is logical idle "
               "(valid, data 0, ctrl 0): link/layer.py drives physical_layer.sink with IDL and can_send_skp = 1 in "
               "the same `If(arbiter.idle)` block and nowhere else (theorem link_layer_idle_mux_guarantees_env "
               "on a model of that mux; re-checked on the source text on every run)",
               "skp_debt_accounting (from any legal state): the 3-bit debt counter does not wrap during the stretch "
               "considered (hypothesis NoWrap: skips_to_send < 7 whenever it is incremented); the boundary is "
               "stated by debt_counter_overflow_boundary",
               "ctc_bounded_fairness (from reset, NoWrap derived): the link layer raises can_send_skip at least once "
               "in every W valid words offered, 1 <= W <= 177 (IdleEvery W; one SKP word = 708 bytes = 177 words is "
               "all a single opportunity can pay for); ctc_bounded_fairness_bucket: the weaker leaky-bucket form, "
               "a counter +1 per valid word offered without permission and -176 (floored at 0) per cycle with "
               "can_send_skip = 1 never exceeds K <= 530 (covers maximum-size packets followed by a few idle words)",
               "words carry 4 symbols"]
PARTIAL = ("'often enough' is proved as bounded fairness: with an idle opportunity in every W <= 177 valid words (or "
           "the leaky-bucket condition, K <= 530) the debt never wraps, stays <= (707+4W)/354 <= 3 sets and "
           "floor(n/354) - B <= SKP sets sent <= floor(n/354) for every stream from reset (conditions necessary: "
           "no_idle_debt_counter_wraps, idle_every_178_not_enough). Not covered: that the "
           "link layer's arbiter actually meets that condition (it offers no idle during training-set "
           "transmission, where the counter wraps as coded; link-layer traffic shaping is outside this property's "
           "modules). The scrambler itself is C31; here only hold = sending_skip is covered (by the "
           "physical-layer monitor with a reference LFSR).")

SKPW = (0x3C3C3C3C, 0xF)
LIMIT = 354
MODES_A = ["bursts", "mostly-idle", "boundary", "saturated", "outside-env", "gaps-and-ready"]
MODES_B = ["bursts", "mostly-idle", "boundary", "saturated", "training", "electrical-idle"]


def gen_cases(tier, rng):
    perA = {"quick": 8, "widen": 20, "thorough": 50}[tier]
    perB = {"quick": 3, "widen": 6, "thorough": 16}[tier]
    L = {"quick": 1600, "widen": 2400, "thorough": 6000}[tier]
    out = [{"dut": "source-check", "mode": "link-layer-idle-mux", "seed": 0}]
    for mode in MODES_A:
        for k in range(perA):
            out.append({"dut": "inserter", "mode": mode, "seed": rng.u64(), "len": L})
    for mode in MODES_B:
        for k in range(perB):
            out.append({"dut": "phy", "mode": mode, "seed": rng.u64(), "len": L})
    return out


# ------------------------------------------------------------------------------------------ traffic
def _kword(a, b, c, d):
    return (a | (b << 8) | (c << 16) | (d << 24), 0xF)


def _burst(rng, kind):
    """-> list of (data, ctrl) words of one link-layer transmission"""
    SHP, SLC, EPF, SDP, END, COM = 0xFB, 0xFE, 0xF7, 0x5C, 0xFD, 0xBC
    if kind == "lc":
        return [_kword(SLC, SLC, SLC, EPF), (rng.bits(32), 0)]
    if kind == "hp":
        return [_kword(SHP, SHP, SHP, EPF)] + [(rng.bits(32), 0) for _ in range(4)]
    if kind == "dp":
        n = rng.choice([0, 1, 2, 16, 64, 128, 256, 256, rng.range(0, 256)])
        return (_burst(rng, "hp") + [_kword(SDP, SDP, SDP, EPF)] + [(rng.bits(32), 0) for _ in range(n + 1)]
                + [_kword(END, END, END, EPF)])
    if kind == "ts":
        w = []
        for _ in range(rng.range(1, 12)):
            w += [_kword(COM, COM, COM, COM), (0x4A4A0000 | (rng.below(256) << 8), 0), (0x4A4A4A4A, 0),
                  (0x4A4A4A4A, 0)]
        return w
    if kind == "zeros":       # data words that LOOK like logical idle inside a burst
        return [(0, 0)] * rng.range(1, 6) + [(rng.bits(32), 0)]
    n = kind if isinstance(kind, int) else rng.range(1, 30)
    return [(rng.bits(32), rng.choice([0, 0, 0, 0xF, rng.below(16)])) for _ in range(n)]


def make_traffic(mode, rng, L):
    """-> per cycle (data, ctrl, idle) ; idle=1 marks the arbiter's idle branch (word 0/0, can_send_skp=1)"""
    rows = []
    while len(rows) < L:
        if mode == "mostly-idle":
            blen = [rng.choice(["lc", "hp", "lc", "zeros", rng.range(1, 8)])]
            idle = rng.choice([0, 1, 5, 40, 200, 400])
        elif mode == "boundary":
            # bursts whose length straddles the 354-byte limit (88.5 words) and its multiples
            k = rng.choice([1, 1, 2, 2, 3, 4])
            blen = [max(1, (LIMIT * k) // 4 + rng.range(-2, 2) - rng.choice([0, 0, len(rows) % 89]))]
            idle = rng.choice([0, 1, 1, 2, 3, 4, 9])
        elif mode == "saturated":
            blen = [rng.choice([620, 700, 708, 709, 720, 800, 1420]) if rng.chance(40) else rng.range(100, 400)]
            idle = rng.choice([1, 1, 2, 6, 30])
        elif mode == "training":
            blen = ["ts", rng.choice(["ts", "hp", "lc"])]
            idle = rng.choice([0, 1, 3, 100])
        else:
            blen = [rng.choice(["lc", "hp", "dp", "dp", "ts", "zeros", "rand"]) for _ in range(rng.range(1, 4))]
            idle = rng.choice([0, 0, 1, 1, 2, 3, 10, 50])
        for b in blen:
            rows.extend((d, c, 0) for d, c in _burst(rng, b))
        rows.extend([(0, 0, 1)] * idle)
    return rows[:L]


def stim_inserter(mode, rng, L):
    """rows: sink.valid sink.data sink.ctrl sink.first sink.last source.ready can_send_skip"""
    tmode = mode if mode in ("bursts", "mostly-idle", "boundary", "saturated") else "bursts"
    if mode == "outside-env" and rng.chance(50):
        tmode = "boundary"
    rows = []
    for (d, c, idle) in make_traffic(tmode, rng, L):
        valid, ready, can = 1, 1, idle
        first = last = 0
        if mode == "outside-env":
            can = 1 if rng.chance(30) else idle           # skips requested over packet data
            first, last = rng.below(2), rng.below(2)
        elif mode == "gaps-and-ready":
            valid = 1 if rng.chance(85) else 0
            ready = 1 if rng.chance(90) else 0
            first, last = rng.below(2), rng.below(2)
        rows.append([valid, d, c, first, last, ready, can])
    if mode in ("bursts", "boundary") and rng.chance(30):
        rows[0][5] = 0          # downstream not ready in the very first cycle only
    return rows


def stim_phy(mode, rng, L):
    """rows: sink.valid sink.data sink.ctrl can_send_skp enable_scrambling tx_electrical_idle"""
    tmode = mode if mode != "electrical-idle" else "bursts"
    scr = 0 if rng.chance(25) else 1
    rows = []
    lead = rng.range(1, 40) if mode == "electrical-idle" else 0
    for t, (d, c, idle) in enumerate(make_traffic(tmode, rng, L)):
        # sink.valid is ignored by the physical layer (scrambler.sink.valid is tied to 1): toggle it
        rows.append([rng.below(2), d, c, idle, scr, 1 if t < lead else 0])
    return rows


# ------------------------------------------------------------------------------------------ monitors
class Debt:
    """The rate requirement, computed independently of the gateware's counters: one SKP ordered set is owed per
    354 symbols accepted from the link layer (floor division on the running total, remainder kept); an inserted
    SKP word pays two sets; a word is inserted exactly when the link layer allows it and two sets are owed.  The
    gateware keeps the debt in 3 bits: owing an 8th set wraps it to 0 — the documented boundary, mirrored here
    and tagged.

    Bounded fairness (theorem ctc_bounded_fairness_bucket, restated on the trace): a leaky bucket on the link
    layer's stream alone (+1 per valid word offered without permission, -176 floored at 0 per cycle with
    can_send_skip) — as long as its level has never exceeded 530, the unpaid bytes are at most 711 + 4*level
    after every cycle and nothing is ever forgotten."""

    def __init__(self):
        self.bytes = 0
        self.paid = 0
        self.forgotten = 0
        self.wrapped = False
        self.bucket = 0
        self.bucket_max = 0

    def unpaid(self):
        return self.bytes - LIMIT * (self.paid + self.forgotten)

    def bound_broken(self):
        return self.bucket_max <= 530 and (self.wrapped or self.unpaid() > 711 + 4 * self.bucket)

    def owed(self):
        return self.bytes // LIMIT - self.paid - self.forgotten

    def cycle(self, xfer, can, valid=1):
        """-> True iff a SKP word must replace the word of this cycle"""
        ins = bool(can) and self.owed() >= 2
        self.bucket = max(self.bucket - 176, 0) if can else self.bucket + (1 if valid else 0)
        self.bucket_max = max(self.bucket_max, self.bucket)
        if xfer:
            self.bytes += 4
        if ins:
            self.paid += 2
        if self.owed() >= 8:
            self.forgotten += 8
            self.wrapped = True
        return ins


def monitor_inserter(stim, rows, in_env):
    fails = []
    debt = Debt()
    prev = None       # expected (valid, data, ctrl) of this cycle's registered output
    tags = set()
    for t, ((v, d, c, fi, la, rdy, can), (sv, sd, sc, sf, sl, srdy, snd)) in enumerate(zip(stim, rows)):
        if prev is not None and (sv, sd, sc) != prev:
            fails.append({"cycle": t, "sig": "tx-word", "what":
                          "source shows valid=%d %08x/%x; the link layer's word of the previous cycle (or the SKP "
                          "word replacing it) is valid=%d %08x/%x" % ((sv, sd, sc) + prev)})
            break
        if snd and not can:
            fails.append({"cycle": t, "sig": "skp-without-permission", "what":
                          "sending_skip=1 while can_send_skip=0"})
            break
        if in_env and snd and (v, d, c) != (1, 0, 0):
            fails.append({"cycle": t, "sig": "non-idle-word-replaced", "what":
                          "sending_skip=1 over the non-idle word %08x/%x" % (d, c)})
            break
        want = debt.cycle(v and srdy, can, valid=v)
        if debt.bound_broken():
            fails.append({"cycle": t, "sig": "fairness-bound", "what":
                          "%d bytes accepted and not paid for by SKP sets (%d owed sets%s) although the idle "
                          "opportunities kept the leaky bucket at level %d (never above %d): bound 711 + 4*level"
                          % (debt.unpaid(), debt.owed(), ", counter wrapped" if debt.wrapped else "", debt.bucket,
                             debt.bucket_max)})
            break
        if snd != int(want):
            fails.append({"cycle": t, "sig": "skp-schedule", "what":
                          "sending_skip=%d but %d SKP ordered sets are owed (%d symbols accepted, %d sets sent) "
                          "and can_send_skip=%d" % (snd, debt.owed() + (2 if want else 0), debt.bytes, debt.paid, can)})
            break
        prev = SKPW_V if snd else (v, d, c)
        tags.add("owed=%d" % min(debt.owed(), 8))
        if snd:
            tags.add("skp-inserted")
    if debt.wrapped:
        tags.add("debt-counter-wrapped")
    tags.add(_bucket_tag(debt))
    return fails, tags


def _bucket_tag(debt):
    return ("bucket<=176 (window form applies)" if debt.bucket_max <= 176 else
            "bucket<=530 (bucket form applies)" if debt.bucket_max <= 530 else "bucket>530 (no bound claimed)")


SKPW_V = (1,) + SKPW


def _keystream_word(state):
    ks, state2 = usbref.usb3_lfsr_bytes(4, state)
    return ks, state2


def monitor_phy(stim, rows):
    """tx half of USB3PhysicalLayer: PHY tx_data/tx_datak one cycle after the link layer's word = that word
    scrambled (D symbols XOR keystream when scrambling is enabled, K symbols untouched), or SKP SKP SKP SKP
    when a SKP word is due and allowed; the keystream does not advance over an inserted SKP word (it advances
    once per word accepted, i.e. sink.ready, and restarts after a word whose symbol 0 is COM)."""
    fails = []
    tags = set()
    debt = Debt()
    lfsr = 0xFFFF
    prev = None
    for t, ((v, d, c, can, scr, eidle), (txd, txk, srdy)) in enumerate(zip(stim, rows)):
        if prev is not None:
            want = (0, 0) if eidle else prev
            if (txd, txk) != want:
                fails.append({"cycle": t, "sig": "phy-tx-word", "what":
                              "PHY tx %08x/%x, expected %08x/%x (%s)" % (txd, txk, want[0], want[1], prev_why)})
                break
        ins = debt.cycle(srdy, can)          # sink.valid is tied to 1 inside the physical layer
        if debt.bound_broken():
            fails.append({"cycle": t, "sig": "fairness-bound", "what":
                          "%d bytes unpaid (%d owed sets) with the leaky bucket at level %d (never above %d)"
                          % (debt.unpaid(), debt.owed(), debt.bucket, debt.bucket_max)})
            break
        if ins and (d, c) != (0, 0):
            fails.append({"cycle": t, "sig": "non-idle-word-replaced", "what": "SKP over %08x/%x" % (d, c)})
            break
        ks, nxt = _keystream_word(lfsr)
        if ins:
            prev, prev_why = SKPW, "SKP word due: %d sets owed" % (debt.owed() + 2)
            tags.add("skp-inserted")
        else:
            out = 0
            for i in range(4):
                b = (d >> (8 * i)) & 0xFF
                if scr and not (c >> i) & 1:
                    b ^= ks[i]
                out |= b << (8 * i)
            prev, prev_why = (out, c), "scrambled link-layer word %08x/%x, keystream %s" % (d, c, ks)
        com0 = (d & 0xFF) == 0xBC and (c & 1)
        if com0:
            lfsr = 0xFFFF
            tags.add("lfsr-reset-by-COM")
        elif srdy and not ins:
            lfsr = nxt
        if scr:
            tags.add("scrambling")
    if debt.wrapped:
        tags.add("debt-counter-wrapped")
    tags.add(_bucket_tag(debt))
    return fails, tags


def check_link_layer_source():
    """The environment assumption, checked on the source text of link/layer.py on every run: can_send_skp is
    assigned in exactly one place, inside `with m.If(arbiter.idle):`, the same block that drives the physical
    layer's sink with IDL; the Else branch forwards the arbiter."""
    import os, re
    path = os.path.join(sim.REPO, "luna/gateware/usb/usb3/link/layer.py")
    src = open(path).read()
    problems = []
    if len(re.findall(r"can_send_skp", src)) != 1:
        problems.append("can_send_skp is referenced %d times in link/layer.py (expected exactly 1)"
                        % len(re.findall(r"can_send_skp", src)))
    m = re.search(r"with m\.If\(arbiter\.idle\):\s*\n(.*?)\n\s*with m\.Else\(\):\s*\n\s*"
                  r"m\.d\.comb \+= physical_layer\.sink\.stream_eq\(arbiter\.source\)", src, re.S)
    if not m:
        problems.append("the If(arbiter.idle) / Else mux in front of physical_layer.sink was not found")
    else:
        blk = re.sub(r"#.*", "", m.group(1))
        for need in (r"physical_layer\.sink\.valid\s*\.eq\(1\)", r"physical_layer\.sink\.data\s*\.eq\(IDL\.value\)",
                     r"physical_layer\.sink\.ctrl\s*\.eq\(IDL\.ctrl\)", r"physical_layer\.can_send_skp\s*\.eq\(1\)"):
            if not re.search(need, blk):
                problems.append("idle branch lacks " + need)
    from luna.gateware.usb.usb3.physical.coding import IDL
    if IDL.value != 0 or IDL.ctrl != 0:
        problems.append("IDL is not D0.0 (value %r ctrl %r)" % (IDL.value, IDL.ctrl))
    ppath = os.path.join(sim.REPO, "luna/gateware/usb/usb3/physical/layer.py")
    psrc = re.sub(r"#.*", "", open(ppath).read())
    for need in (r"tx_ctc\.can_send_skip\s*\.eq\(self\.can_send_skp\)", r"scrambler\.hold\s*\.eq\(tx_ctc\.sending_skip\)",
                 r"tx_ctc\.sink\s*\.stream_eq\(scrambler\.source\)"):
        if not re.search(need, psrc):
            problems.append("physical/layer.py lacks " + need)
    return problems


# ------------------------------------------------------------------------------------------ cases
def run_case(desc):
    rng = Rng(desc["seed"])
    mode = desc.get("mode", "replay")
    if desc["dut"] == "source-check":
        # the environment assumption at its origin: structure of link/layer.py and physical/layer.py
        fails = [{"cycle": 0, "sig": "link-layer-idle-mux", "what": p} for p in check_link_layer_source()]
        return Case([], [], [], fails, ["dut=source-check"], desc, [], [], lean=False)
    if desc["dut"] == "inserter":
        from luna.gateware.usb.usb3.physical.ctc import CTCSkipInserter
        dut = CTCSkipInserter()
        stim = desc.get("stimulus") or stim_inserter(mode, rng, desc.get("len", 1600))
        ins = [dut.sink.valid, dut.sink.data, dut.sink.ctrl, dut.sink.first, dut.sink.last, dut.source.ready,
               dut.can_send_skip]
        outs = [dut.source.valid, dut.source.data, dut.source.ctrl, dut.source.first, dut.source.last,
                dut.sink.ready, dut.sending_skip]
        rows = sim.run_cycles(dut, ins, outs, stim, domain="ss")
        in_env = all((not r[6]) or (r[0], r[1], r[2]) == (1, 0, 0) for r in stim)
        fails, tags = monitor_inserter(stim, rows, in_env)
        tags |= {"dut=inserter", "mode=" + mode, "env" if in_env else "outside-env"}
        return Case([], stim, rows, fails, sorted(tags), desc,
                    ["sink.valid", "sink.data", "sink.ctrl", "sink.first", "sink.last", "source.ready",
                     "can_send_skip"],
                    ["source.valid", "source.data", "source.ctrl", "source.first", "source.last", "sink.ready",
                     "sending_skip"])
    from luna.gateware.usb.usb3.physical.layer import USB3PhysicalLayer
    from luna.gateware.interface.pipe import PIPEInterface
    phy = PIPEInterface(width=4)
    dut = USB3PhysicalLayer(phy=phy, sync_frequency=50e6)
    stim = desc.get("stimulus") or stim_phy(mode, rng, desc.get("len", 1600))
    ins = [dut.sink.valid, dut.sink.data, dut.sink.ctrl, dut.can_send_skp, dut.enable_scrambling,
           dut.tx_electrical_idle]
    outs = [phy.tx_data, phy.tx_datak, dut.sink.ready]
    rows = sim.run_cycles(dut, ins, outs, stim, domain="ss", extra_clocks={"sync": 1e-6})
    fails, tags = monitor_phy(stim, rows)
    tags |= {"dut=phy", "mode=" + mode}
    return Case([], stim, rows, fails, sorted(tags), desc,
                ["sink.valid", "sink.data", "sink.ctrl", "can_send_skp", "enable_scrambling", "tx_electrical_idle"],
                ["phy.tx_data", "phy.tx_datak", "sink.ready"], lean=False)
