"""C23 — ULPI transmit translation (luna/gateware/interface/ulpi.py: ULPITransmitTranslator and the
data/stp mux of UTMITranslator)."""
from harness.common.framework import Case
from harness.common.rng import Rng
from harness.common import sim
from harness.props import ulpi_phy as U

PROP = "C23"
LEAN_MODULES = ["LunaVerif.Props.C23"]
DRIVER = "Driver/C23.lean"
REQUIRED_THEOREMS = ["tx_cmd_then_bytes_then_stp", "tx_ready_iff_phy_accepted", "never_drive_when_dir"]
RULE = ("two kinds of case: (utmi) the real UTMITranslator on a ULPI record, driven by a behavioural PHY (NXT "
        "acceptance delays, throttling, DIR-high episodes with RxCmds/receive packets between and during link "
        "activity; in three quarters of the cases 10-40 % of the transmit-command presentations are pre-empted by a "
        "receive that starts - mostly with DIR and NXT rising together - in one of the cycles in which the command is "
        "still waiting for NXT; in three quarters of the cases control-input blips at quiet moments: one control input "
        "changes and goes back to its previous value 1-6 cycles later, i.e. mostly while the register write it caused is "
        "still on the bus, and the UTMI transmitter starts a packet 0-8 cycles after that whatever the busy output says), "
        "a UTMI transmitter reacting to tx_ready, per-case op_mode and other control settings "
        "(register writes at start-up and at quiet moments); (tx) the real ULPITransmitTranslator alone under "
        "unconstrained random inputs and packet-shaped inputs; monitor (utmi) cycle by cycle: tx_valid & tx_ready <=> the "
        "PHY-side bus observer accepted a byte from the link in that cycle (NOPID command excepted), not judged after the "
        "PHY interrupted a transmission it had accepted")
ASSUMPTIONS = [
    "the PHY asserts NXT only in answer to a command/data byte it saw on the bus at the previous clock edge "
    "(tx_cmd_then_bytes_then_stp: first wait >= 1); tx_ready_iff_phy_accepted and never_drive_when_dir hold for "
    "every input",
    "the UTMI transmitter holds tx_valid and the byte until tx_ready and drops tx_valid in the cycle after the "
    "last byte was accepted",
    "tx_cmd_then_bytes_then_stp: DIR low and op_mode constant for the duration of the packet, bus granted "
    "(bus_idle) when the packet starts",
]
PARTIAL = ""

TX_IN = ["tx_data", "tx_valid", "op_mode", "bus_idle", "ulpi_nxt"]
TX_OUT = ["ulpi_data_out", "tx_ready", "ulpi_stp", "ulpi_out_req", "busy"]
EXTRA = ["phy_bus", "phy_r04", "phy_r0A", "phy_other", "phy_writes", "spec_act", "spec_last", "spec_legal",
         "spec_data"]


def gen_cases(tier, rng):
    n_utmi, n_tx = {"quick": (96, 48), "widen": (400, 200)}.get(tier, (400, 200))
    out = []
    for k in range(n_utmi):
        out.append({"kind": "utmi", "seed": rng.u64(), "k": k})
    for k in range(n_tx):
        out.append({"kind": "tx", "seed": rng.u64(), "k": k})
    return out


# ------------------------------------------------------------------------------------------------
def utmi_params(rng, k):
    p = {"ctrl_mode": rng.choice(["const", "quiet", "quiet"]), "tx_wait_idle": True, "ctrl_rate": 8,
         "tx_rate": rng.choice([20, 60, 200, 1000]), "max_len": rng.choice([4, 12, 40]),
         "nxt_delay": rng.choice([0, 1, 3, 9]), "throttle": rng.choice([0, 10, 50, 85]),
         "rx_rate": rng.choice([0, 5, 20, 60]), "abort_rate": rng.choice([0, 0, 0, 15]),
         "tx_gap_min": rng.choice([1, 1, 2, 6]), "pend_abort": rng.choice([0, 10, 25, 40]),
         "blip_rate": rng.choice([0, 15, 40, 40])}
    ctrl0 = dict(U.DEFAULT_CTRL) if k % 3 == 0 else U.random_ctrl(rng)
    if k % 2 == 0:
        ctrl0["op_mode"] = rng.choice([0, 2, 2, 1, 3])
    return p, ctrl0


def run_utmi(desc):
    # Replays of reactive (closed-loop) cases re-run the behavioural PHY from the recorded seed instead of
    # applying the recorded pin values open loop: the PHY's inputs depend on what the gateware does, so an
    # open-loop replay on a different tree would present an incoherent (illegal) PHY.
    if desc.get("stimulus") and not desc.get("corpus") and not desc.get("note"):   # hand-made corpus traces stay open loop
        desc = dict(desc)
        desc["cycles"] = max(1, len(desc.pop("stimulus")))
    rng = Rng(desc["seed"])
    has_rst = bool(desc.get("has_rst", desc.get("k", 0) % 10 == 9))
    n = desc.get("cycles", 600)
    dut, ins, outs = U.make_translator(has_rst)
    preload = None
    cfg = [0, int(has_rst), 0]
    if has_rst:
        pre = U.CYCLES_1_MS - rng.range(2, 30)
        preload = ("startup_counter", pre)
        cfg = [0, 1, pre]
    agent = None
    if not desc.get("stimulus"):
        p, ctrl0 = utmi_params(rng, desc.get("k", 0))
        if has_rst:
            p["start_quiet"] = U.CYCLES_1_MS - cfg[2] + 4     # stay silent until the start-up timer has expired
        agent = U.Agent(rng, p, ctrl0)
    rows_in, rows_out = U.run_reactive(dut, ins, outs, n, agent=agent, stimulus=desc.get("stimulus"),
                                       preload=preload)
    tags = set(agent.tags) if agent else set()
    tags.add("rst" if has_rst else "norst")
    fails, extra = monitor_utmi(rows_in, rows_out, tags)
    # compared columns: transmit-side pins (the receive-side outputs belong to C22), PHY observer
    keep = {"data_o", "oe", "stp", "tx_ready", "busy"}
    outs_cmp = []
    for t, (o, e) in enumerate(zip(rows_out, extra)):
        row = [v if U.UTMI_OUT[k] in keep else None for k, v in enumerate(o)]
        outs_cmp.append(row + e + [None] * 4)
    return Case(cfg, rows_in, outs_cmp, fails, sorted(tags), desc, U.UTMI_IN, U.UTMI_OUT + EXTRA)


def monitor_utmi(rows_in, rows_out, tags):
    """The property on the real trace: what the PHY received is the UTMI packet."""
    I, O = U.I, U.O
    fails = []
    obs = U.PhyBusObserver()
    extra = []
    # UTMI-side packets
    utmi = []
    cur = None
    stall = 0
    intr = False      # the PHY raised DIR in the middle of the running transmission (theorem hypothesis not met)
    for t, (ri, ro) in enumerate(zip(rows_in, rows_out)):
        dir_, nxt = ri[I["dir"]], ri[I["nxt"]]
        bus, stp = ro[O["data_o"]], ro[O["stp"]]
        if ro[O["oe"]] != 1 - dir_ and not fails:
            fails.append({"cycle": t, "sig": "oe-not-inverse-of-dir", "what":
                          "data.oe=%d while DIR=%d" % (ro[O["oe"]], dir_)})
        was_tx = obs.state == "tx"
        obs.step(t, dir_, nxt, bus, stp)
        extra.append([U.bus_code(obs.state), obs.regs[4], obs.regs[10], obs.other_writes, len(obs.writes)])
        if ro[O["tx_ready"]] and not nxt and not fails:
            fails.append({"cycle": t, "sig": "tx-ready-without-nxt", "what": "tx_ready high while NXT is low"})
        # "a UTMI byte is reported accepted exactly when the PHY accepted it", cycle by cycle.  The oracle for "the
        # PHY accepted a byte in this cycle" is the bus observer's own bookkeeping (NXT high, DIR low, a transmit
        # command on the pins while it was idle / any byte but the STP one while it was in a transmit).  Not judged
        # once the PHY has raised DIR in the middle of a transmission it had accepted (until tx_valid falls).
        if dir_ and was_tx:
            intr = True
        if not ri[I["tx_valid"]]:
            intr = False
        pc = obs.cur
        acc_cmd = pc is not None and pc["start"] == t and not pc["bytes"]
        acc_byte = pc is not None and bool(pc["bytes"]) and pc["bytes"][-1][0] == t
        if not intr and not fails:
            rdy = bool(ri[I["tx_valid"]] and ro[O["tx_ready"]])
            want = acc_byte or (acc_cmd and ri[I["op_mode"]] != 2)
            if rdy and not want:
                fails.append({"cycle": t, "sig": "tx-ready-but-phy-accepted-nothing", "what":
                              "UTMI byte 0x%02x reported accepted (tx_ready) in a cycle in which the PHY accepted "
                              "nothing from the link (DIR=%d NXT=%d, PHY %s before this cycle)"
                              % (ri[I["tx_data"]], dir_, nxt, "in a transmit" if was_tx else "not in a transmit")})
            elif want and not rdy:
                fails.append({"cycle": t, "sig": "phy-accepted-without-tx-ready", "what":
                              "the PHY accepted 0x%02x from the link but no UTMI byte was reported accepted "
                              "(tx_valid=%d tx_ready=%d)" % (bus, ri[I["tx_valid"]], ro[O["tx_ready"]])})
        # liveness watchdog: a transmission must reach the PHY (bounded NXT delays, short register writes)
        if ri[I["tx_valid"]] and not ro[O["tx_ready"]] and not dir_:
            stall += 1
            if stall > 200 and not fails:
                fails.append({"cycle": t, "sig": "tx-never-accepted", "what":
                              "tx_valid has waited %d DIR-low cycles without a tx_ready" % stall})
        elif not dir_:
            stall = 0
        if ri[I["tx_valid"]]:
            if cur is None:
                cur = {"start": t, "acc": [], "op": ri[I["op_mode"]], "dirty": False, "end": None}
            if ri[I["op_mode"]] != cur["op"]:
                cur["dirty"] = True
            if ro[O["tx_ready"]]:
                cur["acc"].append((t, ri[I["tx_data"]]))
        elif cur is not None:
            cur["end"] = t
            utmi.append(cur)
            cur = None
        if cur is not None and dir_ and cur["acc"]:
            cur["dirty"] = True
    phy = obs.packets
    if any(p["aborted"] for p in phy) or any(u["dirty"] for u in utmi):
        tags.add("tx-interrupted-by-dir-or-opmode")
        return fails, extra          # theorem hypotheses not met for some packet: pairing is not defined
    if len(phy) != len(utmi) and not fails:
        fails.append({"cycle": len(rows_in) - 1, "sig": "tx-packet-count", "what":
                      "UTMI side finished %d packets, the PHY received %d" % (len(utmi), len(phy))})
    for u, p in zip(utmi, phy):
        if fails:
            break
        nopid = u["op"] == 2
        tags.add("tx-nopid" if nopid else "tx-pid")
        acc = u["acc"]
        want_cmd = 0x40 if nopid else 0x40 | (acc[0][1] & 0xF)
        want_bytes = acc if nopid else acc[1:]
        if p["cmd"] != want_cmd:
            fails.append({"cycle": p["start"], "sig": "tx-command-byte", "what":
                          "PHY accepted transmit command 0x%02x, expected 0x%02x (op_mode %d)" % (p["cmd"], want_cmd, u["op"])})
        elif not nopid and p["start"] != acc[0][0]:
            fails.append({"cycle": p["start"], "sig": "tx-ready-vs-phy-accept", "what":
                          "PID byte reported accepted in cycle %d, PHY accepted the command in cycle %d" % (acc[0][0], p["start"])})
        elif p["bytes"] != want_bytes:
            fails.append({"cycle": p["start"], "sig": "tx-bytes-differ", "what":
                          "PHY received (cycle, byte) %s, UTMI side handed over %s" % (p["bytes"][:8], want_bytes[:8])})
        elif p["stp_cycle"] != u["end"] or (acc and p["stp_cycle"] != acc[-1][0] + 1):
            fails.append({"cycle": p["stp_cycle"], "sig": "tx-stp-cycle", "what":
                          "STP in cycle %s, tx_valid fell in cycle %s, last byte accepted in %s" % (p["stp_cycle"], u["end"], acc[-1][0] if acc else None)})
        elif p["stp_data"] != (0xFF if nopid else 0x00):
            fails.append({"cycle": p["stp_cycle"], "sig": "tx-stp-data", "what":
                          "data lines 0x%02x during STP with op_mode %d" % (p["stp_data"], u["op"])})
        else:
            # every byte held on the bus until the PHY takes it
            items = [(p["start"], want_cmd)] + list(want_bytes)
            t0 = None
            for (ta, b) in items:
                lo = (t0 + 1) if t0 is not None else ta
                for t in range(lo, ta + 1):
                    if rows_out[t][O["data_o"]] != b:
                        fails.append({"cycle": t, "sig": "tx-byte-not-held", "what":
                                      "bus shows 0x%02x while byte 0x%02x awaits NXT" % (rows_out[t][O["data_o"]], b)})
                        break
                t0 = ta
                if fails:
                    break
    return fails, extra


# ------------------------------------------------------------------------------------------------
def run_tx(desc):
    from luna.gateware.interface.ulpi import ULPITransmitTranslator
    rng = Rng(desc["seed"])
    dut = ULPITransmitTranslator()
    ins = [dut.tx_data, dut.tx_valid, dut.op_mode, dut.bus_idle, dut.ulpi_nxt]
    outs = [dut.ulpi_data_out, dut.tx_ready, dut.ulpi_stp, dut.ulpi_out_req, dut.busy]
    stim = desc.get("stimulus")
    if not stim:
        stim = []
        mode = desc.get("k", 0) % 3
        L = 400
        if mode == 0:     # unconstrained
            pv, pb, pn = rng.choice([20, 50, 90]), rng.choice([30, 80, 100]), rng.choice([10, 50, 90])
            op = rng.below(4)
            for _ in range(L):
                if rng.chance(3):
                    op = rng.below(4)
                stim.append([rng.below(256), int(rng.chance(pv)), op, int(rng.chance(pb)), int(rng.chance(pn))])
        else:             # packet shaped, open loop (tx_valid runs of random length)
            op = rng.choice([0, 2, 1, 3])
            while len(stim) < L:
                for _ in range(rng.range(1, 6)):
                    stim.append([rng.below(256), 0, op, int(rng.chance(80)), int(rng.chance(20))])
                b = rng.below(256)
                for _ in range(rng.range(1, 30)):
                    n = int(rng.chance(rng.choice([30, 70])))
                    stim.append([b, 1, op, int(rng.chance(90)), n])
                    if n:
                        b = rng.below(256)
                if mode == 2 and rng.chance(30):
                    op = rng.below(4)
    rows = sim.run_cycles(dut, ins, outs, stim, domain="usb")
    fails = []
    tags = set()
    state = "idle"
    for t, (i, o) in enumerate(zip(stim, rows)):
        d, v, op, bi, n = i
        do, rdy, stp, req, busy = o
        driving = (state == "transmit") or (state == "idle" and v and bi and op != 2)
        want_rdy = int(bool(n) and driving)
        if rdy != want_rdy:
            fails.append({"cycle": t, "sig": "tx-ready-not-nxt-while-presenting", "what":
                          "tx_ready=%d, NXT=%d, translator %s the UTMI byte" % (rdy, n, "presents" if driving else "does not present")})
            break
        if state == "idle":
            want = (0x40 if op == 2 else 0x40 | (d & 15)) if (v and bi) else 0
            want_stp = 0
            if v and bi and n:
                state = "transmit"
                tags.add("start-nopid" if op == 2 else "start-pid")
        else:
            want = d if v else (0xFF if op == 2 else 0)
            want_stp = int(not v)
            if not v:
                state = "idle"
                tags.add("stop-ff" if op == 2 else "stop-00")
        if do != want or stp != want_stp:
            fails.append({"cycle": t, "sig": "tx-translator-bus", "what":
                          "ulpi_data_out=0x%02x stp=%d, expected 0x%02x stp=%d" % (do, stp, want, want_stp)})
            break
    return Case([1], stim, rows, fails, sorted(tags), desc, TX_IN, TX_OUT)


def run_case(desc):
    if desc.get("kind") == "tx":
        return run_tx(desc)
    return run_utmi(desc)
