"""C35 — link commands: LinkCommandGenerator / LinkCommandDetector
(luna/gateware/usb/usb3/link/command.py, compute_usb_crc5 from link/crc.py).

Three sub-models (first config int): 0 generator alone, 1 detector alone, 2 generator feeding the
detector through a ready-gated channel (a word reaches the detector in the cycle it is transferred)."""
from harness.common.framework import Case
from harness.common.rng import Rng
from harness.common import sim, usbref

PROP = "C35"
LEAN_MODULES = ["LunaVerif.Props.C35"]
DRIVER = "Driver/C35.lean"
REQUIRED_THEOREMS = ["generated_word_format", "word_format", "detect_generate", "reject_corrupted",
                     "detector_reports_exactly"]
RULE = ("generator cases: every (command, subtype) of the 256 in each run, generate strobes while busy, ready "
        "patterns (always / sparse / long stalls); detector cases: LCSTART followed (after 0..n invalid words) by "
        "a good command word, or one with a single / double bit flip, non-zero ctrl, differing halves, wrong "
        "CRC5, or a random word; LCSTART after LCSTART; LCSTART data without valid or with wrong ctrl; chain "
        "cases: generator output fed to the detector under all ready patterns")
ASSUMPTIONS = ["compute_usb_crc5 is the USB3 CRC-5 of the reference (proved by C30; exercised here on every word)"]
PARTIAL = ""

LCSTART = 0xF7FEFEFE


def cmd_word16(cmd, sub, reserved=0):
    low = (sub & 0xF) | ((reserved & 7) << 4) | ((cmd & 0xF) << 7)
    return low | (usbref.usb3_crc5(low) << 11)


def gen_cases(tier, rng):
    n = {"quick": 16, "widen": 60}.get(tier, 160)
    out = []
    for k in range(n):
        for mode in (0, 1, 2):
            out.append({"mode": mode, "seed": rng.u64(), "k": k, "len": 700 if tier == "quick" else 1500})
    return out


# ----------------------------------------------------------------------------------------- stimuli
def gen_stimulus(rng, k, L):
    """rows: command subtype generate ready"""
    rows = []
    style = k % 4
    pairs = rng.shuffle(range(256))
    pi = 0
    stall = 0
    phase = 0          # mirrors the generator's progress only to steer the stimulus: 0 idle, 1 header, 2 command
    while len(rows) < L:
        if stall:
            stall -= 1
            ready = 0
        elif style == 0:
            ready = 1
        elif style == 1:
            ready = 1 if rng.chance(50) else 0
        elif style == 2:
            ready = 1 if rng.chance(15) else 0
            if rng.chance(2):
                stall = rng.range(5, 30)
        else:
            ready = 1 if rng.chance(85) else 0
        if phase == 0:
            g = 1 if rng.chance(60) else 0
            if g:
                c, s = divmod(pairs[pi % 256], 16)
                pi += 1
                phase = 1
            else:
                c, s = rng.below(16), rng.below(16)
        else:
            g = 1 if rng.chance(15) else 0       # strobe while busy: must be ignored
            c, s = rng.below(16), rng.below(16)
            if ready:
                phase = (phase + 1) % 3
        rows.append([c, s, g, ready])
    return rows[:L]


def det_stimulus(rng, k, L):
    """rows: valid data ctrl"""
    rows = []
    gap_p = [0, 30, 70, 10][k % 4]

    def gaps():
        while rng.chance(gap_p):
            rows.append([0, rng.choice([rng.bits(32), LCSTART, 0]), rng.choice([0, 0xF, rng.below(16)])])

    while len(rows) < L:
        r = rng.below(100)
        if r < 8:           # junk between commands
            rows.append([1, rng.bits(32), rng.choice([0, 0, rng.below(16)])])
            continue
        if r < 11:          # LCSTART look-alikes
            rows.append([rng.below(2), LCSTART ^ (1 << rng.below(32)), 0xF])
            continue
        if r < 14:
            rows.append([1, LCSTART, 0xF ^ (1 << rng.below(4))])
            continue
        if r < 17:
            rows.append([0, LCSTART, 0xF])
            continue
        gaps()
        rows.append([1, LCSTART, 0xF])
        gaps()
        cmd, sub = rng.below(16), rng.below(16)
        w = cmd_word16(cmd, sub, reserved=rng.choice([0, 0, 0, rng.below(8)]))
        data, ctrl = w | (w << 16), 0
        kind = rng.weighted([(40, "good"), (10, "flip1"), (10, "flip2"), (6, "flip-both-halves"), (8, "ctrl"),
                             (6, "halves"), (6, "crc"), (5, "random"), (4, "lcstart-again"), (5, "flip2-same")])
        if kind == "flip1":
            data ^= 1 << rng.below(32)
        elif kind == "flip2":
            a = rng.below(32)
            b = (a + rng.range(1, 31)) % 32
            data ^= (1 << a) | (1 << b)
        elif kind == "flip2-same":       # the same bit in both copies: only the CRC5 can catch it
            a = rng.below(16)
            data ^= (1 << a) | (1 << (a + 16))
        elif kind == "flip-both-halves":  # the same two bits in both copies
            a, b = rng.below(16), rng.below(16)
            m = (1 << a) | (1 << b) if a != b else (1 << a)
            data ^= m | (m << 16)
        elif kind == "ctrl":
            ctrl = rng.choice([1, 2, 4, 8, 0xF, rng.range(1, 15)])
        elif kind == "halves":
            w2 = cmd_word16(rng.below(16), rng.below(16))
            data = w | (w2 << 16)
        elif kind == "crc":
            data = (w ^ (rng.range(1, 31) << 11))
            data |= data << 16
        elif kind == "random":
            data = rng.bits(32)
        elif kind == "lcstart-again":
            data, ctrl = LCSTART, 0xF
        rows.append([1, data, ctrl])
    return rows[:L]


# ----------------------------------------------------------------------------------------- monitors
def word_ok(data, ctrl):
    """The property's acceptance condition, from the specification."""
    w, rep = data & 0xFFFF, data >> 16
    return ctrl == 0 and w == rep and (w >> 11) == usbref.usb3_crc5(w & 0x7FF)


def monitor_generator(stim, rows, fails, tags):
    state, cur = "idle", None
    for t, (valid, data, ctrl, done) in enumerate(rows):
        c, s, g, ready = stim[t]
        if state == "idle":
            if valid or done:
                fails.append({"cycle": t, "sig": "lcgen-idle-valid", "what": "cycle %d: valid=%d done=%d while idle" % (t, valid, done)})
                return
            if g:
                state, cur = "hdr", (c & 0xF, s & 0xF, t)
                tags.add("gen")
        elif state == "hdr":
            if g:
                tags.add("gen-while-busy")
            if (valid, data, ctrl, done) != (1, LCSTART, 0xF, 0):
                fails.append({"cycle": t, "sig": "lcgen-start-word", "what":
                              "cycle %d: expected SLC SLC SLC EPF for the command requested at %d, got valid=%d data=%08x ctrl=%x done=%d"
                              % (t, cur[2], valid, data, ctrl, done)})
                return
            if ready:
                state = "cmd"
            else:
                tags.add("hdr-stalled")
        else:
            cmd, sub, t0 = cur
            w = data & 0xFFFF
            ok = (valid == 1 and ctrl == 0 and (data >> 16) == w and (w & 0xF) == sub and ((w >> 4) & 7) == 0
                  and ((w >> 7) & 0xF) == cmd and (w >> 11) == usbref.usb3_crc5(w & 0x7FF))
            if not ok:
                fails.append({"cycle": t, "sig": "lcgen-command-word", "what":
                              "cycle %d: command %d subtype %d requested at %d: word data=%08x ctrl=%x valid=%d is not "
                              "two copies of subtype|0|command|crc5" % (t, cmd, sub, t0, data, ctrl, valid)})
                return
            if done != ready:
                fails.append({"cycle": t, "sig": "lcgen-done", "what": "cycle %d: done=%d ready=%d" % (t, done, ready)})
                return
            if ready:
                state = "idle"
            else:
                tags.add("cmd-stalled")


def monitor_detector(stim, rows, fails, tags, base=0):
    """stim rows: (valid, data, ctrl) seen by the detector; rows: detector outputs."""
    in_parse = False
    exp_new, exp_cmd, exp_sub = 0, 0, 0
    for t, r in enumerate(rows):
        cmd, cls, typ, sub, new = r[base:base + 5]
        valid, data, ctrl = stim[t]
        if new != exp_new:
            sig = "lcdet-missed" if exp_new else "lcdet-spurious"
            fails.append({"cycle": t, "sig": sig, "what":
                          "cycle %d: new_command=%d, but the words received say %d (previous word: valid=%d data=%08x ctrl=%x)"
                          % (t, new, exp_new, stim[t - 1][0], stim[t - 1][1], stim[t - 1][2])})
            return
        if (cmd, sub) != (exp_cmd, exp_sub) or cls != cmd >> 2 or typ != (cmd & 3):
            fails.append({"cycle": t, "sig": "lcdet-fields", "what":
                          "cycle %d: command=%d class=%d type=%d subtype=%d, expected command=%d subtype=%d"
                          % (t, cmd, cls, typ, sub, exp_cmd, exp_sub)})
            return
        exp_new = 0
        if not valid:
            if in_parse:
                tags.add("gap-before-command-word")
            continue
        if in_parse:
            in_parse = False
            if word_ok(data, ctrl):
                exp_new, exp_cmd, exp_sub = 1, (data >> 7) & 0xF, data & 0xF
                tags.add("accepted")
            else:
                w = data & 0xFFFF
                why = ("ctrl" if ctrl else "halves" if w != data >> 16 else "crc5")
                tags.add("rejected-" + why)
        elif data == LCSTART and ctrl == 0xF:
            in_parse = True


def run_case(desc):
    from amaranth import Elaboratable, Module, Signal
    from luna.gateware.usb.usb3.link.command import LinkCommandGenerator, LinkCommandDetector
    mode = desc["mode"]
    rng = Rng(desc["seed"])
    k, L = desc.get("k", 0), desc.get("len", 700)
    fails, tags = [], {"mode%d" % mode}
    if mode == 0:
        dut = LinkCommandGenerator()
        stim = desc.get("stimulus") or gen_stimulus(rng, k, L)
        ins = [dut.command, dut.subtype, dut.generate, dut.source.ready]
        outs = [dut.source.valid, dut.source.data, dut.source.ctrl, dut.done]
        rows = sim.run_cycles(dut, ins, outs, stim, domain="ss")
        monitor_generator(stim, rows, fails, tags)
        names = (["command", "subtype", "generate", "ready"], ["valid", "data", "ctrl", "done"])
    elif mode == 1:
        dut = LinkCommandDetector()
        stim = desc.get("stimulus") or det_stimulus(rng, k, L)
        ins = [dut.sink.valid, dut.sink.data, dut.sink.ctrl]
        outs = [dut.command, dut.command_class, dut.command_type, dut.subtype, dut.new_command]
        rows = sim.run_cycles(dut, ins, outs, stim, domain="ss")
        monitor_detector(stim, rows, fails, tags)
        names = (["valid", "data", "ctrl"], ["command", "class", "type", "subtype", "new_command"])
    else:
        class Chain(Elaboratable):
            def __init__(self):
                self.gen, self.det, self.ready = LinkCommandGenerator(), LinkCommandDetector(), Signal()

            def elaborate(self, platform):
                m = Module()
                m.submodules.gen, m.submodules.det = self.gen, self.det
                m.d.comb += [
                    self.gen.source.ready.eq(self.ready),
                    self.det.sink.valid.eq(self.gen.source.valid & self.ready),
                    self.det.sink.data.eq(self.gen.source.data),
                    self.det.sink.ctrl.eq(self.gen.source.ctrl),
                ]
                return m
        dut = Chain()
        g, d = dut.gen, dut.det
        stim = desc.get("stimulus") or gen_stimulus(rng, k, L)
        ins = [g.command, g.subtype, g.generate, dut.ready]
        outs = [g.source.valid, g.source.data, g.source.ctrl, g.done,
                d.command, d.command_class, d.command_type, d.subtype, d.new_command]
        rows = sim.run_cycles(dut, ins, outs, stim, domain="ss")
        monitor_generator(stim, [r[:4] for r in rows], fails, tags)
        # round trip: every accepted generate is reported exactly once with its command / subtype
        accepted, reported = [], []
        for t, r in enumerate(rows):
            if not r[0] and stim[t][2]:
                accepted.append((stim[t][0] & 0xF, stim[t][1] & 0xF))
            if r[8]:
                reported.append((r[4], r[7]))
                if len(reported) > len(accepted) or reported[-1] != accepted[len(reported) - 1]:
                    if not fails:
                        fails.append({"cycle": t, "sig": "lc-roundtrip", "what":
                                      "cycle %d: detector reports %s as report #%d, generator was asked for %s"
                                      % (t, reported[-1], len(reported), accepted[:len(reported)][-1:])})
                    break
        if not fails and len(accepted) - len(reported) > 1:
            fails.append({"cycle": len(rows) - 1, "sig": "lc-roundtrip", "what":
                          "%d commands generated but only %d reported" % (len(accepted), len(reported))})
        tags.add("roundtrip>=%d" % min(len(reported), 50))
        names = (["command", "subtype", "generate", "ready"],
                 ["valid", "data", "ctrl", "done", "command", "class", "type", "subtype", "new_command"])
    return Case([mode], stim, rows, fails, sorted(tags), desc, names[0], names[1])
