"""Shared machinery of C07 / C08 / C10 (control endpoint of a whole USBDevice at transaction level).

* `legal_host_script`  adaptive host generating a `LegalHost` schedule (abandoned transfers, SETUP in every
                       stage, bulk traffic on other endpoints between control stages, traffic for other devices,
                       lost handshakes, corrupted packets, bus resets)
* `wild_script`        a stream outside `LegalHost` (handshakes without data, data without token, SETUP to other
                       endpoints …) for the correspondence only
* `monitor`            the three properties stated on the REAL device's decoded responses, independent of the
                       Lean model (own host-side bookkeeping of the current control transfer)
* `run_dev_case`       builds the framework `Case` (rows = encoded events, outputs = legal flag, address,
                       configuration, encoded response)
"""
from harness.common.framework import Case
from harness.common.rng import Rng
from harness.common import devharness as DH
from harness.common import usbref as U

S, I, O, P = U.PID_SETUP, U.PID_IN, U.PID_OUT, U.PID_PING
D0, D1 = U.PID_DATA0, U.PID_DATA1
ACK, NAK, STALL = U.PID_ACK, U.PID_NAK, U.PID_STALL

HANDLED_STD = (0, 1, 5, 6, 8, 9)
DRIVER = "Driver/Dev.lean"
NAMES_IN = ["foreign_kind", "foreign_pid", "foreign_len", "event…"]
NAMES_OUT = ["legal", "address", "configuration", "resp_kind", "resp_pid", "resp_len"] + ["resp_byte%d" % i for i in range(64)]


# ----------------------------------------------------------------------------- configuration
def bits_for(n):
    return max(1, int(n).bit_length())


def cfg_ints(spec):
    maxlen = max(len(b) for _t, _i, b in spec["desc"])
    out = [int(spec.get("mps", 64)), bits_for(maxlen)]
    hs = spec.get("handlers", [])
    out.append(len(hs))
    for h in hs:
        out += [h[1], h[2]]
    out.append(len(spec["desc"]))
    for t, i, b in spec["desc"]:
        out += [t, i, len(b)] + list(b)
    return out


def make_spec(rng, shape=None, eps=None, handlers=None, profile=None):
    shape = shape or rng.weighted([(4, "std"), (3, "long"), (2, "sparse"), (1, "tiny"), (3, "random")])
    if eps is None:
        eps = rng.weighted([(3, []), (4, [["in", 1, 64], ["out", 2, 64]]), (2, [["in", 3, 16]]),
                            (1, [["in", 1, 32], ["out", 1, 32], ["sig", 4, 8]])])
    if handlers is None:
        handlers = rng.weighted([(5, []), (2, [["zlpreg", 2, 0x20]]), (1, [["zlpreg", 1, 0x22], ["zlpreg", 2, 0x22]])])
    spec = {"shape": shape, "desc": DH.descriptor_table(shape, rng), "eps": eps, "handlers": handlers}
    if profile in MPS_PROFILES:
        # control endpoint max_packet_size: 64 in 40 % of the cases, 8 / 16 / 32 in 20 % each (own fork: everything else of
        # the case is what it was when every case ran 64).  The device descriptor's bMaxPacketSize0 is kept consistent
        # (no host script parses it; the host knows the size from the spec, as a real host does after the first 8 bytes).
        spec["mps"] = rng.fork("mps").weighted([(2, 64), (1, 8), (1, 16), (1, 32)])
        if spec["mps"] != 64:
            spec["desc"] = [[t, i, (list(b[:7]) + [spec["mps"]] + list(b[8:])) if (t == 1 and i == 0 and len(b) == 18) else b]
                            for t, i, b in spec["desc"]]
    if profile == "c07":
        # C07 wants multi-packet control reads in most cases (other-endpoint traffic BETWEEN the data-stage INs):
        # give descriptor sets without a descriptor longer than two packets one more (a HID-report-like blob)
        r2 = rng.fork("c07-long")
        if max(len(b) for _t, _i, b in spec["desc"]) <= 128 and r2.chance(75):
            n = r2.choice([65, 100, 128, 129, 150, 192, 200, 228])
            spec["desc"] = spec["desc"] + [[0x22, 0, [n & 0xFF, 0x22] + [(i * 13 + n) & 0xFF for i in range(n - 2)]]]
    return spec


MPS_PROFILES = ("c07", "c08", "c10")


def claimed_by_extra(spec, su):
    t = (su[0] >> 5) & 3
    n = sum(1 for h in spec.get("handlers", []) if h[1] == t and h[2] == su[1])
    return n


# ----------------------------------------------------------------------------- setup packet generators
def rand_setup(rng, spec, profile, mps=64):
    """8 setup bytes.  profile 'c10' sweeps request codes / types; others favour the supported requests.
    `mps` = the control endpoint's max packet size (only the event-level Host passes it; with 64 the draws are what they
    always were): for other sizes wLength of GET_DESCRIPTOR also takes values around the multiples of `mps`."""
    descs = spec["desc"]

    def get_descriptor():
        if rng.chance(80):
            t, i, b = rng.choice(descs)
        else:
            t, i, b = rng.choice([1, 2, 3, 6, 7, 0x21, 0xFF]), rng.choice([0, 1, 2, 9, 0xFF]), [0] * 18
        if mps == 64:
            ln = rng.choice([len(b), len(b), 8, 9, 18, 64, 63, 65, 128, 255, 512, 1, 2, 0, len(b) + 1, max(0, len(b) - 1)])
        else:
            whole = (len(b) // mps) * mps
            ln = rng.choice([len(b), len(b), len(b), 8, 9, 18, 64, 255, 512, 1, 0, len(b) + 1, max(0, len(b) - 1),
                             mps, mps - 1, mps + 1, 2 * mps, 2 * mps + 1, 3 * mps - 1, whole, whole + mps, max(0, whole - 1)])
        return DH.setup_bytes(0x80, 6, (t << 8) | i, rng.choice([0, 0x0409]), ln)

    kinds = {
        "get_descriptor": get_descriptor,
        "set_address": lambda: DH.setup_bytes(0x00, 5, rng.choice([rng.below(128), rng.below(128), rng.below(65536)])),
        "set_configuration": lambda: DH.setup_bytes(0x00, 9, rng.choice([0, 1, 1, 2, rng.below(65536)])),
        "get_configuration": lambda: DH.setup_bytes(0x80, 8, 0, 0, rng.choice([1, 1, 2, 0])),
        "get_status": lambda: DH.setup_bytes(rng.choice([0x80, 0x81, 0x82]), 0, 0, rng.choice([0, 0x81]), rng.choice([2, 2, 1, 4])),
        "clear_halt": lambda: DH.setup_bytes(0x02, 1, 0, rng.choice([0x81, 0x02, 0x01]), 0),
        "clear_feature_other": lambda: DH.setup_bytes(rng.choice([0x00, 0x01, 0x02, 0x02, 0x03, 0x1F]), 1,
                                                      rng.choice([0, 1, 2, 0x100]), rng.below(256), rng.choice([0, 0, 0, 3])),
        "unsupported_std": lambda: DH.setup_bytes(rng.choice([0x00, 0x80, 0x01, 0x81, 0x02, 0x82]),
                                                  rng.choice([r for r in range(256) if r not in HANDLED_STD]),
                                                  rng.below(65536), rng.below(65536), rng.choice([0, 0, 1, 8, 64, 300])),
        "nonstandard": lambda: DH.setup_bytes(rng.choice([0x20, 0x40, 0x60, 0xA0, 0xC0, 0xE0, 0x21, 0xC1, 0x41]) | 0,
                                              rng.choice([0, 1, 5, 6, 8, 9, 0x20, 0x22, rng.below(256)]),
                                              rng.below(65536), rng.below(65536), rng.choice([0, 0, 1, 7, 64])),
        "odd_direction": lambda: DH.setup_bytes(rng.choice([0x00, 0x80]), rng.choice([0, 5, 6, 8, 9, 1]),
                                                rng.below(65536), 0, rng.choice([0, 1, 2, 18])),
        "random": lambda: rng.bytes(8),
    }
    if profile == "c10":
        w = [(2, "get_descriptor"), (1, "set_address"), (1, "set_configuration"), (1, "get_configuration"), (1, "get_status"),
             (2, "clear_halt"), (6, "clear_feature_other"), (10, "unsupported_std"), (8, "nonstandard"), (2, "odd_direction"),
             (3, "random")]
    elif profile == "c08":
        w = [(4, "get_descriptor"), (9, "set_address"), (7, "set_configuration"), (3, "get_configuration"), (1, "get_status"),
             (2, "clear_halt"), (1, "clear_feature_other"), (2, "unsupported_std"), (2, "nonstandard"), (1, "odd_direction"),
             (1, "random")]
    else:
        w = [(9, "get_descriptor"), (4, "set_address"), (3, "set_configuration"), (3, "get_configuration"), (3, "get_status"),
             (2, "clear_halt"), (1, "clear_feature_other"), (3, "unsupported_std"), (3, "nonstandard"), (2, "odd_direction"),
             (2, "random")]
    kind = rng.weighted(w)
    return kind, kinds[kind]()


# ----------------------------------------------------------------------------- the legal host
class Host:
    """Adaptive host.  Every `yield` hands one event to the device harness and receives its EventResult."""

    def __init__(self, rng, spec, profile, tags):
        self.rng, self.spec, self.profile, self.tags = rng, spec, profile, tags
        self.addr = 0                       # the address the host believes the device has
        self.mps = int(spec.get("mps", 64))  # control endpoint max packet size (the host knows bMaxPacketSize0)
        if self.mps != 64:
            tags.add("mps<64")
        self.in_eps = [e[1] for e in spec["eps"] if e[0] in ("in", "sig")]
        self.stream_in = [e for e in spec["eps"] if e[0] == "in"]
        self.out_eps = [e for e in spec["eps"] if e[0] == "out"]
        self.toggle = {}
        self.p_abandon = {"c07": 12, "c08": 10, "c10": 6}.get(profile, 10)
        self.p_foreign = {"c07": 35, "c08": 45, "c10": 20}.get(profile, 30)
        # between the IN transactions of a device-to-host data stage (C07: "tokens for other endpoints never disturb")
        # (the C07 emphasis applies to this class only: subclasses that override foreign() -- devx_util.FullHost,
        # c57.SerialHost -- keep their own mix and their random stream)
        self.c07_emphasis = profile == "c07" and type(self).foreign is Host.foreign
        self.p_foreign_data = 55 if self.c07_emphasis else self.p_foreign
        self.foreign_log = []
        self.no_eps = [e for e in range(1, 16) if e not in [x[1] for x in spec["eps"]]]

    def tag(self, t):
        self.tags.add(t)

    # -- traffic that does not belong to the control transfer (legal between transactions)
    def foreign(self, k=None):
        rng = self.rng
        k = k or rng.weighted([(6, "bulk_in"), (4, "bulk_out"), (3, "other_dev"), (2, "noep"), (2, "sof"), (2, "raw"), (1, "quiet"),
                          (1, "other_dev_setup"), (5, "ping_other"), (3, "bare_token")])
        self.tag("foreign:" + k)
        self.foreign_log.append(k)
        if k == "bulk_in" and self.in_eps:
            ep = rng.choice(self.in_eps)
            for e in self.stream_in:
                if e[1] == ep and rng.chance(70):
                    n = rng.choice([1, 3, e[2], e[2] - 1, 5])
                    yield ["produce", ep, rng.bytes(n), int(rng.chance(80))]
            r = yield ["tok", I, self.addr, ep]
            if r.resp.is_data:
                yield rng.weighted([(8, ["hs", ACK]), (1, ["raw", [0xD2 ^ 0x10]]), (1, ["quiet"])])
        elif k == "bulk_out" and self.out_eps:
            e = rng.choice(self.out_eps)
            yield ["tok", O, self.addr, e[1]]
            t = self.toggle.get(e[1], 0)
            r = yield ["data", D1 if t else D0, rng.bytes(rng.choice([0, 1, 8, e[2], 5])), int(rng.chance(92))]
            if r.resp.is_hs(ACK):
                self.toggle[e[1]] = t ^ 1
            if rng.chance(40):
                yield ["consume", e[1], rng.choice([1, 8, 64])]
        elif k == "other_dev":
            oa = rng.choice([a for a in (1, 5, 33, 77, 127, 0) if a != self.addr])
            if rng.chance(50):
                yield ["tok", I, oa, rng.choice([0, 0, 1, 2])]
                if rng.chance(70):                         # the other device answers; the host ACKs it
                    yield ["data", rng.choice([D0, D1]), rng.bytes(rng.choice([0, 2, 8, 8, 18])), 1]
                    if rng.chance(80):
                        yield ["hs", ACK]
            else:
                yield ["tok", O, oa, rng.choice([0, 0, 1, 2])]
                yield ["data", rng.choice([D0, D1]), rng.bytes(rng.choice([0, 8, 8, 3, 64])), 1]
        elif k == "other_dev_setup":
            oa = rng.choice([a for a in (1, 5, 33, 77, 127, 0) if a != self.addr])
            yield ["tok", S, oa, 0]
            yield ["data", D0, DH.setup_bytes(0, rng.choice([5, 9]), rng.below(128)), 1]
        elif k == "noep":
            ep = rng.choice([e for e in range(1, 16) if e not in [x[1] for x in self.spec["eps"]]])
            if rng.chance(50):
                yield ["tok", I, self.addr, ep]
            else:
                yield ["tok", O, self.addr, ep]
                yield ["data", rng.choice([D0, D1]), rng.bytes(rng.choice([0, 8, 8, 4])), 1]
        elif k == "sof":
            yield ["sof", rng.below(2048)]
        elif k == "raw":
            yield ["raw", self.raw_packet()]
        elif k == "ping_other":
            # the host's flow-control probe for ANOTHER endpoint of this device (an OUT stream endpoint answers ACK/NAK,
            # IN endpoints and missing endpoints stay silent), optionally followed by the OUT transaction it announces
            cands = [e[1] for e in self.spec["eps"]] + [e[1] for e in self.out_eps] * 2 + [rng.choice(self.no_eps)]
            ep = rng.choice(cands)
            r = yield ["tok", P, self.addr, ep]
            oe = [e for e in self.out_eps if e[1] == ep]
            if oe and r.resp.is_hs(ACK) and rng.chance(50):
                self.tag("foreign:ping-then-out")
                yield ["tok", O, self.addr, ep]
                t = self.toggle.get(ep, 0)
                r = yield ["data", D1 if t else D0, rng.bytes(rng.choice([0, 1, 8, oe[0][2]])), int(rng.chance(92))]
                if r.resp.is_hs(ACK):
                    self.toggle[ep] = t ^ 1
        elif k == "bare_token":
            # a token for another endpoint whose transaction the host does not continue (no data packet / no handshake)
            ep = rng.choice([e[1] for e in self.spec["eps"]] + [rng.choice(self.no_eps)])
            yield ["tok", rng.choice([I, O, P]), self.addr, ep]
        else:
            yield ["quiet"]

    def raw_packet(self):
        """Bytes that every packet-layer detector must ignore: invalid PID check, reserved PIDs, tokens with a bad
        CRC5 or a wrong length, handshakes with trailing bytes.  (Never starts with a valid DATA PID: those are
        `data` events.)"""
        rng = self.rng
        k = rng.below(6)
        if k == 0:
            b = rng.below(256)
            while U.pid_ok(b):
                b = rng.below(256)
            return [b] + rng.bytes(rng.below(4))
        if k == 1:
            return [U.pid_byte(rng.choice([U.PID_PRE, U.PID_SPLIT, 0x0]))] + rng.bytes(rng.choice([0, 2, 3]))
        if k == 2:
            t = U.token_packet(rng.choice([I, O, S]), self.addr, 0)
            t[2] ^= 1 << rng.range(3, 7)           # CRC5 bit flipped
            return t
        if k == 3:
            return U.token_packet(rng.choice([I, O, S]), self.addr, 0)[:2]
        if k == 4:
            return U.token_packet(rng.choice([I, O, S]), self.addr, 0) + [rng.below(256)]
        return [U.pid_byte(rng.choice([ACK, NAK, STALL]))] + rng.bytes(rng.range(1, 2))

    def maybe_foreign(self, p=None, prefer=None):
        while self.rng.chance(self.p_foreign if p is None else p):
            if prefer and self.c07_emphasis and self.rng.chance(35):
                yield from self.foreign(prefer)
            else:
                yield from self.foreign()          # subclasses override foreign() without the argument

    def bus_reset(self):
        self.tag("reset")
        yield ["reset"]
        self.addr = 0
        self.toggle = {}

    # -- one control transfer
    def control_transfer(self):
        rng = self.rng
        kind, su = rand_setup(rng, self.spec, self.profile, self.mps)
        self.tag("req:" + kind)
        is_in, length = bool(su[0] & 0x80), su[6] | (su[7] << 8)
        std = ((su[0] >> 5) & 3) == 0
        acked = False
        for _attempt in range(3):
            yield ["tok", S, self.addr, 0]
            mode = rng.weighted([(84, "good"), (6, "badcrc"), (3, "lost"), (3, "short"), (2, "long"), (2, "retok")])
            if mode != "good":
                self.tag("setup:" + mode)
            if mode == "good":
                r = yield ["data", D0, su, 1]
                if r.resp.is_hs(ACK):
                    acked = True
                    break
            elif mode == "badcrc":
                yield ["data", D0, su, 0]
                yield from self.maybe_foreign()
            elif mode == "lost":
                yield ["quiet"]
                yield from self.maybe_foreign()
            elif mode == "short":
                yield ["data", D0, su[:rng.range(0, 7)], 1]
            elif mode == "long":
                yield ["data", D0, su + rng.bytes(rng.range(1, 3)), 1]
            # "retok": immediately send the SETUP token again
        if not acked:
            self.tag("setup:never-acked")
            return
        if rng.chance(self.p_abandon):
            self.tag("abandon:after-setup")
            return
        mark = len(self.foreign_log)
        yield from self.maybe_foreign()
        stalled = False
        # ---- data stage
        if length and is_in:
            total = 0
            for _k in range(rng.choice([1, 2, 3, 6, 40])):
                if _k:
                    for fk in set(self.foreign_log[mark:]):
                        self.tag("data-in:between-ins:" + fk)
                else:
                    for fk in set(self.foreign_log[mark:]):
                        self.tag("data-in:before-first-in:" + fk)
                mark = len(self.foreign_log)
                r = yield ["tok", I, self.addr, 0]
                if r.resp.is_data:
                    h = rng.weighted([(80, "ack"), (8, "corrupt"), (8, "none"), (4, "nak")])
                    if h == "ack":
                        yield ["hs", ACK]
                        total += len(r.resp.payload)
                        if std and su[1] == 6:
                            sfx = ":mps<64" if self.mps != 64 else ""
                            self.tag("data-in:acked-packets:%s%s" % (_k + 1 if _k < 3 else "4+", sfx))
                            if not r.resp.payload:
                                self.tag("data-in:zlp-acked" + sfx)
                        if len(r.resp.payload) < self.mps or total >= length:
                            break
                    elif h == "corrupt":
                        self.tag("hs:corrupt")
                        yield ["raw", [0xD2 ^ (1 << rng.below(8))]]
                    elif h == "nak":
                        yield ["hs", NAK]
                    else:
                        self.tag("hs:lost")
                        yield ["quiet"]
                elif r.resp.is_hs(STALL):
                    stalled = True
                    break
                elif r.resp.is_none:
                    self.tag("data-in:no-answer")
                    if rng.chance(50):
                        break
                if rng.chance(self.p_abandon // 2):
                    self.tag("abandon:in-data")
                    return
                yield from self.maybe_foreign(self.p_foreign_data, "ping_other" if self.c07_emphasis else None)
        elif length:
            for _k in range(rng.choice([1, 1, 2])):
                if rng.chance(6):
                    self.tag("ping")
                    yield ["tok", P, self.addr, 0]
                    if self.c07_emphasis:
                        yield from self.maybe_foreign()
                yield ["tok", O, self.addr, 0]
                yield ["data", rng.choice([D0, D1]), rng.bytes(min(length, rng.choice([1, 8, 8, 64]))), int(rng.chance(90))]
                if rng.chance(self.p_abandon // 2):
                    self.tag("abandon:out-data")
                    return
                yield from self.maybe_foreign()
        if stalled and rng.chance(70):
            return
        if rng.chance(self.p_abandon // 2):
            self.tag("abandon:before-status")
            return
        # ---- status stage
        if length and is_in:
            for _k in range(rng.choice([1, 1, 2])):
                yield ["tok", O, self.addr, 0]
                r = yield ["data", D1, rng.choice([[], [], [], rng.bytes(2)]), int(rng.chance(90))]
                if not r.resp.is_none:
                    break
                yield from self.maybe_foreign()
        else:
            for _k in range(rng.choice([1, 2, 2, 3])):
                r = yield ["tok", I, self.addr, 0]
                if r.resp.is_data:
                    h = rng.weighted([(75, "ack"), (10, "corrupt"), (10, "none"), (5, "nak")])
                    if h == "ack":
                        r2 = yield ["hs", ACK]
                        if std and su[1] == 5:
                            # (also with a non-zero wLength: the device commits the address on the ACK of
                            # the status ZLP whatever the data stage was)
                            self.tag("set_address:done")
                            self.addr = su[2] & 0x7F
                        if std and su[1] == 9 and not length:
                            self.tag("set_configuration:done")
                        break
                    elif h == "corrupt":
                        self.tag("status:ack-corrupt")
                        yield ["raw", [0xD2 ^ (1 << rng.below(8))]]
                    elif h == "nak":
                        yield ["hs", NAK]
                    else:
                        self.tag("status:ack-lost")
                        yield ["quiet"]
                    if std and su[1] == 5 and rng.chance(50):
                        # probe both addresses: the device must still be at the old one
                        yield ["tok", I, su[2] & 0x7F, rng.choice([0, 1])]
                elif r.resp.is_hs(STALL):
                    break
                yield from self.maybe_foreign()

    def script(self, n_transfers):
        rng = self.rng
        for _ in range(n_transfers):
            yield from self.maybe_foreign()
            if rng.chance(3):
                yield from self.bus_reset()
            yield from self.control_transfer()


def legal_host_script(rng, spec, profile, n_transfers, tags):
    def script(_h):
        return Host(rng, spec, profile, tags).script(n_transfers)
    return script


# ----------------------------------------------------------------------------- a stream outside LegalHost
def wild_script(rng, spec, n_events, tags):
    """Random events with little regard for transaction formats (correspondence only; no monitor, no legality).
    Uses only what the model defines: the wedge of a narrow position register after an ACKed short descriptor packet is
    avoided by choosing specs whose position register is 11 bits wide (see make_wild_spec), and IN tokens to ep0 with
    `start_position` beyond wLength are not sent (see in_order_guard)."""
    host = Host(rng, spec, "c07", tags)

    def script(_h):
        return in_order_guard(events(_h), _h, int(spec.get("mps", 64)), tags)

    def events(_h):
        addr = 0
        for _ in range(n_events):
            k = rng.weighted([(30, "tok"), (22, "data"), (14, "hs"), (6, "setup"), (4, "raw"), (3, "quiet"), (2, "sof"),
                              (1, "reset"), (3, "transfer")])
            if k == "tok":
                a = rng.weighted([(8, addr), (1, rng.below(128))])
                ep = rng.weighted([(7, 0), (3, rng.choice([1, 2, 3, 9]))])
                yield ["tok", rng.weighted([(5, I), (4, O), (2, S), (1, P)]), a, ep]
            elif k == "data":
                ln = rng.choice([0, 0, 8, 8, 8, 1, 7, 9, 10, 11, 64])
                payload = rand_setup(rng, spec, "c07")[1] if ln == 8 else rng.bytes(ln)
                yield ["data", rng.choice([D0, D1, D0, D1, U.PID_DATA2, U.PID_MDATA]), payload, int(rng.chance(88))]
            elif k == "hs":
                yield ["hs", rng.weighted([(8, ACK), (1, NAK), (1, STALL), (1, U.PID_NYET)])]
            elif k == "setup":
                yield ["tok", S, addr, rng.weighted([(8, 0), (1, 3)])]
                r = yield ["data", rng.choice([D0, D0, D1]), rand_setup(rng, spec, rng.choice(["c07", "c08", "c10"]))[1], 1]
            elif k == "raw":
                yield ["raw", host.raw_packet()]
            elif k == "quiet":
                yield ["quiet"]
            elif k == "sof":
                yield ["sof", rng.below(2048)]
            elif k == "reset":
                yield ["reset"]
                addr = 0
            else:
                host.addr = addr
                yield from host.control_transfer()
                addr = host.addr
            if _h.log:
                addr = rng.weighted([(9, _h.log[-1].address), (1, addr)])
    return script


def in_order_guard(gen, h, mps, tags):
    """Keeps a wild event stream inside the domain of the event-level `descriptorPacket` (Model/Device/Control.lean).

    The model computes `wLength - start_position` modulo 2^17; in the gateware (`GetDescriptorHandlerBlock`, Amaranth:
    unsigned - unsigned is signed) it is negative once the host's ACKs have advanced `start_position` beyond wLength, the
    16-bit `length` register then holds a huge value and the handler sends the REST of the descriptor in one packet
    (e.g. 1036 bytes of an 1100-byte descriptor after GET_DESCRIPTOR with wLength 2, IN, ACK, IN at max packet size 64;
    C09's cycle-level model Model/Usb2/DescriptorBlock.lean has the signed form).  The two differ when
    `start_position > wLength` and more than `mps` bytes of the descriptor are left.  A legal host never gets there
    (`legal_read_in_order_mps`); the wild host must not either: from the host's own view of the bus -- the last SETUP
    packet the device ACKed is a standard GET_DESCRIPTOR, and (number of host ACKs that could have reached the handler
    after a DATA answer to an IN on endpoint 0) x mps > wLength, an over-approximation of `start_position > wLength` --
    an IN token for endpoint 0 of the device is not sent: the inner generator is told that nothing was answered."""
    cur = None                 # wLength of the last ACKed SETUP packet if it is a standard GET_DESCRIPTOR
    adv = 0                    # upper bound of the number of start_position advances since then
    pending = False            # an IN on ep0 was answered with DATA and no counted ACK has followed
    tok = (0, 0)               # (pid, ep) of the last token for the device's address; pid 0 after a token for another address
    try:
        ev = gen.send(None)
        while True:
            dev_addr = h.log[-1].address if h.log else 0
            if (ev[0] == "tok" and ev[1] == I and ev[2] == dev_addr and ev[3] == 0 and cur is not None and adv * mps > cur):
                tags.add("wild:in-beyond-wLength-suppressed")
                res = DH.EventResult(list(ev), DH.Response(DH.RESP_NONE), dev_addr, h.log[-1].configuration if h.log else 0,
                                     None, 0, h.cycle, [])
                ev = gen.send(res)
                continue
            res = yield ev
            if ev[0] == "tok":
                if ev[2] == dev_addr:
                    tok = (ev[1], ev[3])
                    if ev[1] == I and ev[3] == 0 and res.resp.is_data:
                        pending = True
                else:
                    tok = (0, tok[1])
            elif ev[0] == "data":
                if tok[0] == S and len(ev[2]) == 8 and res.resp.is_hs(ACK):
                    su = ev[2]
                    cur = (su[6] | (su[7] << 8)) if ((su[0] >> 5) & 3) == 0 and su[1] == 6 else None
                    adv = 0                 # (`pending` is kept: expecting_ack survives a new SETUP in the model and the gateware)
            elif ev[0] == "hs":
                if ev[1] == ACK and tok == (I, 0) and pending:
                    adv += 1
                    pending = False
            ev = gen.send(res)
    except StopIteration:
        return


def make_wild_spec(rng):
    spec = make_spec(rng, shape=rng.choice(["std", "sparse", "long"]), eps=[], handlers=rng.choice([[], [["zlpreg", 2, 0x20]]]))
    big = [0xFF, 0x30] + [(i * 11 + 5) & 0xFF for i in range(1098)]          # 1100 bytes: position register = 11 bits
    spec["desc"] = spec["desc"] + [[0x30, 0, big]]
    spec["mps"] = rng.fork("mps").weighted([(2, 64), (1, 8), (1, 16), (1, 32)])     # control max packet size (own fork)
    return spec


# ----------------------------------------------------------------------------- the monitors
class Transfer:
    def __init__(self, su, spec):
        self.su = list(su)
        self.is_in = bool(su[0] & 0x80)
        self.type = (su[0] >> 5) & 3
        self.recipient = su[0] & 0x1F
        self.request = su[1]
        self.value = su[2] | (su[3] << 8)
        self.length = su[6] | (su[7] << 8)
        self.in_data = self.is_in and self.length != 0
        self.status_started = False       # the host has begun the status stage
        self.first_in_seen = False
        self.stalled = False
        self.status_zlp_pending = False   # previous event: status IN token answered with a ZLP
        self.committed = False
        self.answered_status = False
        self.status_acked = False         # the host ACKed the status ZLP: the transfer is over from its point of view
        self.status_ins = 0               # status-stage IN tokens so far
        self.status_stalled = False       # a status-stage IN was answered with STALL
        if self.type == 0:
            self.unsupported = (self.request not in HANDLED_STD) or \
                (self.request == 1 and (self.recipient != 2 or self.value != 0))
        else:
            self.unsupported = claimed_by_extra(spec, su) == 0
        self.clean = True                 # no SETUP token / reset since the SETUP was ACKed
        # requests whose handler answers the status-stage IN itself (ZLP, or STALL) and keeps doing so until the host
        # ACKs: SET_ADDRESS, SET_CONFIGURATION, CLEAR_FEATURE(ENDPOINT_HALT) of the standard handler and the requests
        # claimed by exactly one extra (register-write) handler.  Only these are judged on a REPEATED status IN.
        if self.type == 0:
            self.status_in_held = self.request in (5, 9, 1) and not self.unsupported
        else:
            self.status_in_held = claimed_by_extra(spec, su) == 1
        # ---- host-side view of a device-to-host data stage (C07: every data-stage IN is answered and the stage is
        #      neither advanced, restarted nor ended by traffic for other endpoints / other devices)
        self.tracked = (self.type == 0 and self.request in (0, 6, 8) and not self.unsupported and self.in_data
                        and claimed_by_extra(spec, su) == 0)
        self.descriptor = None            # GET_DESCRIPTOR: the bytes the host expects (None: no such descriptor -> STALL)
        if self.tracked and self.request == 6:
            for dt, di, b in spec["desc"]:
                if dt == (self.value >> 8) and di == (self.value & 0xFF):
                    self.descriptor = list(b)
                    break
        self.acked = 0                    # data-stage packets the host has ACKed
        self.data_seen = False            # a data-stage IN was answered with DATA
        self.data_done = False            # the host ACKed a short packet / all wLength bytes: the data stage is over
        self.pending_k = None             # index of the data-stage IN whose DATA answer the host may ACK next
        self.pending_len = 0
        self.between = []                 # events since the previous data-stage transaction (for the report)


def monitor(log, spec):
    """Returns {"C07": [...], "C08": [...], "C10": [...]} failure lists for the real device's event log."""
    fails = {"C07": [], "C08": [], "C10": []}

    def fail(prop, k, sig, what):
        if len(fails[prop]) < 5:
            fails[prop].append({"cycle": k, "sig": sig, "what": "event %d %r -> %r: %s" % (k, log[k].event, log[k].resp, what)})

    def between(t):
        if not t.between:
            return ""
        return "; since the previous control transaction the bus carried " + ", ".join(t.between[-6:])

    def short(ev, resp):
        if ev[0] == "tok":
            return "%s(addr %d, ep %d)->%r" % ({S: "SETUP", I: "IN", O: "OUT", P: "PING"}.get(ev[1], ev[1]), ev[2], ev[3], resp)
        if ev[0] == "data":
            return "DATA[%d]->%r" % (len(ev[2]), resp)
        if ev[0] == "hs":
            return "HS(%d)" % ev[1]
        return ev[0]

    known_eps = {e[1] for e in spec["eps"]}
    mps = int(spec.get("mps", 64))  # control endpoint max packet size: the host's data-stage bookkeeping counts in packets of it
    addr, cfgv = 0, 0              # registers after the previous event
    cur = None                     # the control transfer in progress (its SETUP was ACKed)
    tok = None                     # last token addressed to the device: (pid, ep)
    setup_tok = False              # a SETUP token for ep0 of this device is waiting for its data packet
    prev_ev = None
    for k, r in enumerate(log):
        ev, resp = r.event, r.resp
        kind = ev[0]
        zlp_pending = cur.status_zlp_pending if cur else False
        if cur:
            cur.status_zlp_pending = False
        if resp.kind == DH.RESP_GARBAGE:
            fail("C07", k, "c07-malformed-transmission", "the device transmitted something that is not one well-formed packet")
        if cur is not None and zlp_pending and kind == "hs" and ev[1] == ACK and tok == (I, 0):
            cur.status_acked = True
        if cur is not None:
            # the host's ACK of a data-stage packet is the event directly after the IN token that was answered with DATA
            if cur.pending_k is not None:
                if cur.pending_k == k - 1 and kind == "hs" and ev[1] == ACK and tok == (I, 0):
                    cur.acked += 1
                    if cur.pending_len < mps or mps * cur.acked >= cur.length or cur.request != 6:
                        cur.data_done = True
                cur.pending_k = None
            elif not (kind == "tok" and ev[2] == addr and ev[3] == 0):
                cur.between.append(short(ev, resp))
        # ---------------- bookkeeping + C07 / C10 on the control endpoint's answers
        if kind == "tok":
            pid, a, ep = ev[1], ev[2], ev[3]
            if a == addr:
                tok = (pid, ep)
                setup_tok = (pid == S)
                if pid == S:
                    cur = None                                  # a new SETUP always ends the previous transfer
                if ep != 0 and ep not in known_eps and not resp.is_none:
                    fail("C07", k, "c07-answer-for-other-endpoint", "a token for an endpoint that does not exist was answered")
                if ep == 0 and pid == I:
                    if cur is None:
                        if resp.is_data or resp.is_hs(ACK):
                            fail("C07", k, "c07-in-answered-without-transfer",
                                 "IN on ep0 answered although no control transfer is in progress")
                    else:
                        t = cur
                        if t.in_data and not t.status_started:
                            # data stage IN
                            first = not t.first_in_seen
                            t.first_in_seen = True
                            if t.unsupported:
                                if resp.is_data or resp.is_hs(ACK):
                                    fail("C10", k, "c10-unsupported-answered", "unsupported request %r answered in its data stage" % (t.su,))
                                if resp.is_hs(STALL):
                                    t.stalled = True
                            elif first and t.type == 0 and t.request in (0, 6, 8) and t.clean:
                                if not (resp.is_data or resp.is_hs(STALL)):
                                    fail("C07", k, "c07-first-data-in-not-answered",
                                         "first data-stage IN of a fresh %r transfer got no DATA/STALL%s" % (t.su, between(t)))
                            # every data-stage IN of a running device-to-host data stage is answered, with the packet the
                            # host expects next -- whatever was on the bus for other endpoints / devices in between
                            if t.tracked and t.clean and not t.stalled and not t.data_done:
                                if resp.is_hs(STALL):
                                    if t.data_seen or (t.request == 6 and t.descriptor is not None) or t.request != 6:
                                        fail("C07", k, "c07-data-stage-disturbed",
                                             "data-stage IN of %r STALLed although the request has data to return%s"
                                             % (t.su, between(t)))
                                    t.stalled = True
                                elif not resp.is_data:
                                    if not first:
                                        fail("C07", k, "c07-data-in-not-answered",
                                             "data-stage IN of the running %r transfer (%d packets ACKed so far, data stage not "
                                             "finished, host still in the data stage) got no DATA%s" % (t.su, t.acked, between(t)))
                                else:
                                    t.data_seen = True
                                    if t.request == 6 and t.descriptor is not None:
                                        # packet no. `acked` of the data stage: mps-sized slices of the first wLength
                                        # bytes; the empty slice (= a zero-length packet) exactly when the total is a
                                        # multiple of mps and smaller than wLength (otherwise data_done stopped the judging)
                                        want = t.descriptor[:t.length][mps * t.acked:mps * t.acked + mps]
                                        wpid = D1 if t.acked % 2 == 0 else D0
                                        if resp.pid != wpid or list(resp.payload) != want:
                                            fail("C07", k, "c07-data-stage-disturbed",
                                                 "data-stage IN of %r after %d ACKed packets answered with DATA%d, %d bytes "
                                                 "(%s…); the host expects DATA%d, %d bytes (%s…): the stage was restarted, "
                                                 "advanced or skipped%s"
                                                 % (t.su, t.acked, 1 if resp.pid == D1 else 0, len(resp.payload),
                                                    bytes(resp.payload[:4]).hex(), 1 if wpid == D1 else 0, len(want),
                                                    bytes(want[:4]).hex(), between(t)))
                                    elif t.request == 6:
                                        fail("C07", k, "c07-data-stage-disturbed",
                                             "GET_DESCRIPTOR %r for a descriptor that does not exist answered with DATA%s"
                                             % (t.su, between(t)))
                                    t.pending_k, t.pending_len = k, len(resp.payload)
                            t.between = []
                        elif t.in_data:
                            if resp.is_data:
                                fail("C07", k, "c07-data-after-status-began", "IN answered with DATA after the host moved to the status stage")
                        else:
                            # status stage IN (no data stage, or OUT data stage)
                            first = not t.first_in_seen
                            t.first_in_seen = True
                            t.status_started = True
                            t.status_ins += 1
                            # "answers the status stage ... IN": as long as the host has not ACKed the status ZLP (its
                            # ACK was lost / corrupted, or it never got the ZLP) the transfer is not finished for it and
                            # it repeats the IN token; every one of them must be answered (ZLP / NAK / STALL), silence
                            # is the failure.  Not judged after a STALL, a reset, or once the host has ACKed.
                            if (not first and t.status_in_held and t.clean and not t.stalled and not t.status_stalled and not t.status_acked
                                    and resp.is_none):
                                fail("C07", k, "c07-repeated-status-in-not-answered",
                                     "status-stage IN no. %d of the %r transfer got no answer although the host has not "
                                     "acknowledged the status stage yet (old address %d)%s" % (t.status_ins, t.su, addr, between(t)))
                            if resp.is_hs(STALL):
                                t.status_stalled = True
                            t.between = []
                            if resp.is_data and resp.payload:
                                fail("C07", k, "c07-data-without-in-data-stage",
                                     "IN answered with %d data bytes although the SETUP %r has no device-to-host data stage"
                                     % (len(resp.payload), t.su))
                            if t.unsupported:
                                if resp.is_data or resp.is_hs(ACK):
                                    fail("C10", k, "c10-unsupported-answered", "unsupported request %r answered in its status stage" % (t.su,))
                                if resp.is_hs(STALL):
                                    t.stalled = True
                                elif first and not t.stalled:
                                    fail("C10", k, "c10-not-stalled", "status stage of unsupported request %r not STALLed" % (t.su,))
                            elif first and t.type == 0 and t.request in (5, 9) and t.length == 0 and t.clean:
                                if not (resp.is_data and not resp.payload):
                                    fail("C07", k, "c07-status-in-not-answered",
                                         "status IN of a fresh %r transfer not answered with a ZLP (old address %d)" % (t.su, addr))
                            elif first and t.clean and t.length != 0 and not t.unsupported and resp.is_none:
                                fail("C07", k, "c07-status-in-after-out-data-not-answered",
                                     "the status IN after the OUT data stage of a fresh %r transfer got no answer" % (t.su,))
                            if resp.is_data and not resp.payload:
                                t.status_zlp_pending = True
                if ep == 0 and pid in (O, P) and cur is not None and cur.in_data:
                    cur.status_started = True
                if ep == 0 and pid == O and cur is not None and not cur.in_data and cur.length == 0:
                    pass
            else:
                tok = None if tok is None else (0, tok[1])
        elif kind == "data":
            if tok is not None and tok[0] == S and setup_tok and ev[3] and len(ev[2]) <= 8:
                setup_tok = False
                if len(ev[2]) == 8:
                    if resp.is_hs(ACK) and tok[1] == 0:
                        cur = Transfer(ev[2], spec)
                    elif tok[1] == 0:
                        fail("C07", k, "c07-setup-not-accepted", "a well-formed SETUP transaction was not ACKed")
            elif tok is not None and tok == (O, 0) and prev_ev is not None and prev_ev[0] == "tok":
                if cur is None:
                    if resp.is_hs(ACK) or resp.is_data:
                        fail("C07", k, "c07-out-answered-without-transfer", "OUT data on ep0 answered although no control transfer is in progress")
                else:
                    t = cur
                    if t.in_data:
                        # status stage OUT
                        if t.tracked and t.clean and not t.stalled and ev[3] and not t.answered_status and not resp.is_hs(ACK):
                            fail("C07", k, "c07-status-out-not-acked",
                                 "the first well-formed status OUT of the fresh %r transfer was not ACKed%s" % (t.su, between(t)))
                        if t.unsupported:
                            if resp.is_hs(ACK) or resp.is_data:
                                fail("C10", k, "c10-unsupported-answered", "unsupported request %r: status OUT answered" % (t.su,))
                            if ev[3] and not t.stalled and not resp.is_hs(STALL) and not t.answered_status:
                                fail("C10", k, "c10-not-stalled", "status stage of unsupported request %r not STALLed" % (t.su,))
                            if resp.is_hs(STALL):
                                t.stalled = True
                        if ev[3]:
                            t.answered_status = True
                    else:
                        # data stage OUT or (wrong-direction) status
                        if resp.is_hs(ACK) and (t.length == 0 or t.status_started):
                            fail("C07", k, "c07-status-out-without-in-data-stage",
                                 "OUT on ep0 ACKed as a status stage although SETUP %r has no device-to-host data stage" % (t.su,))
                        if t.unsupported and (resp.is_hs(ACK) or resp.is_data):
                            fail("C10", k, "c10-unsupported-answered", "unsupported request %r: OUT data answered" % (t.su,))
        elif kind == "reset":
            if cur:
                cur.clean = False
        # ---------------- C08: the registers
        na, nc = r.address, r.configuration
        if kind == "reset":
            if na != 0 or nc != 0:
                fail("C08", k, "c08-reset-does-not-clear", "after a bus reset address=%d configuration=%d" % (na, nc))
        else:
            status_ack = (kind == "hs" and ev[1] == ACK and zlp_pending and cur is not None and cur.type == 0
                          and not cur.committed and tok == (I, 0))
            if na != addr:
                ok = status_ack and cur.request == 5 and na == (cur.value & 0x7F)
                if not ok:
                    fail("C08", k, "c08-address-change-outside-status-ack",
                         "address %d -> %d, but this event is not the host's ACK of the status stage of a SET_ADDRESS %d"
                         % (addr, na, na))
            elif status_ack and cur.request == 5 and cur.length == 0 and na != (cur.value & 0x7F):
                fail("C08", k, "c08-address-not-committed", "status stage of SET_ADDRESS %d ACKed but address is %d" % (cur.value & 0x7F, na))
            if nc != cfgv:
                ok = status_ack and cur.request == 9 and nc == (cur.value & 0xFF)
                if not ok:
                    fail("C08", k, "c08-config-change-outside-status-ack",
                         "configuration %d -> %d, but this event is not the host's ACK of the status stage of a SET_CONFIGURATION %d"
                         % (cfgv, nc, nc))
            elif status_ack and cur.request == 9 and cur.length == 0 and nc != (cur.value & 0xFF):
                fail("C08", k, "c08-config-not-committed", "status stage of SET_CONFIGURATION %d ACKed but configuration is %d" % (cur.value & 0xFF, nc))
            if status_ack and cur.request in (5, 9):
                cur.committed = True
            if cur is not None and cur.unsupported and (na != addr or nc != cfgv):
                fail("C10", k, "c10-state-change", "address/configuration changed while handling unsupported request %r" % (cur.su,))
        addr, cfgv = na, nc
        prev_ev = ev
    return fails


# ----------------------------------------------------------------------------- case construction
def gen_dev_cases(tier, rng, profile):
    if tier == "quick":
        n_legal, n_wild, transfers = 40, 8, 24
    elif tier == "widen":
        n_legal, n_wild, transfers = 160, 16, 40
    else:
        n_legal, n_wild, transfers = 420, 60, 40
    out = []
    for k in range(n_legal):
        out.append({"mode": "legal", "profile": profile, "seed": rng.u64(), "transfers": transfers, "k": k})
    for k in range(n_wild):
        out.append({"mode": "wild", "profile": profile, "seed": rng.u64(), "events": transfers * 9, "k": k})
    return out


def run_dev_case(desc, prop):
    rng = Rng(desc["seed"])
    tags = set()
    mode = desc["mode"]
    if "spec" in desc:
        spec = desc["spec"]
    elif mode == "wild":
        spec = make_wild_spec(rng.fork("spec"))
    else:
        spec = make_spec(rng.fork("spec"), profile=desc.get("profile"))
    h = DH.DevHarness(spec, rng.fork("timing"))
    if desc.get("stimulus"):
        script = [DH.decode_event(row[3:]) for row in desc["stimulus"]]
    elif desc.get("events_list"):
        script = desc["events_list"]
    elif mode == "wild":
        script = wild_script(rng.fork("host"), spec, desc["events"], tags)
    else:
        script = legal_host_script(rng.fork("host"), spec, desc.get("profile", "c07"), desc["transfers"], tags)
    log = h.run(script)
    # ---- rows for the Lean model
    inputs, outputs = [], []
    addr = 0
    tok_ep = 0
    tok_pid = 0
    for r in log:
        ev = r.event
        if ev[0] == "tok":
            if ev[2] == addr:
                tok_pid, tok_ep = ev[1], ev[3]
            else:
                tok_pid = 0
        foreign = r.resp if (tok_ep != 0 and r.resp.kind in (DH.RESP_HS, DH.RESP_DATA)) else None
        if foreign is not None:
            tags.add("foreign-response")
        frow = [foreign.kind, foreign.pid, len(foreign.payload)] if foreign is not None else [0, 0, 0]
        inputs.append(frow + DH.encode_event(ev))
        enc = r.resp.encode()
        if foreign is not None:
            enc = enc[:3] + [None] * (len(enc) - 3)
        legal = 1 if (mode == "legal" and not desc.get("stimulus") and not desc.get("nolegal")) else None
        outputs.append([legal, r.address, r.configuration] + enc)
        addr = r.address
        tags.add("resp:%d" % r.resp.kind if r.resp.kind != DH.RESP_HS else "resp:hs%d" % r.resp.pid)
    fails = []
    if mode != "wild" or desc.get("monitor"):
        fails = monitor(log, spec)[prop]
    tags.add("shape:" + spec.get("shape", "?"))
    tags.add("eps:%d" % len(spec["eps"]))
    tags.add("handlers:%d" % len(spec.get("handlers", [])))
    tags.add("mode:" + mode)
    tags.add("mps:%d" % int(spec.get("mps", 64)))
    d = dict(desc)
    d["spec"] = spec
    return Case(cfg_ints(spec), inputs, outputs, fails, sorted(tags), d, NAMES_IN, NAMES_OUT)


RULE = ("cases = (descriptor-set shape, extra endpoints, extra request handlers, control max packet size: 64 in 40 % of the "
        "cases, 8 / 16 / 32 in 20 % each -- the real USBDevice is built with USBControlEndpoint(max_packet_size=mps), the model "
        "is Device.stepM with c.maxPacket = mps, the device descriptor's bMaxPacketSize0 is mps) x host script; 'legal' scripts are adaptive "
        "LegalHost schedules (control transfers with SETUP retries, abandoned transfers, lost/corrupted handshakes, bulk "
        "IN/OUT and other-device traffic between control stages, bus resets; every generated event is checked against the "
        "Lean predicate legalEvent), 'wild' scripts ignore transaction formats (correspondence only); between ALL "
        "transactions of a control transfer (after the SETUP, between the IN transactions of a device-to-host data stage "
        "-- there with raised probability in the C07 profile, whose descriptor sets get a 65..228-byte descriptor so that "
        "multi-packet reads are common --, before and between the status attempts) the host interleaves traffic that is not "
        "the transfer's: PING tokens to other endpoints of the device (existing OUT/IN endpoints and missing ones, "
        "optionally followed by the OUT transaction), bare IN/OUT/PING tokens to other endpoints without data/handshake, "
        "complete bulk IN/OUT transactions, transactions of other devices, SOFs, malformed packets; the monitor judges "
        "every data-stage IN of a running GET_STATUS/GET_DESCRIPTOR/GET_CONFIGURATION read (answered with DATA, and for "
        "GET_DESCRIPTOR with exactly the next mps-byte slice of the first wLength bytes -- a zero-length packet iff the total is a "
        "multiple of mps and smaller than wLength -- and the PID the host expects from its own count of ACKed packets; the "
        "legal host ends the data stage after a packet shorter than mps or wLength bytes; for mps < 64 wLength also takes "
        "values around the multiples of mps) "
        "and the first well-formed status OUT (ACKed)")
ASSUMPTIONS = [
    "LegalHost (Model/Device/Control.lean legalEvent; Model/Device/ControlM.lean legalEventM for the configured control max "
    "packet size, the same predicate with 'short packet' = shorter than max_packet_size): data packets only directly after an OUT/SETUP token (or as another "
    "device's answer), host handshakes only directly after a DATA packet of the device (or another device's), SETUP tokens "
    "only to endpoint 0 and followed by DATA0, no further data-stage IN after the host ACKed a short packet, other endpoints "
    "of the device transmit only in transactions whose token names them",
    "a new packet starts only after the previous response window (the harness waits for the end of the device's transmission "
    "or 18-24 idle cycles at 12 MHz)",
    "12 MHz full-speed UTMI configuration, block-RAM descriptor handler (all descriptors are bytes), no skiplist",
    "the 'wild' scripts (outside LegalHost, correspondence only) stay inside the domain of the event-level descriptorPacket: "
    "no IN token for endpoint 0 once the host's ACKs have advanced start_position beyond wLength of the latched GET_DESCRIPTOR "
    "(dev_ctl.in_order_guard, decided from the host's own view of the bus) -- there the gateware's signed "
    "`length - start_position` is negative and the block descriptor handler sends the whole rest of the descriptor in one "
    "packet, which the event-level model (subtraction modulo 2^17, at most max_packet_size bytes) does not reproduce; C09's "
    "cycle-level model does; LegalHost histories never get there (legal_read_in_order / legal_read_in_order_mps)",
]

CYC_MODULES = ["LunaVerif.Lemmas.C07CycSteps", "LunaVerif.Lemmas.C07CycInv", "LunaVerif.Lemmas.C07Refine", "LunaVerif.Lemmas.C07RefineEvents",
               "LunaVerif.Lemmas.C07RefineMain"]
CYC_RULE = (" | cycle level (extra_checks, harness/props/c07_cyc.py): cases = (descriptor-set shape, endpoint number, max packet "
            "size) x a per-cycle micro-host driving the EndpointInterface of the standalone USBControlEndpoint + "
            "StandardRequestHandler (control transfers with abandoned stages, transactions on other endpoints and for other "
            "devices between the stages, corrupted SETUP data, PING, bursts of arbitrary tokenizer flags / strobes); every "
            "interface output, data_requested / status_requested / the forwarded handshake, the handler's strobes and all "
            "registers are compared with Model/Usb2/ControlCyc.lean in every cycle")

PARTIAL_COMMON = ("the property theorems are about the event-level model, tied to the whole USBDevice by event-by-event "
                  "co-simulation; the cycle-level model of USBControlEndpoint + request multiplexer + StandardRequestHandler "
                  "(Model/Usb2/ControlCyc.lean, co-simulated cycle by cycle against the real standalone control endpoint) is "
                  "proved to simulate the event-level model (cycle_refines_event, cycle_refines_event_run) for every event "
                  "history in which the standard handler stays outside its three streaming states GET_STATUS / "
                  "GET_CONFIGURATION / GET_DESCRIPTOR -- i.e. complete SET_ADDRESS, SET_CONFIGURATION, CLEAR_FEATURE, "
                  "unsupported and non-standard transfers with arbitrary interleaved traffic -- and NOT for those three states "
                  "(their answers are streamed by the transmitter / descriptor handler, which are inputs of the cycle-level "
                  "model: the refinement would need the stream contracts of C09/C27), not for configurations with additional "
                  "request handlers, not for bus resets (device.py's registers; modelled by the two-line regsAfter only); the "
                  "expansion of an event into cycles encodes the contracts of the token detector, setup decoder and the device "
                  "core's receiver strobes (proved at C04-C06, not composed formally here); the rx stream pass-through of the "
                  "DATA_OUT stage is not modelled; the descriptor handler's answer is abstracted by descriptorPacket at event "
                  "level and co-simulated only (C09 owns it)")
PARTIAL = {
    "C07": PARTIAL_COMMON,
    "C08": PARTIAL_COMMON + "; CLEAR_FEATURE's halt-clear strobe is modelled at cycle level only "
           "(halt_clear_strobe_only_on_gated_ack_in_clear_feature), not in the event-level model",
    "C10": PARTIAL_COMMON + "; PING tokens are excluded from unsupported_never_answered (the control endpoint ACKs PING in its OUT "
           "stages whatever the request); 'no state change' covers address/configuration/handler state, not the halt-clear strobe",
}
