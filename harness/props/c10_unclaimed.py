"""C10, monitor-only cases: control endpoints in which a request reaches the multiplexer's FALLBACK handler.

`add_standard_control_endpoint(descriptors)` (all other C10 cases) gives the control endpoint one
StandardRequestHandler that claims every STANDARD-type request, so only class/vendor/reserved requests ever reach
`USBRequestHandlerMultiplexer`'s fallback `StallOnlyRequestHandler`.  Here the control endpoint of a whole
`USBDevice` (UTMI, full speed) is assembled by hand -- `USBControlEndpoint(utmi=…)` + `add_request_handler(…)`:

  layout "nostd"  no StandardRequestHandler at all, only one or two vendor/class handlers: EVERY standard request
                  (GET_DESCRIPTOR, SET_ADDRESS, SET_CONFIGURATION, … and the unknown ones) is implemented by nobody
  layout "skip"   StandardRequestHandler(descriptors, skiplist=[f]) + a class-specific handler that claims the
                  skiplisted standard request for ONE wIndex only (the usual HID pattern: GET_DESCRIPTOR(report,
                  0x22) of interface 0): the same request naming another wIndex is implemented by nobody

The property (text of C10) is stated on the decoded answers of the real device: a request that nobody implements
is never answered with DATA or ACK, changes neither address nor configuration, and is STALLed at its first
data-stage IN token or at its status stage.  There is no Lean model of these layouts (Case(..., lean=False)).
"""
from harness.common.framework import Case
from harness.common.rng import Rng
from harness.common import devharness as DH
from harness.common import usbref as U

S, I, O = U.PID_SETUP, U.PID_IN, U.PID_OUT
D0, D1 = U.PID_DATA0, U.PID_DATA1
ACK, NAK, STALL = U.PID_ACK, U.PID_NAK, U.PID_STALL

HANDLED_STD = (0, 1, 5, 6, 8, 9)          # requests the StandardRequestHandler has a state for
NAMES_IN = ["event…"]
NAMES_OUT = ["address", "configuration", "resp_kind", "resp_pid", "resp_len", "resp_byte…"]

RULE = (" | fallback layouts (harness/props/c10_unclaimed.py, monitor only): whole USBDevice whose control endpoint is "
        "assembled by hand -- (nostd) no StandardRequestHandler, one or two vendor/class handlers; (skip) "
        "StandardRequestHandler with a skiplist entry (GET_DESCRIPTOR type 0x21/0x22, GET_INTERFACE, SET_INTERFACE) + a "
        "class handler claiming the skiplisted request for one wIndex only; host script = claimed requests (sanity), "
        "class/vendor/reserved requests nobody claims, standard requests nobody implements (nostd: all of them incl. "
        "SET_ADDRESS / SET_CONFIGURATION / GET_DESCRIPTOR; skip: the skiplisted request with another wIndex, and "
        "request codes the standard handler does not know), each with wLength 0 / IN data stage / OUT data stage, "
        "repeated IN tokens, data stage skipped, transfers abandoned by a new SETUP; monitor: never DATA/ACK, no "
        "address/configuration change, STALL at the first data-stage IN or at the status stage")
ASSUMPTIONS = [
    "fallback layouts: at most one handler claims a request (handlers and skiplist entries do not overlap); the host "
    "sends well-formed transactions one at a time and no PING (the control endpoint ACKs PING in its OUT stages whatever "
    "the request)",
]


# ----------------------------------------------------------------------------- request handlers (JSON-able specs)
#   ["zlpreg",  type, request, index|-1]                       no-data / OUT request: status ZLP (handle_register_write_request)
#   ["constin", type, request, value_hi|-1, index|-1, [bytes]] IN request answered with constant bytes (one packet)
def _fields(su):
    return {"type": (su[0] >> 5) & 3, "request": su[1], "value_hi": su[3], "index": su[4] | (su[5] << 8),
            "length": su[6] | (su[7] << 8), "is_in": bool(su[0] & 0x80)}


def handler_claims(h, su):
    f = _fields(su)
    if h[0] == "zlpreg":
        return f["type"] == h[1] and f["request"] == h[2] and (h[3] < 0 or f["index"] == h[3])
    if h[0] == "constin":
        return (f["type"] == h[1] and f["request"] == h[2] and (h[3] < 0 or f["value_hi"] == h[3])
                and (h[4] < 0 or f["index"] == h[4]))
    raise ValueError(h)


def skip_matches(sk, su):
    """skiplist entry [request, value_hi|-1] (STANDARD type implied)"""
    f = _fields(su)
    return f["type"] == 0 and f["request"] == sk[0] and (sk[1] < 0 or f["value_hi"] == sk[1])


def classify(layout, su):
    """Who is responsible for the request, from the layout alone:
       'claimed'  exactly one extra handler claims it
       'std'      the StandardRequestHandler claims it and has a state for the request code
       'std-unsupported'  the StandardRequestHandler claims it and does not know the request code
       'nobody'   no handler claims it (-> fallback)"""
    n = sum(1 for h in layout["handlers"] if handler_claims(h, su))
    f = _fields(su)
    std = layout["std"] and f["type"] == 0 and not any(skip_matches(sk, su) for sk in layout["skip"])
    if n + int(std) != 1:
        return "nobody"
    if std:
        return "std" if f["request"] in HANDLED_STD else "std-unsupported"
    return "claimed"


def make_handler(h):
    from amaranth import Module, Signal
    from luna.gateware.usb.request.control import ControlRequestHandler
    from luna.gateware.usb.stream import USBInStreamInterface
    from luna.gateware.stream.generator import ConstantStreamGenerator

    if h[0] == "zlpreg":
        rtype, rreq, ridx = h[1], h[2], h[3]

        class ZlpRegisterHandler(ControlRequestHandler):
            def __init__(self):
                super().__init__()
                self.value = Signal(16)
                self.strobe = Signal()

            def elaborate(self, platform):
                m = Module()
                i = self.interface
                new_value = Signal(16)
                match = (i.setup.type == rtype) & (i.setup.request == rreq)
                if ridx >= 0:
                    match = match & (i.setup.index == ridx)
                with m.If(match):
                    m.d.comb += i.claim.eq(1)
                    with m.FSM(domain="usb"):
                        with m.State("HANDLE"):
                            self.handle_register_write_request(m, new_value, self.strobe)
                        with m.State("IDLE"):
                            m.next = "HANDLE"
                with m.If(self.strobe):
                    m.d.usb += self.value.eq(new_value)
                return m

        return ZlpRegisterHandler()

    if h[0] == "constin":
        rtype, rreq, rvh, ridx, data = h[1], h[2], h[3], h[4], bytes(h[5])

        class ConstantInHandler(ControlRequestHandler):
            def elaborate(self, platform):
                m = Module()
                i = self.interface
                m.submodules.generator = gen = ConstantStreamGenerator(
                    data, domain="usb", stream_type=USBInStreamInterface, max_length_width=16)
                match = (i.setup.type == rtype) & (i.setup.request == rreq)
                if rvh >= 0:
                    match = match & (i.setup.value[8:16] == rvh)
                if ridx >= 0:
                    match = match & (i.setup.index == ridx)
                with m.If(match):
                    m.d.comb += [
                        i.claim.eq(1),
                        gen.stream.attach(i.tx),
                        gen.max_length.eq(i.setup.length),
                        gen.start.eq(i.data_requested),
                        i.tx_data_pid.eq(1),
                        i.handshakes_out.ack.eq(i.status_requested),
                    ]
                return m

        return ConstantInHandler()
    raise ValueError("handler kind %r" % (h,))


def make_skip(sk):
    rreq, rvh = sk

    def f(setup):
        c = (setup.type == 0) & (setup.request == rreq)
        if rvh >= 0:
            c = c & (setup.value[8:16] == rvh)
        return c
    return f


# ----------------------------------------------------------------------------- the device
class FallbackHarness(DH.DevHarness):
    """DevHarness (same event interface, same timing) around a USBDevice whose control endpoint is built by hand."""

    def __init__(self, layout, timing_rng=None):
        from amaranth import Module, ClockDomain
        from amaranth.hdl import Fragment
        from amaranth.sim import Simulator
        from luna.gateware.interface.utmi import UTMIInterface
        from luna.gateware.usb.usb2.device import USBDevice
        from luna.gateware.usb.usb2.control import USBControlEndpoint
        from luna.gateware.usb.request.standard import StandardRequestHandler
        from usb_protocol.emitters import DeviceDescriptorCollection

        self.spec = {"desc": layout["desc"], "eps": [], "handlers": []}
        self.layout = layout
        self.rng = timing_rng
        self.utmi = UTMIInterface()
        self.dev = USBDevice(bus=self.utmi, handle_clocking=False)
        self.control = USBControlEndpoint(utmi=self.dev.utmi)
        self.handlers = []
        if layout["std"]:
            coll = DeviceDescriptorCollection(automatic_language_descriptor=False)
            for t, i, b in layout["desc"]:
                coll.add_descriptor(bytes(b), index=i, descriptor_type=t)
            self.descriptors = coll
            self.control.add_request_handler(
                StandardRequestHandler(coll, skiplist=[make_skip(sk) for sk in layout["skip"]]))
        for h in layout["handlers"]:
            hd = make_handler(h)
            self.control.add_request_handler(hd)
            self.handlers.append(hd)
        self.dev.add_endpoint(self.control)
        self.endpoints = {}

        top = Module()
        top.domains.usb = ClockDomain()
        top.submodules.dev = self.dev
        self.fragment = Fragment.get(top, None)
        self._index = {}
        self._walk(self.fragment, ())
        self.address = self.signal("address", ("dev",))
        self.configuration = self.signal("configuration", ("dev",))
        self.probe_signals = []
        self.sim = Simulator(self.fragment)
        self.sim.add_clock(1.0 / 12e6, domain="usb")
        self.cycle = 0
        self.tx_rows = []
        self.log = []
        self._rx = (0, 0, 0)
        self._ls = None
        self._ready = None


# ----------------------------------------------------------------------------- layouts
REPORT = [0x06, 0x00, 0xFF, 0x09, 0x01, 0xA1, 0x01, 0x15, 0x00, 0x26, 0xFF, 0x00, 0x75, 0x08, 0x95, 0x40, 0x09, 0x01,
          0x81, 0x02, 0xC0]
HID_DESC = [9, 0x21, 0x11, 0x01, 0, 1, 0x22, len(REPORT), 0]


def make_layout(rng, which):
    if which == "nostd":
        hs = rng.choice([
            [["zlpreg", 2, 0x20, -1]],
            [["constin", 2, 0x10, -1, -1, [0xDE, 0xAD, 0xBE, 0xEF]]],
            [["zlpreg", 2, 0x20, -1], ["constin", 1, 0x01, -1, 0, [1, 2, 3, 4, 5, 6, 7, 8]]],
            [["zlpreg", 1, 0x0A, 0], ["constin", 2, 0x42, -1, -1, [0x55] * 16]],
        ])
        return {"which": which, "std": False, "skip": [], "handlers": hs, "desc": []}
    idx = rng.choice([0, 0, 1, 2])
    v = rng.below(4)
    if v == 0:          # GET_DESCRIPTOR(HID report) served for one interface only
        skip, hs = [[6, 0x22]], [["constin", 0, 6, 0x22, idx, REPORT]]
    elif v == 1:        # GET_DESCRIPTOR(HID) / (HID report), both served for one interface only
        skip, hs = [[6, 0x21], [6, 0x22]], [["constin", 0, 6, 0x21, idx, HID_DESC], ["constin", 0, 6, 0x22, idx, REPORT]]
    elif v == 2:        # SET_INTERFACE served for one interface only
        skip, hs = [[11, -1]], [["zlpreg", 0, 11, idx]]
    else:               # GET_INTERFACE / SET_INTERFACE served for one interface only, + a vendor request
        skip, hs = [[10, -1], [11, -1]], [["constin", 0, 10, -1, idx, [0]], ["zlpreg", 0, 11, idx], ["zlpreg", 2, 0x20, -1]]
    return {"which": which, "std": True, "skip": skip, "handlers": hs,
            "desc": DH.descriptor_table(rng.choice(["std", "sparse", "tiny"]), rng)}


# ----------------------------------------------------------------------------- the host
def _claimed_setup(rng, h):
    """A request in the form its handler serves."""
    if h[0] == "zlpreg":
        return DH.setup_bytes(h[1] << 5 | rng.choice([0, 1, 2]), h[2], rng.below(65536),
                              h[3] if h[3] >= 0 else rng.below(65536), 0)
    vh = h[3] if h[3] >= 0 else rng.below(256)
    return DH.setup_bytes(0x80 | h[1] << 5 | rng.choice([0, 1]), h[2], (vh << 8) | rng.choice([0, 0, 1]),
                          h[4] if h[4] >= 0 else rng.below(65536), rng.choice([len(h[5]), len(h[5]), 64, 255, 2]))


def _length(rng):
    return rng.choice([0, 0, 1, 2, 8, 18, 64, 65, 255, 512])


def _near_miss(rng, layout):
    """The request of one of the handlers with one field changed (other wIndex / other descriptor type / other type)."""
    h = rng.choice(layout["handlers"])
    su = _claimed_setup(rng, h)
    k = rng.below(4)
    if k == 0 or (h[0] == "zlpreg" and h[3] >= 0) or (h[0] == "constin" and h[4] >= 0):
        cur = su[4] | (su[5] << 8)
        ni = rng.choice([i for i in (0, 1, 2, 3, 0x80, 0x100, 0xFFFF) if i != cur])
        su[4], su[5] = ni & 0xFF, ni >> 8
    elif k == 1:
        su[1] = (su[1] + rng.choice([1, 2, 0x10])) & 0xFF
    elif k == 2:
        su[0] ^= rng.choice([0x20, 0x40, 0x60])
    else:
        su[3] ^= rng.choice([1, 2, 0x80])
    if rng.chance(40):
        ln = _length(rng)
        su[6], su[7] = ln & 0xFF, ln >> 8
    if rng.chance(25):
        su[0] ^= 0x80
    return su


def rand_setup(rng, layout):
    """(category the generator aims at, 8 setup bytes).  The monitor classifies by itself."""
    k = rng.weighted([(3, "claimed"), (4, "near-miss"), (4, "std"), (3, "nonstd"), (2, "known-std"), (1, "random")])
    if k == "claimed":
        return k, _claimed_setup(rng, rng.choice(layout["handlers"]))
    if k == "near-miss":
        return k, _near_miss(rng, layout)
    if k == "std":
        # standard type: in layout nostd nobody implements any of them; in layout skip the unknown request codes
        # are the standard handler's (UNHANDLED) and the skiplisted ones with another wIndex are nobody's
        if layout["skip"] and rng.chance(60):
            sk = rng.choice(layout["skip"])
            vh = sk[1] if sk[1] >= 0 else rng.below(256)
            d = 0x80 if sk[0] in (6, 10) else 0x00
            ln = _length(rng) if rng.chance(50) else (rng.choice([1, 9, 21, 64]) if d else 0)
            return k, DH.setup_bytes(d | rng.choice([0, 1, 1]), sk[0], (vh << 8) | rng.choice([0, 0, 1]),
                                     rng.choice([0, 1, 2, 3, 0x100, rng.below(65536)]), ln)
        req = rng.choice([0, 1, 3, 5, 6, 6, 8, 9, 9, 10, 11, 12, 7, 2, 4, rng.below(256)])
        if layout["std"]:
            req = rng.choice([r for r in (2, 3, 4, 7, 12, 13, 0x30, 0xFF, rng.range(13, 255)) if r not in HANDLED_STD])
        return k, DH.setup_bytes(rng.choice([0x00, 0x80, 0x80, 0x01, 0x81, 0x02, 0x82]), req,
                                 rng.choice([0, 1, 0x0100, 0x0200, 0x2200, rng.below(65536)]),
                                 rng.choice([0, 0, 1, 0x81, rng.below(65536)]), _length(rng))
    if k == "nonstd":
        return k, DH.setup_bytes(rng.choice([0x20, 0x40, 0x60, 0xA0, 0xC0, 0xE0, 0x21, 0xA1, 0xC1, 0x41, 0x42]),
                                 rng.choice([0, 1, 5, 6, 9, 0x0A, 0x10, 0x20, 0x42, rng.below(256)]),
                                 rng.below(65536), rng.choice([0, 1, rng.below(65536)]), _length(rng))
    if k == "known-std" and layout["std"] and layout["desc"]:
        t, i, b = rng.choice(layout["desc"])
        return k, rng.choice([DH.setup_bytes(0x80, 6, (t << 8) | i, 0, rng.choice([len(b), 8, 64])),
                              DH.setup_bytes(0x00, 9, rng.choice([0, 1]), 0, 0),
                              DH.setup_bytes(0x80, 8, 0, 0, 1),
                              DH.setup_bytes(0x80, 0, 0, 0, 2)])
    return "random", rng.bytes(8)


def host_script(rng, layout, n_transfers, tags):
    def script(_h):
        for _ in range(n_transfers):
            if rng.chance(15):
                yield rng.choice([["sof", rng.below(2048)], ["tok", I, 0x55, 0], ["quiet"]])
            kind, su = rand_setup(rng, layout)
            tags.add("gen:" + kind)
            f = _fields(su)
            yield ["tok", S, _h.log[-1].address if _h.log else 0, 0]
            addr = _h.log[-1].address
            r = yield ["data", D0, su, 1]
            if not r.resp.is_hs(ACK):
                tags.add("setup-not-acked")
                continue
            if rng.chance(5):
                tags.add("abandon:after-setup")
                continue
            in_data = f["is_in"] and f["length"] != 0
            persist = rng.chance(35)            # keep going after a STALL (the answers must not change)
            stalled = False
            if in_data:
                for _k in range(rng.choice([0, 1, 1, 1, 2, 3])):
                    r = yield ["tok", I, addr, 0]
                    if r.resp.is_data:
                        yield rng.weighted([(8, ["hs", ACK]), (1, ["quiet"])])
                        if len(r.resp.payload) < 64:
                            break
                    elif r.resp.is_hs(STALL):
                        stalled = True
                        if not persist:
                            break
                if stalled and not persist:
                    continue
                if rng.chance(8):
                    tags.add("abandon:before-status")
                    continue
                for _k in range(rng.choice([1, 1, 2])):
                    yield ["tok", O, addr, 0]
                    r = yield ["data", D1, [], 1]
                    if not r.resp.is_none and not persist:
                        break
            else:
                if f["length"]:
                    for _k in range(rng.choice([0, 1, 1, 2])):
                        yield ["tok", O, addr, 0]
                        yield ["data", D1 if _k % 2 == 0 else D0, rng.bytes(min(f["length"], rng.choice([1, 8, 64]))),
                               int(rng.chance(92))]
                    if rng.chance(8):
                        tags.add("abandon:before-status")
                        continue
                for _k in range(rng.choice([1, 1, 2, 3])):
                    r = yield ["tok", I, addr, 0]
                    if r.resp.is_data:
                        r2 = yield rng.weighted([(8, ["hs", ACK]), (1, ["quiet"])])
                        if r2.event[0] == "hs":
                            break
                    elif r.resp.is_hs(STALL) and not persist:
                        break
    return script


# ----------------------------------------------------------------------------- the monitor (the text of C10)
class _Transfer:
    def __init__(self, su, cls):
        f = _fields(su)
        self.su, self.cls = list(su), cls
        self.judged = cls in ("nobody", "std-unsupported")
        self.in_data = f["is_in"] and f["length"] != 0
        self.has_out_data = (not f["is_in"]) and f["length"] != 0
        self.first_in_seen = False
        self.status_started = False
        self.status_data_seen = False
        self.stalled = False

    def who(self):
        return {"nobody": "no handler claims", "std-unsupported": "the standard handler does not implement"}[self.cls]


def monitor(log, layout, tags):
    fails = []

    def fail(k, sig, what):
        if len(fails) < 5:
            fails.append({"cycle": k, "sig": sig, "what": "layout %s (handlers %r, skiplist %r): event %d %r -> %r: %s"
                          % (layout["which"], layout["handlers"], layout["skip"], k, log[k].event, log[k].resp, what)})

    addr, cfgv = 0, 0
    cur = None
    tok = None            # last token addressed to the device (pid, ep); None after a token for somebody else
    prev = None
    for k, r in enumerate(log):
        ev, resp = r.event, r.resp
        kind = ev[0]
        if kind == "tok":
            pid, a, ep = ev[1], ev[2], ev[3]
            if a != addr:
                tok = None
            else:
                tok = (pid, ep)
                if pid == S:
                    cur = None                    # a SETUP token always begins a new transfer
                elif ep == 0 and cur is not None and pid == I:
                    t = cur
                    if t.judged and (resp.is_data or resp.is_hs(ACK)):
                        fail(k, "c10-unclaimed-answered",
                             "request %r, which %s, answered at an IN token" % (t.su, t.who()))
                    if t.in_data and not t.status_started:
                        first, t.first_in_seen = not t.first_in_seen, True
                        if t.judged:
                            tags.add("judged:data-in:" + t.cls)
                            if resp.is_hs(STALL):
                                t.stalled = True
                            elif first:
                                fail(k, "c10-unclaimed-data-in-not-stalled",
                                     "first data-stage IN of request %r, which %s, not STALLed" % (t.su, t.who()))
                        elif t.cls == "claimed" and first:
                            tags.add("claimed:in-data-answered" if resp.is_data else "claimed:in-data-NOT-answered")
                    elif not t.in_data:
                        first, t.first_in_seen = not t.first_in_seen, True
                        t.status_started = True
                        if t.judged:
                            tags.add("judged:status-in:%s:%s" % (t.cls, "after-out-data" if t.has_out_data else "no-data"))
                            if resp.is_hs(STALL):
                                t.stalled = True
                            elif first and not t.stalled:
                                fail(k, "c10-unclaimed-status-in-not-stalled",
                                     "status stage (first IN) of request %r, which %s, not STALLed" % (t.su, t.who()))
                        elif t.cls == "claimed" and first:
                            tags.add("claimed:status-zlp" if (resp.is_data and not resp.payload) else "claimed:status-NOT-zlp")
                elif ep == 0 and cur is not None and pid == O and cur.in_data:
                    cur.status_started = True
        elif kind == "data":
            if tok == (S, 0) and prev is not None and prev[0] == "tok":
                if ev[1] == D0 and ev[3] and len(ev[2]) == 8 and resp.is_hs(ACK):
                    cur = _Transfer(ev[2], classify(layout, ev[2]))
                    tags.add("class:" + cur.cls)
            elif tok == (O, 0) and prev is not None and prev[0] == "tok" and cur is not None and cur.judged:
                t = cur
                if resp.is_hs(ACK) or resp.is_data:
                    fail(k, "c10-unclaimed-answered", "request %r, which %s: OUT data on ep0 answered" % (t.su, t.who()))
                if t.in_data:
                    tags.add("judged:status-out:" + t.cls)
                    if resp.is_hs(STALL):
                        t.stalled = True
                    elif ev[3] and not t.status_data_seen and not t.stalled:
                        fail(k, "c10-unclaimed-status-out-not-stalled",
                             "status stage (first well-formed OUT) of request %r, which %s, not STALLed" % (t.su, t.who()))
                    if ev[3]:
                        t.status_data_seen = True
                else:
                    tags.add("judged:out-data:" + t.cls)
        elif kind == "reset":
            cur = None
        if cur is not None and cur.judged and (r.address != addr or r.configuration != cfgv):
            fail(k, "c10-unclaimed-state-change", "address %d -> %d, configuration %d -> %d while handling request %r, which %s"
                 % (addr, r.address, cfgv, r.configuration, cur.su, cur.who()))
        addr, cfgv = r.address, r.configuration
        prev = ev
    return fails


# ----------------------------------------------------------------------------- cases
def gen_cases(tier, rng):
    n = {"quick": 6, "widen": 16}.get(tier, 40)
    out = []
    for k in range(n):
        for which in ("nostd", "skip"):
            out.append({"kind": "unclaimed", "layout_kind": which, "seed": rng.u64(), "k": k,
                        "transfers": 20 if tier == "quick" else 28})
    return out


def run_case(desc):
    rng = Rng(desc["seed"])
    tags = set()
    layout = desc.get("layout") or make_layout(rng.fork("layout"), desc["layout_kind"])
    h = FallbackHarness(layout, rng.fork("timing"))
    if desc.get("stimulus"):
        script = [DH.decode_event(row) for row in desc["stimulus"]]
    else:
        script = host_script(rng.fork("host"), layout, desc["transfers"], tags)
    log = h.run(script)
    inputs = [DH.encode_event(r.event) for r in log]
    outputs = [[r.address, r.configuration] + r.resp.encode() for r in log]
    fails = monitor(log, layout, tags)
    tags.add("layout:" + layout["which"])
    tags.add("mode:unclaimed")
    d = dict(desc)
    d["layout"] = layout
    cfg = [0 if layout["which"] == "nostd" else 1, len(layout["handlers"]), len(layout["skip"])]
    return Case(cfg, inputs, outputs, fails, sorted(tags), d, NAMES_IN, NAMES_OUT, lean=False)
