"""C12 — endpoints only act on tokens for their own endpoint number.

Three kinds of cases (first integer of the Lean configuration line selects the model, Driver/EpDev.lean):

  dev   the REAL `USBDevice` with control + 2 stream IN + 2 stream OUT + 1 status endpoint (same and different
        numbers in the two directions) under an adaptive legal host (harness/props/ep_util.py), compared event by
        event with the Lean event-level model `EpDev.step`; MONITOR = differential experiment on the real
        device: the same schedule is run again with every transaction, token and stream event that does not
        belong to endpoint k (or to the control endpoint) deleted, for several k, and endpoint k's responses
        (kind, PID = toggle, payload) and delivered data must be identical; plus: a token nobody owns is never
        answered.
  gate  the real `USBStreamInEndpoint` cycle by cycle against `InGate.epStep` (random interface activity,
        tokens for its own and for other endpoint numbers); monitor: no NAK / no start of a transmission in a
        cycle whose token is not an IN token for its number.
  mux   the real `USBEndpointMultiplexer` with 1..5 interfaces against `EpMux.step` (one-hot and non-one-hot
        valid patterns); monitor: with exactly one valid interface the shared stream carries that interface's
        payload/first/last.
"""
from harness.common.framework import Case
from harness.common.rng import Rng
from harness.common import sim
from harness.common import devharness as DH
from harness.common import usbref as U
from harness.props import ep_util as E

PROP = "C12"
# the refinement lemmas cycle level -> event level, one file per endpoint kind (import Props.C12)
REFINE_MODULES = ["LunaVerif.Lemmas.C12SigRefine", "LunaVerif.Lemmas.C12InRefine", "LunaVerif.Lemmas.C12OutRefine"]
LEAN_MODULES = ["LunaVerif.Props.C12"] + REFINE_MODULES
DRIVER = E.DRIVER
REQUIRED_THEOREMS = ["in_step_foreign_is_silent", "out_step_foreign_is_silent", "sig_step_foreign_is_silent",
                     "foreign_transaction_invisible", "mux_passes_selected", "at_most_one_answers",
                     "sig_cycle_refines_event", "sig_cycle_refines_run", "in_cycle_refines_event", "in_cycle_refines_run",
                     "out_cycle_refines_event", "out_cycle_refines_run", "out_cycle_refines_legal"]
RULE = ("dev: adaptive legal host schedules (IN/OUT/PING on 5 endpoints, unowned tokens, other devices, lost "
        "handshakes, retries, wrong PIDs, bad CRCs, control transfers incl. CLEAR_FEATURE(ENDPOINT_HALT)) on a "
        "random endpoint layout, each re-run with the foreign traffic deleted for 3 target endpoints; gate/mux: "
        "random per-cycle interface activity; evaluations = host events (dev) or clock cycles (gate, mux)")
ASSUMPTIONS = [
    "LegalHost (EpDev.LegalHost): USB 2.0 §8.5 transaction formats; a host handshake only directly after a DATA "
    "packet of this device; OUT packets no longer than the endpoint's max packet size and fitting into its FIFO",
    "handshakes exchanged with OTHER DEVICES on a shared bus are outside the quantifier (DESIGN §6 C12 note)",
    "stream (producer/consumer/signal) events happen between transactions (DESIGN appendix D)",
    "at most one endpoint per (number, direction) (EpDev.wellFormed)",
    "out_cycle_refines_event/_run (C12Out.EvOk / histOk): a data packet received while the token registers name the endpoint "
    "follows a token accepted by this device and fits its FIFO; the clock cycles of every data packet are a transaction of "
    "C13's LegalHost acceptor (any byte spacing, any response delay >= 1, one response request "
    "for a CRC-valid packet, none for a corrupted one); every packet on the bus, also for other endpoints, is no longer "
    "than this endpoint's max packet size (C13's acceptor; 8-byte SETUP packets: max_packet_size >= 8); the consumer "
    "reads between transactions and its last read is finalised one cycle later",
]
PARTIAL = ("foreign_transaction_invisible is proved on the event-level model (tied to the real device by event-level "
           "co-simulation and by the differential monitor); the per-cycle lemmas are proved on the cycle-level models "
           "(tied by lock-step co-simulation); the cycle-level models refine the event-level one for every endpoint kind: "
           "status endpoint (sig_cycle_refines_event / _run, little-endian configuration), stream IN endpoint "
           "(in_cycle_refines_event / _run over C11's InXfer model with both packet memories; flush = discard = 0, producer "
           "bytes between transactions) and stream OUT endpoint (out_cycle_refines_event / _run over C13's model and "
           "acceptor, incl. OUT transactions addressed to another device; bus packets longer than the endpoint's max packet "
           "size are outside its hypotheses); the refinement lemmas are per endpoint (slice machine control "
           "endpoint x endpoint), not yet composed into one cycle-level whole-device statement")

I, O, P, S = U.PID_IN, U.PID_OUT, U.PID_PING, U.PID_SETUP


def gen_cases(tier, rng):
    n_dev, n_gate, n_mux, n_txn = {"quick": (9, 24, 12, 110), "widen": (18, 40, 20, 160)}.get(tier, (90, 200, 60, 260))
    out = []
    for k in range(n_dev):
        out.append({"kind": "dev", "seed": rng.u64(), "n_txn": n_txn, "k": k})
    for k in range(n_gate):
        out.append({"kind": "gate", "seed": rng.u64(), "mps": rng.choice([1, 2, 3, 4, 8, 64]), "ep": rng.range(1, 15),
                    "cycles": 1500 if tier == "quick" else 4000, "k": k})
    for k in range(n_mux):
        out.append({"kind": "mux", "seed": rng.u64(), "n": 1 + k % 5, "cycles": 600, "k": k})
    return out


# ----------------------------------------------------------------------------- dev
def differential(h, spec, events, results, targets, fails):
    """Re-run the schedule with everything foreign to endpoint k deleted; k's own events must look the same."""
    own = E.owners(spec, events, results)
    scripts, maps = [], []
    for k in targets:
        keep = [i for i, o in enumerate(own) if o == k or o == "ctl"]
        scripts.append([events[i] for i in keep])
        maps.append(keep)
    logs = h.run_many(scripts) if scripts else []
    for k, keep, log in zip(targets, maps, logs):
        for i, r in zip(keep, log):
            if own[i] != k:
                continue
            a, b = E.obs_of(results[i]), E.obs_of(r)
            if a != b:
                fails.append({"cycle": i, "sig": "c12-foreign-traffic-visible",
                              "what": "endpoint %s: event %d %r is answered %r (app %s) in the full schedule but %r (app %s) "
                                      "when the transactions of the other endpoints are deleted"
                                      % (k, i, events[i][:3], results[i].resp, a[3], r.resp, b[3])})
                return


def run_dev(desc):
    rng = Rng(desc["seed"])
    spec = desc.get("spec") or E.make_spec(rng.fork("spec"))
    h = E.EpHarness(spec, rng.fork("timing"))
    tags = set()
    fails = []
    events, results = E.run_schedule(h, desc, rng, spec, "c12", tags, fails, "c12-babble")
    own = E.owners(spec, events, results)
    # -- nobody answers a token (or its data) that no endpoint of this device owns
    for i, (ev, r, o) in enumerate(zip(events, results, own)):
        if r.resp.kind == DH.RESP_GARBAGE:
            fails.append({"cycle": i, "sig": "c12-garbage", "what": "event %d %r: malformed transmission %r" % (i, ev, r.resp.packets)})
            break
        if o is None and ev[0] in ("tok", "data") and not r.resp.is_none:
            fails.append({"cycle": i, "sig": "c12-unowned-token-answered",
                          "what": "event %d %r is addressed to no endpoint of this device but was answered %r" % (i, ev, r.resp)})
            break
    # -- the differential experiment
    trng = rng.fork("targets")
    cands = [(e[0], e[1]) for e in spec["eps"]]
    trng.shuffle(cands)
    targets = desc.get("targets") or cands[:3]
    targets = [tuple(t) for t in targets]
    if not fails:
        try:
            differential(h, spec, events, results, targets, fails)
        except RuntimeError as ex:
            if "does not end" not in str(ex):
                raise
            fails.append({"cycle": 0, "sig": "c12-babble", "what": "differential re-run: the device transmits without end"})
    ins, outs = E.case_rows(events, results)
    tags |= {"own:%s" % (o[0] if isinstance(o, tuple) else o) for o in own}
    d = dict(desc)
    d["spec"] = spec
    d["targets"] = [list(t) for t in targets]
    return Case(E.cfg_ints(spec), ins, outs, fails, sorted(tags), d, E.NAMES_IN, E.NAMES_OUT)


# ----------------------------------------------------------------------------- gate
GATE_IN = ["tokEp", "isIn", "rfr", "newToken", "ack", "sValid", "sLast", "flush", "discard", "chEnable", "chDir", "chNum", "txReady"]
GATE_OUT = ["nak", "valid", "first", "last", "streamReady", "dataPid"]


def gate_stimulus(rng, mps, ep, cycles, profile="c12"):
    """Token-detector-like activity: a token register (endpoint, PID class) that changes with `new_token`, a
    `ready_for_response` pulse a few cycles later, handshakes, a producer, `tx.ready` patterns and halt-clear
    strobes for this and other endpoints."""
    rows = []
    tok_ep, is_in = 0, 0
    rfr_at = -1
    p_valid = rng.choice([5, 30, 70, 100])
    p_ready = rng.choice([40, 75, 100])
    p_tok = rng.choice([3, 8, 15])
    p_flush = rng.choice([0, 0, 2])
    p_discard = rng.choice([0, 0, 0, 1])
    p_halt = rng.choice([0, 1, 3]) if profile == "c12" else rng.choice([2, 5, 10])
    for t in range(cycles):
        new = 0
        if rng.chance(p_tok):
            new = 1
            tok_ep = ep if rng.chance(55) else rng.choice([0, (ep + 1) % 16, ep ^ 8, rng.below(16)])
            is_in = int(rng.chance(65))
            rfr_at = t + rng.range(1, 4)
        rfr = int(t == rfr_at)
        if rng.chance(1):
            rfr = 1                                         # stray strobes (the model must agree on them too)
        ack = int(rng.chance(6))
        halt = rng.chance(p_halt)
        ch_en = int(halt)
        ch_dir = int(rng.chance(70)) if halt else int(rng.chance(5))
        ch_num = (ep if rng.chance(60) else rng.below(16)) if halt else rng.below(16)
        rows.append([tok_ep, is_in, rfr, new, ack, int(rng.chance(p_valid)), int(rng.chance(25)), int(rng.chance(p_flush)),
                     int(rng.chance(p_discard)), ch_en, ch_dir, ch_num, int(rng.chance(p_ready))])
    return rows


def build_gate(mps, ep):
    from luna.gateware.usb.usb2.endpoints.stream import USBStreamInEndpoint
    dut = USBStreamInEndpoint(endpoint_number=ep, max_packet_size=mps)
    i = dut.interface
    ins = [i.tokenizer.endpoint, i.tokenizer.is_in, i.tokenizer.ready_for_response, i.tokenizer.new_token,
           i.handshakes_in.ack, dut.stream.valid, dut.stream.last, dut.flush, dut.discard,
           i.clear_endpoint_halt_in.enable, i.clear_endpoint_halt_in.direction, i.clear_endpoint_halt_in.number, i.tx.ready]
    outs = [i.handshakes_out.nak, i.tx.valid, i.tx.first, i.tx.last, dut.stream.ready, i.tx_pid_toggle]
    return dut, ins, outs


def run_gate(desc):
    mps, ep = desc["mps"], desc["ep"]
    dut, ins, outs = build_gate(mps, ep)
    stim = desc.get("stimulus") or gate_stimulus(Rng(desc["seed"]), mps, ep, desc["cycles"])
    rows = sim.run_cycles(dut, ins, outs, stim, domain="usb")
    fails = []
    tags = {"gate:mps=%d" % mps}
    sending = False
    armed = False            # an IN token for this endpoint became ready for a response in the previous cycle
    for t, (i, o) in enumerate(zip(stim, rows)):
        own = i[0] == ep and i[1] == 1
        nak, valid, _first, last = o[0], o[1], o[2], o[3]
        if nak and not own:
            fails.append({"cycle": t, "sig": "c12-in-nak-for-foreign-token",
                          "what": "cycle %d: NAK requested while the token register shows endpoint %d is_in=%d (own endpoint %d)" % (t, i[0], i[1], ep)})
            break
        if valid and not sending and not (own or armed):
            fails.append({"cycle": t, "sig": "c12-in-transmits-for-foreign-token",
                          "what": "cycle %d: a transmission starts while the token register shows endpoint %d is_in=%d (own endpoint %d)" % (t, i[0], i[1], ep)})
            break
        if valid and not sending:
            tags.add("gate:packet" if not last else "gate:zlp-or-1byte")
        if nak:
            tags.add("gate:nak")
        # a packet continues until its last byte has been taken
        sending = bool(valid) and not (last and i[12])
        armed = own and bool(i[2])
    return Case([1, mps, ep], stim, rows, fails, sorted(tags), desc, GATE_IN, GATE_OUT)


# ----------------------------------------------------------------------------- mux
MUX_F = ["valid", "first", "last", "payload", "pid", "ack", "nak", "stall", "chEnable", "chDir", "chNum", "addrChg", "newAddr",
         "cfgChg", "newCfg"]


def build_mux(n):
    from luna.gateware.usb.usb2.endpoint import USBEndpointMultiplexer, EndpointInterface
    dut = USBEndpointMultiplexer()
    ifs = [EndpointInterface() for _ in range(n)]
    for i in ifs:
        dut.add_interface(i)

    def fields(i):
        return [i.tx.valid, i.tx.first, i.tx.last, i.tx.payload, i.tx_pid_toggle, i.handshakes_out.ack, i.handshakes_out.nak,
                i.handshakes_out.stall, i.clear_endpoint_halt_out.enable, i.clear_endpoint_halt_out.direction,
                i.clear_endpoint_halt_out.number, i.address_changed, i.new_address, i.config_changed, i.new_config]
    ins = [s for i in ifs for s in fields(i)]
    outs = fields(dut.shared)
    return dut, ins, outs


def mux_stimulus(rng, n, cycles):
    rows = []
    for _ in range(cycles):
        mode = rng.weighted([(5, "one"), (2, "none"), (2, "many")])
        sel = rng.below(n)
        row = []
        for k in range(n):
            v = {"one": int(k == sel), "none": 0, "many": int(rng.chance(60))}[mode]
            strobes = rng.chance(15)
            row += [v, int(v and rng.chance(30)) if mode != "many" else int(rng.chance(30)),
                    int(v and rng.chance(30)) if mode != "many" else int(rng.chance(30)), rng.below(256), rng.below(4),
                    int(strobes and rng.chance(40)), int(strobes and rng.chance(40)), int(strobes and rng.chance(40)),
                    int(rng.chance(8)), int(rng.chance(20)), rng.below(16) if rng.chance(30) else 0,
                    int(rng.chance(8)), rng.below(128), int(rng.chance(8)), rng.below(256)]
        rows.append(row)
    return rows


def run_mux(desc):
    n = desc["n"]
    dut, ins, outs = build_mux(n)
    stim = desc.get("stimulus") or mux_stimulus(Rng(desc["seed"]), n, desc["cycles"])
    rows = sim.run_cycles(dut, ins, outs, stim, domain="usb")
    fails = []
    tags = {"mux:n=%d" % n}
    past = [0] * n
    for t, (i, o) in enumerate(zip(stim, rows)):
        valids = [i[15 * k] for k in range(n)]
        # the PID handed to the packet generator is that of the only interface transmitting now or a cycle ago
        live = [k for k in range(n) if valids[k] or past[k]]
        if len(live) == 1 and o[4] != i[15 * live[0] + 4]:
            fails.append({"cycle": t, "sig": "c12-mux-pid-not-of-transmitter",
                          "what": "cycle %d: only interface %d transmits (now or in the previous cycle) with tx_pid_toggle=%d but the "
                                  "shared tx_pid_toggle is %d" % (t, live[0], i[15 * live[0] + 4], o[4])})
            break
        past = valids
        # the halt-clear strobe of a single driver reaches the endpoints unchanged
        drv = [k for k in range(n) if i[15 * k + 8] or i[15 * k + 9] or i[15 * k + 10]]
        if len(drv) == 1 and tuple(o[8:11]) != tuple(i[15 * drv[0] + 8:15 * drv[0] + 11]):
            fails.append({"cycle": t, "sig": "c12-mux-halt-clear-altered",
                          "what": "cycle %d: interface %d alone drives clear_endpoint_halt_out=%r but the endpoints see %r"
                                  % (t, drv[0], i[15 * drv[0] + 8:15 * drv[0] + 11], list(o[8:11]))})
            break
        if sum(valids) == 1:
            k = valids.index(1)
            want = (1, int(any(i[15 * j + 1] for j in range(n))), int(any(i[15 * j + 2] for j in range(n))), i[15 * k + 3])
            if tuple(o[:4]) != want:
                fails.append({"cycle": t, "sig": "c12-mux-selected-not-passed",
                              "what": "cycle %d: only interface %d is valid but the shared stream shows %r, expected %r" % (t, k, o[:4], want)})
                break
            tags.add("mux:one-hot")
        elif sum(valids) == 0:
            tags.add("mux:idle")
            if o[0]:
                fails.append({"cycle": t, "sig": "c12-mux-valid-without-source", "what": "cycle %d: shared valid without a valid interface" % t})
                break
        else:
            tags.add("mux:collision")
    return Case([2, n], stim, rows, fails, sorted(tags), desc, ["if%d.%s" % (k, f) for k in range(n) for f in MUX_F], MUX_F)


def run_case(desc):
    return {"dev": run_dev, "gate": run_gate, "mux": run_mux}[desc["kind"]](desc)
