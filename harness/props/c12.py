"""C12 — endpoints only act on tokens for their own endpoint number.

Three kinds of cases (first integer of the Lean configuration line selects the model, Driver/EpDev.lean):

  dev   the REAL `USBDevice` with control + 2 stream IN + 2 stream OUT + 1 status endpoint (same and different
        numbers in the two directions) under an adaptive legal host (harness/props/ep_util.py), compared event by
        event with the Lean event-level model `EpDev.step`; MONITOR = differential experiment on the real
        device: the same schedule is run again with every transaction, token and stream event that does not
        belong to endpoint k (or to the control endpoint) deleted, for several k, and endpoint k's responses
        (kind, PID = toggle, payload) and delivered data must be identical; plus: a token nobody owns is never
        answered; plus the host-side toggle ledger (`toggle_ledger`): per IN endpoint the PID the host expects
        next, per OUT endpoint the PID the endpoint has to accept next, both computed from the endpoint's OWN
        history only (its ACKed transactions and completed CLEAR_FEATURE(ENDPOINT_HALT) requests naming exactly
        its number and direction) -- every event that is not the endpoint's own, in particular a halt-clear
        naming the endpoint with the same number in the other direction, must leave them unchanged (the
        differential experiment keeps the control transfers in both runs, so it cannot see a control transfer
        about endpoint X changing endpoint Y).  The host (`C12Host`) regularly plays the shape that needs:
        IN/OUT pair with one number, toggles brought to DATA1, halt-clear of the twin, traffic on both.
  gate  the real `USBStreamInEndpoint` cycle by cycle against `InGate.epStep` (random interface activity,
        tokens for its own and for other endpoint numbers); monitor: no NAK / no start of a transmission in a
        cycle whose token is not an IN token for its number.
  mux   the real `USBEndpointMultiplexer` with 1..5 interfaces against `EpMux.step` (one-hot and non-one-hot
        valid patterns); monitor: with exactly one valid interface the shared stream carries that interface's
        payload/first/last.
"""
from harness.common.framework import Case
from harness.common.rng import Rng
from harness.common import sim
from harness.common import devharness as DH
from harness.common import usbref as U
from harness.props import ep_util as E

PROP = "C12"
# the refinement lemmas cycle level -> event level, one file per endpoint kind (import Props.C12)
REFINE_MODULES = ["LunaVerif.Lemmas.C12SigRefine", "LunaVerif.Lemmas.C12InRefine", "LunaVerif.Lemmas.C12OutRefine"]
LEAN_MODULES = ["LunaVerif.Props.C12"] + REFINE_MODULES
DRIVER = E.DRIVER
REQUIRED_THEOREMS = ["in_step_foreign_is_silent", "out_step_foreign_is_silent", "sig_step_foreign_is_silent",
                     "foreign_transaction_invisible", "mux_passes_selected", "at_most_one_answers",
                     "sig_cycle_refines_event", "sig_cycle_refines_run", "in_cycle_refines_event", "in_cycle_refines_run",
                     "out_cycle_refines_event", "out_cycle_refines_run", "out_cycle_refines_legal", "segOkStrict_imp"]
RULE = ("dev: adaptive legal host schedules (IN/OUT/PING on 5 endpoints, unowned tokens, other devices, lost "
        "handshakes, retries, wrong PIDs, bad CRCs, control transfers incl. CLEAR_FEATURE(ENDPOINT_HALT); bus packets "
        "longer than an OUT endpoint's max packet size: SETUP packets, packets for the other OUT endpoint, OUT packets of "
        "up to 65 bytes for unowned endpoints / other devices) on a "
        "random endpoint layout, each re-run with the foreign traffic deleted for 3 target endpoints; several times "
        "per schedule the twin scenario: the IN and the OUT endpoint sharing a number are brought to DATA1 (either or "
        "both), then CLEAR_FEATURE(ENDPOINT_HALT) names one of them (or an endpoint with another number / a number "
        "nobody has), then both carry traffic and the OUT data is consumed; the toggle ledger judges every data packet "
        "of every IN endpoint and every delivery of every OUT endpoint against the endpoint's own history; gate/mux: "
        "random per-cycle interface activity; evaluations = host events (dev) or clock cycles (gate, mux)")
ASSUMPTIONS = [
    "LegalHost (EpDev.LegalHost): USB 2.0 §8.5 transaction formats; a host handshake only directly after a DATA "
    "packet of this device; OUT packets no longer than the endpoint's max packet size and fitting into its FIFO",
    "handshakes exchanged with OTHER DEVICES on a shared bus are outside the quantifier (DESIGN §6 C12 note)",
    "stream (producer/consumer/signal) events happen between transactions (DESIGN appendix D)",
    "at most one endpoint per (number, direction) (EpDev.wellFormed)",
    "out_cycle_refines_event/_run (C12Out.EvOk / histOk): a data packet received while the token registers name the endpoint "
    "follows a token accepted by this device and fits its FIFO; the clock cycles of every data packet are a transaction of "
    "C13's LegalHost acceptor (any byte spacing, any response delay >= 1, one response request "
    "for a CRC-valid packet, none for a corrupted one); a packet is bounded by the endpoint's max packet size only while "
    "the token registers name the endpoint (OUT) -- the packets of all other transactions on the bus (other endpoints, "
    "other devices, the 8-byte SETUP packets next to a 4-byte endpoint) may have ANY length (C13's acceptor, lenOk; "
    "segOkStrict = the former hypothesis bounding every bus packet, segOkStrict_imp); the consumer "
    "reads between transactions and its last read is finalised one cycle later",
]
PARTIAL = ("foreign_transaction_invisible is proved on the event-level model (tied to the real device by event-level "
           "co-simulation and by the differential monitor); the per-cycle lemmas are proved on the cycle-level models "
           "(tied by lock-step co-simulation); the cycle-level models refine the event-level one for every endpoint kind: "
           "status endpoint (sig_cycle_refines_event / _run, little-endian configuration), stream IN endpoint "
           "(in_cycle_refines_event / _run over C11's InXfer model with both packet memories; flush = discard = 0, producer "
           "bytes between transactions) and stream OUT endpoint (out_cycle_refines_event / _run over C13's model and "
           "acceptor, incl. OUT transactions addressed to another device and bus packets of ANY length for other "
           "endpoints / devices / SETUP transactions); the refinement lemmas are per endpoint (slice machine control "
           "endpoint x endpoint), not yet composed into one cycle-level whole-device statement")

I, O, P, S = U.PID_IN, U.PID_OUT, U.PID_PING, U.PID_SETUP


def gen_cases(tier, rng):
    n_dev, n_gate, n_mux, n_txn = {"quick": (9, 24, 12, 110), "widen": (18, 40, 20, 160)}.get(tier, (90, 200, 60, 260))
    out = []
    for k in range(n_dev):
        out.append({"kind": "dev", "seed": rng.u64(), "n_txn": n_txn, "k": k})
    for k in range(n_gate):
        out.append({"kind": "gate", "seed": rng.u64(), "mps": rng.choice([1, 2, 3, 4, 8, 64]), "ep": rng.range(1, 15),
                    "cycles": 1500 if tier == "quick" else 4000, "k": k})
    for k in range(n_mux):
        out.append({"kind": "mux", "seed": rng.u64(), "n": 1 + k % 5, "cycles": 600, "k": k})
    return out


# ----------------------------------------------------------------------------- dev
def differential(h, spec, events, results, targets, fails):
    """Re-run the schedule with everything foreign to endpoint k deleted; k's own events must look the same."""
    own = E.owners(spec, events, results)
    scripts, maps = [], []
    for k in targets:
        keep = [i for i, o in enumerate(own) if o == k or o == "ctl"]
        scripts.append([events[i] for i in keep])
        maps.append(keep)
    logs = h.run_many(scripts) if scripts else []
    for k, keep, log in zip(targets, maps, logs):
        for i, r in zip(keep, log):
            if own[i] != k:
                continue
            a, b = E.obs_of(results[i]), E.obs_of(r)
            if a != b:
                fails.append({"cycle": i, "sig": "c12-foreign-traffic-visible",
                              "what": "endpoint %s: event %d %r is answered %r (app %s) in the full schedule but %r (app %s) "
                                      "when the transactions of the other endpoints are deleted"
                                      % (k, i, events[i][:3], results[i].resp, a[3], r.resp, b[3])})
                return


class C12Host(E.EpHost):
    """EpHost + the twin scenario: what a host does around a pipe error on ONE endpoint of a bulk pair
    (libusb_clear_halt on the OUT endpoint while the IN endpoint is in the middle of its DATA0/DATA1 sequence, and
    the other way round).  Built from EpHost's own (legal) transactions."""

    P_TWIN = 7            # per schedule step, in percent

    def __init__(self, *a, **kw):
        super().__init__(*a, **kw)
        self.pairs = [(i, o) for i in self.ins for o in self.outs if i[1] == o[1]]

    def clear_halt_of(self, idx):
        """A complete CLEAR_FEATURE(ENDPOINT_HALT) with this wIndex; True when the host ACKed the status ZLP."""
        yield from self.emit(["tok", S, self.addr, 0])
        r = yield from self.emit(["data", U.PID_DATA0, DH.setup_bytes(0x02, 1, 0, idx, 0), 1])
        if not r.resp.is_hs(U.PID_ACK):
            return False
        r = yield from self.emit(["tok", I, self.addr, 0])
        if not r.resp.is_data:
            return False
        yield from self.emit(["hs", U.PID_ACK])
        return True

    def in_to_data1(self, e):
        """ACKed packets on stream IN endpoint e until an ACKed DATA0 packet: the next one is DATA1."""
        rng = self.rng
        for _ in range(5):
            r = yield from self.emit(["tok", I, self.addr, e[1]])
            if r.resp.is_data:
                yield from self.emit(["hs", U.PID_ACK])
                if r.resp.pid == U.PID_DATA0:
                    return True
            else:
                yield from self.emit(["produce", e[1], rng.bytes(rng.range(1, max(1, e[2] - 1))), 1])
        return False

    def out_to_data1(self, e):
        """Accepted packets on stream OUT endpoint e until the host's toggle is DATA1."""
        for _ in range(4):
            if self.out_pid[e[1]] == 1:
                return True
            if E.out_depth(e) - self.out_fill[e[1]] < e[2]:
                yield from self.consume(e)
            # never more than the room the host knows of (legal host: an OUT packet fits into the FIFO)
            n = min(self.rng.range(1, min(e[2], 3)), max(0, E.out_depth(e) - self.out_fill[e[1]]))
            yield from self.emit(["tok", O, self.addr, e[1]])
            r = yield from self.emit(["data", U.PID_DATA1 if self.out_pid[e[1]] else U.PID_DATA0, self.rng.bytes(n), 1])
            if r.resp.is_hs(U.PID_ACK):
                self.out_fill[e[1]] += n
                self.out_pid[e[1]] ^= 1
        return self.out_pid[e[1]] == 1

    def twin(self):
        rng = self.rng
        if not self.pairs:
            return
        ei, eo = rng.choice(self.pairs)
        n = ei[1]
        prep = rng.weighted([(4, "both"), (3, "in"), (2, "out"), (1, "none")])
        ok_in = ok_out = False
        if prep in ("both", "in"):
            ok_in = yield from self.in_to_data1(ei)
        if prep in ("both", "out"):
            ok_out = yield from self.out_to_data1(eo)
        others = [x for x in range(1, 16) if x != n]
        idx = rng.weighted([(5, n), (4, 0x80 | n), (1, rng.choice(others)), (1, 0x80 | rng.choice(others))])
        idx |= rng.choice([0, 0, 0, 0x10, 0x7000])          # reserved bits of wIndex are ignored
        done = yield from self.clear_halt_of(idx)
        if done:
            self.tag("twin:clear-%s:%s%s" % ("in" if idx & 0x80 else "out", "in@1" if ok_in else "in@?", ",out@1" if ok_out else ",out@?")
                     if (idx & 0xF) == n else "twin:clear-other-number")
            if not idx & 0x80 and (idx & 0xF) in self.out_pid:
                self.out_pid[idx & 0xF] = 0                 # the host restarts the OUT endpoint it named at DATA0
        # traffic on both endpoints of the pair (in either order), the OUT data read back
        steps = ["in", "out"] if rng.chance(50) else ["out", "in"]
        for s_ in steps + ([rng.choice(steps)] if rng.chance(40) else []):
            if s_ == "in":
                yield from self.produce(ei)
                yield from self.in_txn(ei[1], "in")
            else:
                yield from self.out_txn(eo)
        yield from self.consume(eo)

    def script(self, _harness):
        """EpHost.script with the twin scenario as a third kind of step."""
        rng = self.rng
        for _ in range(self.n_txn):
            if self.pairs and rng.chance(self.P_TWIN):
                yield from self.twin()
            elif rng.chance(10):
                yield from self.control()
            else:
                yield from self.bulk()
        # drain: what the OUT endpoints still hold, and one more packet from every IN endpoint
        for e in self.outs:
            yield from self.emit(["consume", e[1], 100000])
        for e in self.ins + self.sigs:
            r = yield from self.emit(["tok", I, self.addr, e[1]])
            if r.resp.is_data:
                yield from self.emit(["hs", U.PID_ACK])


def run_schedule(h, desc, rng, spec, tags, fails):
    """ep_util.run_schedule with the C12 host."""
    try:
        if desc.get("stimulus"):
            events = [DH.decode_event(r) for r in desc["stimulus"]]
            results = h.run_many([events])[0]
        else:
            host = C12Host(rng.fork("host"), spec, desc.get("n_txn", 100), "c12")
            results = h.run_many([host.script])[0]
            events = host.events
            tags |= host.tags
    except RuntimeError as ex:
        if "does not end" not in str(ex):
            raise
        results = list(h.log)
        events = [r.event for r in results]
        fails.append({"cycle": len(results), "sig": "c12-babble",
                      "what": "after %d events the device transmits for more than 6000 cycles without end" % len(results)})
    return events, results


def toggle_ledger(spec, events, results, own, fails, tags):
    """Host-side ledger per endpoint, from the endpoint's own history only.

    IN (stream / status) endpoint n: the PID of its next data packet is DATA0 at power-on and after a completed
    CLEAR_FEATURE(ENDPOINT_HALT) with wIndex = 0x80|n, and flips with every packet of n the host ACKed.
    OUT endpoint n: it accepts DATA0 first and after a completed halt-clear with wIndex = n (direction bit clear); an
    ACKed packet carrying the expected PID is delivered and flips the expectation, an ACKed packet with the other PID is
    dropped (a repetition).  Nothing else -- tokens, data, handshakes of other endpoints, control transfers about other
    endpoints, in particular a halt-clear naming the same number in the other direction -- may change either."""
    D0, D1, ACK = U.PID_DATA0, U.PID_DATA1, U.PID_ACK
    in_exp = {e[1]: 0 for e in spec["eps"] if e[0] in ("in", "sig")}
    out_exp = {e[1]: 0 for e in spec["eps"] if e[0] == "out"}
    out_bytes = {n: [] for n in out_exp}          # accepted and not yet consumed
    since = {("in", n): [] for n in in_exp}       # what happened on the bus since the endpoint's previous own event
    since.update({("out", n): [] for n in out_exp})
    awaiting = None            # IN endpoint whose data packet was the previous event's response
    pending_clear = None       # wIndex of a CLEAR_FEATURE(ENDPOINT_HALT) whose SETUP transaction was ACKed
    status_zlp = False         # previous event: the status-stage IN of that request was answered with a ZLP

    def note(text, but=None):
        for key, lst in since.items():
            if key != but:
                lst.append(text)

    def foreign(key):
        lst = since[key]
        txt = ", ".join(lst[-8:]) if lst else "nothing"
        return ("since %s the bus carried%s: %s" % ("this endpoint's previous packet" if key[0] == "in" else
                                                     "the last packet of this endpoint that was read back correctly",
                                                     " (last 8)" if len(lst) > 8 else "", txt))

    for i, (ev, r, o) in enumerate(zip(events, results, own)):
        k = ev[0]
        was_awaiting, awaiting = awaiting, None
        was_zlp, status_zlp = status_zlp, False
        if k == "tok":
            if ev[1] == S:
                pending_clear = None
            if isinstance(o, tuple) and o[0] in ("in", "sig"):
                n = o[1]
                if r.resp.is_data:
                    bit = 1 if r.resp.pid == D1 else 0
                    if r.resp.pid not in (D0, D1) or bit != in_exp[n]:
                        fails.append({"cycle": i, "sig": "c12-in-toggle-changed-by-foreign-traffic",
                                      "what": "event %d %r: IN endpoint %d sent PID %#x, but by its own history (ACKed packets of this "
                                              "endpoint, completed halt-clears with wIndex %#x) its next packet is DATA%d; %s"
                                              % (i, ev, n, r.resp.pid, 0x80 | n, in_exp[n], foreign(("in", n)))})
                        return
                    awaiting = n
                    tags.add("ledger:in-data%d" % bit)
                    since[("in", n)] = []
                    note("IN ep%d->DATA%d" % (n, bit), but=("in", n))
                else:
                    note("IN ep%d->%r" % (n, r.resp), but=("in", n))
            elif isinstance(o, tuple):
                pass                                  # OUT / PING token: noted with its data packet
            elif o == "ctl":
                if ev[1] == I and r.resp.is_data and pending_clear is not None:
                    status_zlp = True
            else:
                note("token %#x addr %d ep %d (nobody's)" % (ev[1], ev[2], ev[3]))
        elif k == "data":
            prev = events[i - 1] if i else None
            if o == "ctl" and prev is not None and prev[0] == "tok" and prev[1] == S and r.resp.is_hs(ACK) and ev[3]:
                su = ev[2]
                if len(su) == 8 and su[0] == 0x02 and su[1] == 1 and su[2] == 0 and su[3] == 0 and su[6] == 0 and su[7] == 0:
                    pending_clear = su[4] | (su[5] << 8)
                note("SETUP %s" % bytes(su).hex())
            elif isinstance(o, tuple) and o[0] == "out" and prev is not None and prev[0] == "tok" and prev[1] == O:
                n = o[1]
                bit = (ev[1] >> 3) & 1
                if ev[3] and r.resp.is_hs(ACK):
                    if bit == out_exp[n]:
                        out_bytes[n] += list(ev[2])
                        out_exp[n] ^= 1
                        tags.add("ledger:out-accept")
                    else:
                        tags.add("ledger:out-repeat")
                note("OUT ep%d DATA%d[%d]->%r" % (n, bit, len(ev[2]), r.resp), but=("out", n))
                since[("out", n)].append("(own) DATA%d[%d]->%r" % (bit, len(ev[2]), r.resp))
        elif k in ("hs", "hs+produce"):
            if ev[1] == ACK and was_awaiting is not None:
                in_exp[was_awaiting] ^= 1
                note("ACK for ep%d" % was_awaiting, but=("in", was_awaiting))
            if ev[1] == ACK and was_zlp and pending_clear is not None:
                n, d_in = pending_clear & 0xF, bool(pending_clear & 0x80)
                if d_in and n in in_exp:
                    in_exp[n] = 0
                    tags.add("ledger:halt-clear-in" + ("+out-twin" if n in out_exp else ""))
                if not d_in and n in out_exp:
                    out_exp[n] = 0
                    tags.add("ledger:halt-clear-out" + ("+in-twin" if n in in_exp else ""))
                named = ("in", n) if d_in else ("out", n)
                note("CLEAR_FEATURE(ENDPOINT_HALT) wIndex %#06x completed" % pending_clear, but=named)
                if named in since:
                    since[named].append("(own) CLEAR_FEATURE(ENDPOINT_HALT) wIndex %#06x completed" % pending_clear)
                pending_clear = None
        elif k == "consume":
            n = ev[1]
            got = [b for (b, _f, _l) in r.delivered]
            want = out_bytes[n][:len(got)]
            if got != want or (len(got) < ev[2] and len(got) != len(out_bytes[n])):
                fails.append({"cycle": i, "sig": "c12-out-toggle-changed-by-foreign-traffic",
                              "what": "event %d %r: OUT endpoint %d delivered %d bytes %r, but by its own history (ACKed packets "
                                      "carrying the PID it expects -- DATA0 first and after a completed halt-clear with wIndex %#x) "
                                      "it holds %d bytes %r: it dropped a packet as a repetition, or accepted a repetition; %s"
                                      % (i, ev, n, len(got), got[:16], n, len(out_bytes[n]), out_bytes[n][:16], foreign(("out", n)))})
                return
            out_bytes[n] = out_bytes[n][len(got):]
            if not out_bytes[n]:
                # everything accepted so far has been read back correctly: what came before the endpoint's last packet is
                # settled; what came after it has not been put to the test yet
                lst = since[("out", n)]
                last_own = max([j for j, x in enumerate(lst) if x.startswith("(own) DATA")], default=-1)
                since[("out", n)] = lst[last_own + 1:]


def run_dev(desc):
    rng = Rng(desc["seed"])
    spec = desc.get("spec") or E.make_spec(rng.fork("spec"))
    h = E.EpHarness(spec, rng.fork("timing"))
    tags = set()
    fails = []
    events, results = run_schedule(h, desc, rng, spec, tags, fails)
    own = E.owners(spec, events, results)
    # -- nobody answers a token (or its data) that no endpoint of this device owns
    for i, (ev, r, o) in enumerate(zip(events, results, own)):
        if r.resp.kind == DH.RESP_GARBAGE:
            fails.append({"cycle": i, "sig": "c12-garbage", "what": "event %d %r: malformed transmission %r" % (i, ev, r.resp.packets)})
            break
        if o is None and ev[0] in ("tok", "data") and not r.resp.is_none:
            fails.append({"cycle": i, "sig": "c12-unowned-token-answered",
                          "what": "event %d %r is addressed to no endpoint of this device but was answered %r" % (i, ev, r.resp)})
            break
    # -- the toggle ledger (own history only)
    if not fails:
        toggle_ledger(spec, events, results, own, fails, tags)
    # -- the differential experiment
    trng = rng.fork("targets")
    cands = [(e[0], e[1]) for e in spec["eps"]]
    cands = trng.shuffle(cands)
    targets = desc.get("targets") or cands[:3]
    targets = [tuple(t) for t in targets]
    if not fails:
        try:
            differential(h, spec, events, results, targets, fails)
        except RuntimeError as ex:
            if "does not end" not in str(ex):
                raise
            fails.append({"cycle": 0, "sig": "c12-babble", "what": "differential re-run: the device transmits without end"})
    ins, outs = E.case_rows(events, results)
    tags |= {"own:%s" % (o[0] if isinstance(o, tuple) else o) for o in own}
    d = dict(desc)
    d["spec"] = spec
    d["targets"] = [list(t) for t in targets]
    return Case(E.cfg_ints(spec), ins, outs, fails, sorted(tags), d, E.NAMES_IN, E.NAMES_OUT)


# ----------------------------------------------------------------------------- gate
GATE_IN = ["tokEp", "isIn", "rfr", "newToken", "ack", "sValid", "sLast", "flush", "discard", "chEnable", "chDir", "chNum", "txReady"]
GATE_OUT = ["nak", "valid", "first", "last", "streamReady", "dataPid"]


def gate_stimulus(rng, mps, ep, cycles, profile="c12"):
    """Token-detector-like activity: a token register (endpoint, PID class) that changes with `new_token`, a
    `ready_for_response` pulse a few cycles later, handshakes, a producer, `tx.ready` patterns and halt-clear
    strobes for this and other endpoints."""
    rows = []
    tok_ep, is_in = 0, 0
    rfr_at = -1
    p_valid = rng.choice([5, 30, 70, 100])
    p_ready = rng.choice([40, 75, 100])
    p_tok = rng.choice([3, 8, 15])
    p_flush = rng.choice([0, 0, 2])
    p_discard = rng.choice([0, 0, 0, 1])
    p_halt = rng.choice([0, 1, 3]) if profile == "c12" else rng.choice([2, 5, 10])
    for t in range(cycles):
        new = 0
        if rng.chance(p_tok):
            new = 1
            tok_ep = ep if rng.chance(55) else rng.choice([0, (ep + 1) % 16, ep ^ 8, rng.below(16)])
            is_in = int(rng.chance(65))
            rfr_at = t + rng.range(1, 4)
        rfr = int(t == rfr_at)
        if rng.chance(1):
            rfr = 1                                         # stray strobes (the model must agree on them too)
        ack = int(rng.chance(6))
        halt = rng.chance(p_halt)
        ch_en = int(halt)
        ch_dir = int(rng.chance(70)) if halt else int(rng.chance(5))
        ch_num = (ep if rng.chance(60) else rng.below(16)) if halt else rng.below(16)
        rows.append([tok_ep, is_in, rfr, new, ack, int(rng.chance(p_valid)), int(rng.chance(25)), int(rng.chance(p_flush)),
                     int(rng.chance(p_discard)), ch_en, ch_dir, ch_num, int(rng.chance(p_ready))])
    return rows


def build_gate(mps, ep):
    from luna.gateware.usb.usb2.endpoints.stream import USBStreamInEndpoint
    dut = USBStreamInEndpoint(endpoint_number=ep, max_packet_size=mps)
    i = dut.interface
    ins = [i.tokenizer.endpoint, i.tokenizer.is_in, i.tokenizer.ready_for_response, i.tokenizer.new_token,
           i.handshakes_in.ack, dut.stream.valid, dut.stream.last, dut.flush, dut.discard,
           i.clear_endpoint_halt_in.enable, i.clear_endpoint_halt_in.direction, i.clear_endpoint_halt_in.number, i.tx.ready]
    outs = [i.handshakes_out.nak, i.tx.valid, i.tx.first, i.tx.last, dut.stream.ready, i.tx_pid_toggle]
    return dut, ins, outs


def run_gate(desc):
    mps, ep = desc["mps"], desc["ep"]
    dut, ins, outs = build_gate(mps, ep)
    stim = desc.get("stimulus") or gate_stimulus(Rng(desc["seed"]), mps, ep, desc["cycles"])
    rows = sim.run_cycles(dut, ins, outs, stim, domain="usb")
    fails = []
    tags = {"gate:mps=%d" % mps}
    sending = False
    armed = False            # an IN token for this endpoint became ready for a response in the previous cycle
    for t, (i, o) in enumerate(zip(stim, rows)):
        own = i[0] == ep and i[1] == 1
        nak, valid, _first, last = o[0], o[1], o[2], o[3]
        if nak and not own:
            fails.append({"cycle": t, "sig": "c12-in-nak-for-foreign-token",
                          "what": "cycle %d: NAK requested while the token register shows endpoint %d is_in=%d (own endpoint %d)" % (t, i[0], i[1], ep)})
            break
        if valid and not sending and not (own or armed):
            fails.append({"cycle": t, "sig": "c12-in-transmits-for-foreign-token",
                          "what": "cycle %d: a transmission starts while the token register shows endpoint %d is_in=%d (own endpoint %d)" % (t, i[0], i[1], ep)})
            break
        if valid and not sending:
            tags.add("gate:packet" if not last else "gate:zlp-or-1byte")
        if nak:
            tags.add("gate:nak")
        # a packet continues until its last byte has been taken
        sending = bool(valid) and not (last and i[12])
        armed = own and bool(i[2])
    return Case([1, mps, ep], stim, rows, fails, sorted(tags), desc, GATE_IN, GATE_OUT)


# ----------------------------------------------------------------------------- mux
MUX_F = ["valid", "first", "last", "payload", "pid", "ack", "nak", "stall", "chEnable", "chDir", "chNum", "addrChg", "newAddr",
         "cfgChg", "newCfg"]


def build_mux(n):
    from luna.gateware.usb.usb2.endpoint import USBEndpointMultiplexer, EndpointInterface
    dut = USBEndpointMultiplexer()
    ifs = [EndpointInterface() for _ in range(n)]
    for i in ifs:
        dut.add_interface(i)

    def fields(i):
        return [i.tx.valid, i.tx.first, i.tx.last, i.tx.payload, i.tx_pid_toggle, i.handshakes_out.ack, i.handshakes_out.nak,
                i.handshakes_out.stall, i.clear_endpoint_halt_out.enable, i.clear_endpoint_halt_out.direction,
                i.clear_endpoint_halt_out.number, i.address_changed, i.new_address, i.config_changed, i.new_config]
    ins = [s for i in ifs for s in fields(i)]
    outs = fields(dut.shared)
    return dut, ins, outs


def mux_stimulus(rng, n, cycles):
    rows = []
    for _ in range(cycles):
        mode = rng.weighted([(5, "one"), (2, "none"), (2, "many")])
        sel = rng.below(n)
        row = []
        for k in range(n):
            v = {"one": int(k == sel), "none": 0, "many": int(rng.chance(60))}[mode]
            strobes = rng.chance(15)
            row += [v, int(v and rng.chance(30)) if mode != "many" else int(rng.chance(30)),
                    int(v and rng.chance(30)) if mode != "many" else int(rng.chance(30)), rng.below(256), rng.below(4),
                    int(strobes and rng.chance(40)), int(strobes and rng.chance(40)), int(strobes and rng.chance(40)),
                    int(rng.chance(8)), int(rng.chance(20)), rng.below(16) if rng.chance(30) else 0,
                    int(rng.chance(8)), rng.below(128), int(rng.chance(8)), rng.below(256)]
        rows.append(row)
    return rows


def run_mux(desc):
    n = desc["n"]
    dut, ins, outs = build_mux(n)
    stim = desc.get("stimulus") or mux_stimulus(Rng(desc["seed"]), n, desc["cycles"])
    rows = sim.run_cycles(dut, ins, outs, stim, domain="usb")
    fails = []
    tags = {"mux:n=%d" % n}
    past = [0] * n
    for t, (i, o) in enumerate(zip(stim, rows)):
        valids = [i[15 * k] for k in range(n)]
        # the PID handed to the packet generator is that of the only interface transmitting now or a cycle ago
        live = [k for k in range(n) if valids[k] or past[k]]
        if len(live) == 1 and o[4] != i[15 * live[0] + 4]:
            fails.append({"cycle": t, "sig": "c12-mux-pid-not-of-transmitter",
                          "what": "cycle %d: only interface %d transmits (now or in the previous cycle) with tx_pid_toggle=%d but the "
                                  "shared tx_pid_toggle is %d" % (t, live[0], i[15 * live[0] + 4], o[4])})
            break
        past = valids
        # the halt-clear strobe of a single driver reaches the endpoints unchanged
        drv = [k for k in range(n) if i[15 * k + 8] or i[15 * k + 9] or i[15 * k + 10]]
        if len(drv) == 1 and tuple(o[8:11]) != tuple(i[15 * drv[0] + 8:15 * drv[0] + 11]):
            fails.append({"cycle": t, "sig": "c12-mux-halt-clear-altered",
                          "what": "cycle %d: interface %d alone drives clear_endpoint_halt_out=%r but the endpoints see %r"
                                  % (t, drv[0], i[15 * drv[0] + 8:15 * drv[0] + 11], list(o[8:11]))})
            break
        if sum(valids) == 1:
            k = valids.index(1)
            want = (1, int(any(i[15 * j + 1] for j in range(n))), int(any(i[15 * j + 2] for j in range(n))), i[15 * k + 3])
            if tuple(o[:4]) != want:
                fails.append({"cycle": t, "sig": "c12-mux-selected-not-passed",
                              "what": "cycle %d: only interface %d is valid but the shared stream shows %r, expected %r" % (t, k, o[:4], want)})
                break
            tags.add("mux:one-hot")
        elif sum(valids) == 0:
            tags.add("mux:idle")
            if o[0]:
                fails.append({"cycle": t, "sig": "c12-mux-valid-without-source", "what": "cycle %d: shared valid without a valid interface" % t})
                break
        else:
            tags.add("mux:collision")
    return Case([2, n], stim, rows, fails, sorted(tags), desc, ["if%d.%s" % (k, f) for k in range(n) for f in MUX_F], MUX_F)


def run_case(desc):
    return {"dev": run_dev, "gate": run_gate, "mux": run_mux}[desc["kind"]](desc)
