"""C31 — SuperSpeed scrambling uses the USB3 LFSR and descrambling inverts it.

Tie to /repo:
  (a) translator `harness/translate/affine.py` reads the `next_value` and `value` XOR networks out of
      the elaborated `ScramblerLFSR` into lean/LunaVerif/Generated/AffineLfsr.lean; `Props/C31.lean`
      proves next = 32 serial LFSR steps and value = next 32 keystream bits for all 2^16 states;
  (b) `ScramblerLFSR`, `Scrambler`, `Descrambler` and a Scrambler->Descrambler chain are co-simulated
      cycle by cycle against the Lean model, with a monitor that recomputes the keystream with the
      independent bit-serial Python LFSR (harness/common/usbref.py: usb3_lfsr_bytes);
  (c) the wiring in physical/layer.py: the transmit half of the real `USB3PhysicalLayer` (Scrambler ->
      CTCSkipInserter -> PHY, hold = tx_ctc.sending_skip) is co-simulated against the composed Lean model
      (`Model/Usb3/PhyTx.lean`) and watched by a far-end monitor that descrambles the PHY's tx words with the
      reference LFSR (no advance over SKP words, restart after COM) and requires the link layer's symbols; the
      receive half (CTCSkipRemover -> RxWordAligner -> Descrambler -> RxPacketAligner) is fed a reference-scrambled
      stream with SKP symbols inserted at arbitrary symbol positions and must return the original words, and is
      co-simulated against the composed Lean model (`Model/Usb3/PhyRx.lean`, kind phyrxm) about which
      `Props/C31PhyRx.lean` proves phy_rx_descrambles / phy_rx_of_phy_tx.
"""
from harness.common.framework import Case
from harness.common.rng import Rng
from harness.common import sim
from harness.common import usbref as U
from harness.translate import affine

PROP = "C31"
LEAN_MODULES = ["LunaVerif.Core.XorAlg", "LunaVerif.Props.C31", "LunaVerif.Props.C31Phy",
                "LunaVerif.Lemmas.C31PhyRxStream", "LunaVerif.Props.C31PhyRx"]
DRIVER = "Driver/C31.lean"
TRANSLATORS = [affine.translate_lfsr]
REQUIRED_THEOREMS = [
    "evalHom", "transfer", "lfsr_next_table", "lfsr_value_table",
    "lfsr_next_generated_eq_serial32", "lfsr_value_generated_eq_keystream", "keyBytes_eq_keystream",
    "step_output", "ctrl_symbols_pass", "advance_only_on_transfer", "restart_after_com", "restart_on_clear",
    "lfsr_position", "pair_step", "descramble_scramble_id", "lfsr_default_init_is_spec",
    # the transmit wiring of USB3PhysicalLayer (Props/C31Phy.lean)
    "hold_is_sending_skip", "pins_next_cycle", "reg_held_over_skp", "reg_moves_with_word", "phy_tx_descrambles",
    # the receive wiring of USB3PhysicalLayer (Lemmas/C31PhyRxStream.lean, Props/C31PhyRx.lean)
    "run_split", "aligner_fifoS", "descrambler_on_valid_words", "front_stream", "back_stream",
    "phy_rx_descrambles", "phy_rx_descrambles_from_reset", "lock_on_com4", "phy_rx_descrambles_after_com4",
    "tx_wire_is_refPass", "phy_rx_of_phy_tx",
]
RULE = ("cases = module (ScramblerLFSR / Scrambler / Descrambler / Scrambler->Descrambler chain) x initial_value x "
        "stimulus; words mix data and control symbols, COM (K28.5) is placed in every symbol position, as a data "
        "byte 0xBC without the K flag, and in invalid words; hold bursts (SKP insertion), ready stalls, idle cycles, "
        "enable toggling and clear pulses are interleaved.  Plus the real USB3PhysicalLayer with a PIPEInterface: "
        "transmit half (kind phytx, co-simulated against the composed Lean model and watched by a far-end "
        "descrambling monitor) x traffic mode (C33's link-layer grammar: bursts, mostly-idle, boundary, saturated, "
        "training; skp-mix: non-idle stretches around 177 words and its multiples followed by short idle/data/K/COM "
        "mixes so that SKP words land at every alignment and are followed by every kind of word; enable-toggle; "
        "electrical-idle lead-in and pulses) x scrambling on/off; receive half (kind phyrx, monitor only): a far-end "
        "word stream scrambled with the reference LFSR, SKP symbols inserted as whole words / ordered sets at any "
        "symbol offset / runs of 1-8 / densely / not at all; kind phyrxm: the same stimulus and monitor, the pin "
        "stream started at symbol offset 0..3, and source / raw_source / skip_removed / ctc_bytes_in_buffer / "
        "alignment_offset compared every cycle with the composed Lean model PhyRx.step")
ASSUMPTIONS = [
    "descramble_scramble_id: both instances start from the same register value and see the same clear/enable/hold; "
    "ready is the descrambler's source.ready handed back through the pass-through sink.ready",
    "words are four symbols wide (USBRawSuperSpeedStream default)",
    "phy_tx_descrambles: outside electrical idle with sink.ready high (true from the second cycle after reset, "
    "ready_after_first_cycle); can_send_skp only together with logical idle (C33: link_layer_idle_mux_guarantees_env); "
    "the link layer sends no SKP word of its own; the far end starts from the transmitter's register value and uses "
    "the same enable_scrambling",
    "phy_rx_descrambles / phy_rx_of_phy_tx: the receive path is Locked e (SKP remover invariant of C32, word aligner "
    "at shift e < 4, packet aligner at shift 0, four-symbol registers; true of the reset state with e = 0 - locked_init - "
    "and after COM COM COM COM arrived at offset e - lock_on_com4); PHY words are four symbols; enable_scrambling "
    "constant over the history; the symbols in flight in front of the descrambler followed by the pin symbols with SKP "
    "deleted are the link words (4 symbols of 8 bits each) reference-scrambled from the descrambler's register value "
    "(SKP symbols anywhere in any number; a trailing incomplete word allowed); QuietW: no COM COM COM COM at an offset "
    "other than e in the SKP-free pin stream, no SHP SHP SHP EPF / SLC SLC SLC EPF at a non-zero offset in the link "
    "words.  phy_rx_of_phy_tx in addition: the hypotheses of phy_tx_descrambles for the transmitter, link words without "
    "SKP K-symbols, the receiver's pins carry the transmitter's wire words, refReg s.reg ws0 = st.reg (in step)",
    "the receive path has no back-pressure: every ready in it is constant 1 and source.ready is not read "
    "(physical/layer.py, alignment.py), so the theorems do not mention source.ready",
]
PARTIAL = ("scrambling.py is covered in full, and so is its wiring in physical/layer.py: transmit half (phy_tx_descrambles) "
           "and receive half (Model/Usb3/PhyRx.lean co-simulated; phy_rx_descrambles, phy_rx_of_phy_tx: rx(tx(ws)) = ws).  "
           "What the receive theorems do not cover: enable_scrambling changing DURING a history (they take it constant, "
           "equal on both sides; the transmit theorem and the co-simulation cover toggling); histories in which an "
           "aligner re-aligns (COM COM COM COM at a new offset / SHP SHP SHP EPF or SLC SLC SLC EPF at a non-zero offset: "
           "excluded by the decidable side conditions QuietW, the aligners themselves are C34; lock_on_com4 covers the "
           "cycle in which the word aligner locks) and the packet aligner at a non-zero shift.  After electrical "
           "idle / in the first cycle after reset one word is put on the wire without being transferred "
           "(sink.ready low; C33 observation 2): the theorem and the monitor follow the code there (keystream not "
           "advanced), a far-end receiver would need the next COM to resynchronise; likewise the receiver's descrambler "
           "has consumed the word aligner's zero history word before the first received word "
           "(phy_rx_descrambles_from_reset: in step from the first COM-first word on).")
TRUSTED_EXTRA = [
    "reference LFSR (usbref.usb3_lfsr_bytes, XorAlg.keystream with polynomial 0039h) checked against the first 16 "
    "scrambler output bytes tabulated in USB 3.2 Appendix B",
]

COM = 0xBC
SPEC_TABLE = [0xFF, 0x17, 0xC0, 0x14, 0xB2, 0xE7, 0x02, 0x82, 0x72, 0x6E, 0x28, 0xA6, 0xBE, 0x6D, 0xBF, 0x8D]
assert U.usb3_lfsr_bytes(16)[0] == SPEC_TABLE, "reference LFSR disagrees with USB 3.2 Appendix B"


def key_of(state):
    bs, nxt = U.usb3_lfsr_bytes(4, state)
    return bs, nxt


def le32(bs):
    return sum(b << (8 * i) for i, b in enumerate(bs))


# ------------------------------------------------------------------ cases
def gen_cases(tier, rng):
    n = {"quick": 1, "widen": 3, "thorough": 8}.get(tier, 1)
    cyc = {"quick": 2500, "widen": 3000, "thorough": 4000}.get(tier, 2500)
    out = []
    for k in range(4 * n):
        iv = [0xFFFF, 0x7DBD, None, 0xFFFF][k % 4]
        out.append({"kind": "lfsr", "iv": iv if iv is not None else (rng.bits(16) or 1), "seed": rng.u64(), "k": k,
                    "cycles": cyc})
    for k in range(8 * n):
        cls = ["Scrambler", "Descrambler"][k % 2]
        iv = [None, None, 0xFFFF, 0xFFFF, "rand", "rand", None, None][k % 8]     # None = the class default
        if iv == "rand":
            iv = rng.bits(16) or 1
        out.append({"kind": "scr", "cls": cls, "iv": iv, "seed": rng.u64(), "k": k // 2, "cycles": cyc})
    for k in range(4 * n):
        iv = [0xFFFF, 0x7DBD, None, 0xFFFF][k % 4]
        out.append({"kind": "pair", "iv": iv if iv is not None else (rng.bits(16) or 1), "seed": rng.u64(), "k": k,
                    "cycles": cyc})
    out.append({"kind": "phy"})
    # the wiring in physical/layer.py: transmit half (co-simulated + far-end monitor), receive half (monitor)
    ntx = {"quick": 2, "widen": 5, "thorough": 12}.get(tier, 2)
    nrx = {"quick": 2, "widen": 4, "thorough": 10}.get(tier, 2)
    ltx = {"quick": 1500, "widen": 2400, "thorough": 4000}.get(tier, 1500)
    lrx = {"quick": 700, "widen": 1000, "thorough": 2500}.get(tier, 700)
    for mode in TX_MODES:
        for _ in range(ntx):
            out.append({"kind": "phytx", "mode": mode, "seed": rng.u64(), "len": ltx})
    for mode in RX_MODES:
        for _ in range(nrx):
            out.append({"kind": "phyrx", "mode": mode, "seed": rng.u64(), "len": lrx})
    # receive half again, this time in lock step with the composed Lean model (Model/Usb3/PhyRx.lean); the pin
    # stream additionally starts at every symbol offset 0..3 (the word aligner locks onto the first COM COM COM COM)
    nrm = {"quick": 2, "widen": 3, "thorough": 8}.get(tier, 2)
    k = 0
    for mode in RX_MODES:
        for _ in range(nrm):
            out.append({"kind": "phyrxm", "mode": mode, "seed": rng.u64(), "len": lrx, "offset": [0, 1, 2, 3, 0][k % 5]})
            k += 1
    return out


def rand_word(rng):
    """(data, ctrl): mix of D and K symbols, COM in any position, 0xBC as data, non-COM K in symbol 0."""
    data, ctrl = 0, 0
    style = rng.weighted([(5, "mixed"), (3, "data"), (1, "allk"), (2, "com0"), (1, "fakecom0"), (1, "k0")])
    for i in range(4):
        if style == "data":
            k, b = 0, rng.bits(8)
        elif style == "allk":
            k, b = 1, rng.choice([COM, 0x3C, 0xFB, 0xFD, 0xF7, 0x5C])
        else:
            k = int(rng.chance(30))
            b = rng.choice([COM, 0x3C, 0xFB, 0xFD]) if (k and rng.chance(70)) else rng.choice([rng.bits(8), rng.bits(8), COM, 0])
        if i == 0 and style == "com0":
            k, b = 1, COM
        if i == 0 and style == "fakecom0":
            k, b = 0, COM
        if i == 0 and style == "k0":
            k, b = 1, rng.choice([0x3C, 0xFB, 0xBD, 0x9C])
        data |= b << (8 * i)
        ctrl |= k << i
    return data, ctrl


def stim_scr(rng, cycles, k):
    rows = []
    enable = 1
    p_valid = [95, 70, 100, 50][k % 4]
    p_ready = [95, 100, 60, 50][k % 4]
    while len(rows) < cycles:
        if rng.chance(3):
            enable ^= 1
        clear = int(rng.chance(1))
        burst = rng.choice([1, 1, 1, 2, 3]) if rng.chance(6) else 0     # SKP insertion: hold for a few cycles
        data, ctrl = rand_word(rng)
        for h in range(burst):
            rows.append([0, enable, 1, int(rng.chance(p_valid)), data, ctrl, int(rng.chance(p_ready))])
        rows.append([clear, enable, 0, int(rng.chance(p_valid)), data, ctrl, int(rng.chance(p_ready))])
    return rows[:cycles]


NAMES_IN = ["clear", "enable", "hold", "sink_valid", "sink_data", "sink_ctrl", "source_ready"]
NAMES_OUT = ["source_valid", "source_data", "source_ctrl", "sink_ready", "lfsr_state"]


def monitor_scr(iv, stim, rows, who, col=0):
    """The property on the real trace: keystream of the serial LFSR, data symbols XORed, control symbols and
    handshake passed, register moves only on a transfer, restarts after clear / COM in symbol 0."""
    fails, tags = [], set()
    state = iv
    for t, ((clr, en, hold, valid, data, ctrl, ready), got) in enumerate(zip(stim, rows)):
        g_valid, g_data, g_ctrl, g_ready, g_state = got[col:col + 5]
        key, nxt = key_of(state)
        exp = 0
        for i in range(4):
            b = (data >> (8 * i)) & 0xFF
            if en and not (ctrl >> i) & 1:
                b ^= key[i]
            exp |= b << (8 * i)
        if not fails:
            if g_data != exp:
                bad = [i for i in range(4) if (g_data >> (8 * i)) & 0xFF != (exp >> (8 * i)) & 0xFF]
                kinds = ["K" if (ctrl >> i) & 1 else "D" for i in bad]
                fails.append({"cycle": t, "sig": "scr-data", "what":
                              "%s: word data=%#010x ctrl=%#x enable=%d leaves as %#010x; with the LFSR keystream "
                              "bytes %s (register %#06x) it must be %#010x (symbols %s differ: %s)"
                              % (who, data, ctrl, en, g_data, [hex(b) for b in key], state, exp, bad, kinds)})
            elif (g_valid, g_ctrl, g_ready) != (valid, ctrl, ready):
                fails.append({"cycle": t, "sig": "scr-passthrough", "what":
                              "%s: valid/ctrl/ready must pass through: in (%d,%#x,%d) out (%d,%#x,%d)"
                              % (who, valid, ctrl, ready, g_valid, g_ctrl, g_ready)})
            elif g_state != le32(key):
                fails.append({"cycle": t, "sig": "scr-lfsr-state", "what":
                              "%s: lfsr_state=%#010x but the serial LFSR at register %#06x gives %#010x"
                              % (who, g_state, state, le32(key))})
        comma = valid and (data & 0xFF) == COM and (ctrl & 1)
        if clr or comma:
            state = iv
            tags.add("restart-com" if comma else "restart-clear")
            if comma and hold:
                tags.add("restart-com-while-held")
        elif valid and ready and not hold:
            state = nxt
            tags.add("transfer")
        else:
            tags.add("held" if hold else ("stall" if valid else "idle"))
        for i in range(4):
            if (data >> (8 * i)) & 0xFF == COM:
                tags.add("com@%d%s" % (i, "" if (ctrl >> i) & 1 else "-as-data"))
        tags.add("enable=%d" % en)
    return fails, tags


def run_lfsr(desc):
    from luna.gateware.usb.usb3.physical.scrambling import ScramblerLFSR
    iv = desc["iv"]
    dut = ScramblerLFSR(initial_value=iv)
    if desc.get("stimulus"):
        stim = desc["stimulus"]
    else:
        rng = Rng(desc["seed"])
        pa = [100, 85, 50, 95][desc.get("k", 0) % 4]
        stim = [[int(rng.chance(1)), int(rng.chance(pa))] for _ in range(desc["cycles"])]
    rows = sim.run_cycles(dut, [dut.clear, dut.advance], [dut.value], stim, domain="ss")
    fails, tags = [], set()
    state = iv
    for t, ((clr, adv), (val,)) in enumerate(zip(stim, rows)):
        key, nxt = key_of(state)
        if val != le32(key) and not fails:
            fails.append({"cycle": t, "sig": "lfsr-value", "what":
                          "ScramblerLFSR(initial_value=%#06x).value = %#010x in cycle %d; the x^16+x^5+x^4+x^3+1 serial "
                          "LFSR at register %#06x gives the keystream bytes %s = %#010x"
                          % (iv, val, t, state, [hex(b) for b in key], le32(key))})
        if clr:
            state = iv
            tags.add("lfsr-clear+advance" if adv else "lfsr-clear")
        elif adv:
            state = nxt
            tags.add("lfsr-advance")
        else:
            tags.add("lfsr-hold")
    return Case([0, iv, iv], stim, rows, fails, sorted(tags), desc, ["clear", "advance"], ["value"])


def run_scr(desc):
    from luna.gateware.usb.usb3.physical import scrambling
    cls = getattr(scrambling, desc["cls"])
    dut = cls() if desc["iv"] is None else cls(initial_value=desc["iv"])
    iv = dut._initial_value
    stim = desc.get("stimulus") or stim_scr(Rng(desc["seed"]), desc["cycles"], desc.get("k", 0))
    rows = sim.run_cycles(dut, [dut.clear, dut.enable, dut.hold, dut.sink.valid, dut.sink.data, dut.sink.ctrl,
                                dut.source.ready],
                          [dut.source.valid, dut.source.data, dut.source.ctrl, dut.sink.ready, dut.lfsr_state],
                          stim, domain="ss")
    who = "%s(initial_value=%#06x)" % (desc["cls"], iv)
    fails, tags = monitor_scr(iv, stim, rows, who)
    tags.add(desc["cls"] + ("-default-init" if desc["iv"] is None else ""))
    return Case([1, iv, iv], stim, rows, fails, sorted(tags), desc, NAMES_IN, NAMES_OUT)


def make_pair(iv):
    from amaranth import Module, Elaboratable
    from luna.gateware.usb.usb3.physical.scrambling import Scrambler, Descrambler

    class Pair(Elaboratable):
        def __init__(self):
            self.s = Scrambler(initial_value=iv)
            self.d = Descrambler(initial_value=iv)

        def elaborate(self, platform):
            m = Module()
            m.submodules.s = self.s
            m.submodules.d = self.d
            m.d.comb += [
                self.d.sink.stream_eq(self.s.source),
                self.d.clear.eq(self.s.clear), self.d.enable.eq(self.s.enable), self.d.hold.eq(self.s.hold),
            ]
            return m
    return Pair()


def run_pair(desc):
    iv = desc["iv"]
    p = make_pair(iv)
    s, d = p.s, p.d
    stim = desc.get("stimulus") or stim_scr(Rng(desc["seed"]), desc["cycles"], desc.get("k", 0))
    rows = sim.run_cycles(p, [s.clear, s.enable, s.hold, s.sink.valid, s.sink.data, s.sink.ctrl, d.source.ready],
                          [s.source.valid, s.source.data, s.source.ctrl, s.sink.ready, s.lfsr_state,
                           d.source.valid, d.source.data, d.source.ctrl, d.sink.ready, d.lfsr_state], stim, domain="ss")
    fails, tags = monitor_scr(iv, stim, rows, "Scrambler(initial_value=%#06x) feeding a Descrambler" % iv)
    for t, (i, o) in enumerate(zip(stim, rows)):
        if (o[5], o[6], o[7]) != (i[3], i[4], i[5]) and not fails:
            fails.append({"cycle": t, "sig": "pair-roundtrip", "what":
                          "Scrambler->Descrambler from the same state %#06x: word data=%#010x ctrl=%#x valid=%d comes "
                          "back as data=%#010x ctrl=%#x valid=%d (scrambled form %#010x, enable=%d hold=%d)"
                          % (iv, i[4], i[5], i[3], o[6], o[7], o[5], o[1], i[1], i[2])})
    tags.add("pair")
    return Case([2, iv, iv], stim, rows, fails, sorted(tags), desc, NAMES_IN,
                ["s." + n for n in NAMES_OUT] + ["d." + n for n in NAMES_OUT])


def run_phy(desc):
    """USB3PhysicalLayer (physical/layer.py) is elaborated with a stand-in PIPE PHY and the Scrambler /
    Descrambler instances it creates are inspected: USB 3.2 Appendix B restarts the LFSR at FFFFh on both
    sides of the link, so both must be built with that value (monitor only, no simulation)."""
    from amaranth import Signal
    from luna.gateware.usb.usb3.physical.layer import USB3PhysicalLayer
    from luna.gateware.usb.usb3.physical.scrambling import Scrambler

    class StandInPhy:
        def __getattr__(self, name):
            if name.startswith("__"):
                raise AttributeError(name)
            s = Signal(32 if ("data" in name and "datak" not in name) else 4, name="phy_" + name)
            object.__setattr__(self, name, s)
            return s

    m = USB3PhysicalLayer(phy=StandInPhy(), sync_frequency=125e6).elaborate(None)
    subs = [v[0] if isinstance(v, tuple) else v for v in getattr(m, "_named_submodules", {}).values()]
    subs += [v[0] if isinstance(v, tuple) else v for v in getattr(m, "_anon_submodules", [])]
    found = [s for s in subs if isinstance(s, Scrambler)]
    if len(found) < 2:
        raise RuntimeError("could not locate the scrambler and descrambler inside USB3PhysicalLayer")
    fails = []
    for s in found:
        if s._initial_value != 0xFFFF and not fails:
            fails.append({"cycle": 0, "sig": "phy-scrambler-init", "what":
                          "USB3PhysicalLayer builds its %s with initial_value=%#06x; the USB3 LFSR restarts at 0xffff"
                          % (type(s).__name__, s._initial_value)})
    return Case([9, 0, 0], [[0]], [[None]], fails, ["phy-" + type(s).__name__ for s in found], desc, ["-"], ["-"],
                lean=False)



# ------------------------------------------------------------------ the wiring in physical/layer.py
# Reused from C33 (read-only): the link-layer traffic grammar (bursts of link commands / header / data packets /
# training sets / random words interleaved with logical idle, can_send_skp = 1 exactly on the idle words).
from harness.props import c33 as C33   # noqa: E402

SKPW = (0x3C3C3C3C, 0xF)
IDLE = (0, 0)
COM4 = (0xBCBCBCBC, 0xF)
TX_MODES = ["skp-mix", "bursts", "skp-mix", "boundary", "enable-toggle", "saturated", "mostly-idle",
            "electrical-idle", "training"]
RX_MODES = ["skp-words", "skp-sets", "skp-any", "dense", "no-skp"]


def scr_word(d, c, en, key):
    out = 0
    for i in range(4):
        b = (d >> (8 * i)) & 0xFF
        if en and not (c >> i) & 1:
            b ^= key[i]
        out |= b << (8 * i)
    return out


def is_com0(d, c):
    return (d & 0xFF) == COM and (c & 1) == 1


def traffic_skp_mix(rng, L):
    """Long non-idle stretches (around 177 words = two SKP ordered sets owed, and its multiples) followed by short
    idle / data mixes: the SKP word replaces the first idle word offered after it falls due, at every alignment,
    and is followed by idle, pure data, K, mixed, COM-first or framing words."""
    rows = []
    while len(rows) < L:
        n = rng.choice([rng.range(150, 200), rng.range(170, 185), rng.range(350, 372), rng.range(20, 120),
                        rng.range(1, 12), rng.range(1, 12)])
        for _ in range(n):
            if rng.chance(85):
                rows.append((rng.bits(32), 0, 0))
            elif rng.chance(50):
                rows.append((0, 0, 0))                 # looks like logical idle, is packet data
            else:
                rows.append(rand_word(rng) + (0,))
        for _ in range(rng.range(1, 5)):
            rows += [(0, 0, 1)] * rng.choice([1, 1, 1, 2, 3, 9])
            k = rng.choice(["data", "data", "k", "mixed", "hp", "zeros", "com0", "none"])
            if k == "data":
                rows += [(rng.bits(32), 0, 0)] * 1 + [(rng.bits(32), 0, 0) for _ in range(rng.range(0, 3))]
            elif k == "k":
                rows.append((0xF7FDFDFD, 0xF, 0))
            elif k == "mixed":
                rows.append(rand_word(rng) + (0,))
            elif k == "hp":
                rows += [(d, c, 0) for d, c in C33._burst(rng, "hp")]
            elif k == "zeros":
                rows += [(0, 0, 0)] * rng.range(1, 3)
            elif k == "com0":
                rows.append((0xBC | (rng.bits(24) << 8), 1, 0))
    return rows[:L]


def stim_phytx(mode, rng, L):
    """rows: sink.valid sink.data sink.ctrl can_send_skp enable_scrambling tx_electrical_idle"""
    if mode in ("bursts", "mostly-idle", "boundary", "saturated", "training"):
        rows = C33.stim_phy(mode, rng, L)
        if rng.chance(70):
            for r in rows:
                r[4] = 1
        return rows
    scr = 0 if (mode == "skp-mix" and rng.chance(15)) else 1
    rows = []
    eidle, left = 0, 0
    if mode == "electrical-idle":
        eidle, left = 1, rng.range(1, 40)
    tr = traffic_skp_mix(rng, L) if (mode == "skp-mix" or rng.chance(50)) else C33.make_traffic("bursts", rng, L)
    for (d, c, idle) in tr:
        if mode == "enable-toggle" and rng.chance(2):
            scr ^= 1
        if mode == "electrical-idle":
            if left == 0:
                eidle = 0
                if rng.chance(1):
                    eidle, left = 1, rng.choice([1, 1, 2, 3, 10])
            else:
                left -= 1
        # sink.valid is not used by the physical layer (scrambler.sink.valid is tied to 1)
        rows.append([1 if rng.chance(90) else 0, d, c, idle, scr, eidle])
    return rows


def monitor_phytx(stim, rows):
    """The property at the PHY's transmit pins, seen from the far end: the word on tx_data/tx_datak one cycle after
    the link layer offered a word is either that word scrambled with the reference keystream at the position
    'number of words transferred since the restart' (D symbols XOR key bytes, K symbols as they are), or a SKP word
    standing in for a logical-idle word the link layer allowed to be replaced; the keystream does not move over a
    SKP word (nor over a word that was not transferred: sink.ready low) and restarts after a word with COM in
    symbol 0.  Where the SKP words are is read off the wire, no insertion schedule is assumed."""
    fails, tags = [], set()
    state, synced, pos = 0xFFFF, True, 0
    after_skp = False
    for t in range(len(stim) - 1):
        _v, d, c, can, scr, _e = stim[t]
        rdy = rows[t][2]
        nd, nk = rows[t + 1][0], rows[t + 1][1]
        dark = stim[t + 1][5]
        key, nxt = key_of(state)
        exp = (scr_word(d, c, scr, key), c)
        ins = False
        if dark:
            # electrical idle: the pins carry nothing; whether this idle word became a SKP word cannot be seen
            tags.add("tx-electrical-idle")
            if can and (d, c) == IDLE:
                synced = False
        elif synced:
            if (nd, nk) == exp:
                if after_skp:
                    tags.add("word-after-skp:" + ("idle" if (d, c) == IDLE else "D" if c == 0 else
                                                  "K" if c == 0xF else "mixed"))
            elif (nd, nk) == SKPW and can and (d, c) == IDLE:
                ins = True
                tags.add("skp-inserted" + ("-back-to-back" if after_skp else ""))
            else:
                far = (scr_word(nd, nk, scr, key), nk)
                if (nd, nk) == SKPW:
                    fails.append({"cycle": t + 1, "sig": "phy-tx-word-lost", "what":
                                  "the PHY transmits a SKP word in place of the link layer's word %08x/%x "
                                  "(can_send_skp=%d): only logical idle offered with can_send_skp=1 may be replaced"
                                  % (d, c, can)})
                else:
                    fails.append({"cycle": t + 1, "sig": "phy-tx-descramble", "what":
                                  "PHY tx word %08x/%x: a far-end descrambler (reference LFSR register %#06x = %d words "
                                  "transferred since the restart, SKP words not counted, enable_scrambling=%d) recovers "
                                  "%08x/%x, but the link layer handed over %08x/%x in the cycle before (sink.ready=%d%s); "
                                  "the correctly scrambled word is %08x/%x"
                                  % (nd, nk, state, pos, scr, far[0], far[1], d, c, rdy,
                                     ", the word before was an inserted SKP word" if after_skp else "", exp[0], exp[1])})
                break
        elif (nd, nk) == SKPW and can and (d, c) == IDLE:
            ins = True
        after_skp = ins
        if is_com0(d, c):
            state, synced, pos = 0xFFFF, True, 0
            tags.add("restart-by-COM")
        elif rdy and not ins:
            state, pos = nxt, pos + 1
            tags.add("transfer")
        elif not rdy:
            tags.add("not-transferred")
        tags.add("scrambling=%d" % scr)
    return fails, tags


NAMES_TX_IN = ["sink.valid", "sink.data", "sink.ctrl", "can_send_skp", "enable_scrambling", "tx_electrical_idle"]
NAMES_TX_OUT = ["phy.tx_data", "phy.tx_datak", "sink.ready"]


def run_phytx(desc):
    """Transmit half of the real USB3PhysicalLayer with a PIPEInterface(width=4): co-simulated against the composed
    Lean model (Scrambler + CTCSkipInserter, hold = sending_skip) and watched by the far-end monitor."""
    from luna.gateware.usb.usb3.physical.layer import USB3PhysicalLayer
    from luna.gateware.interface.pipe import PIPEInterface
    phy = PIPEInterface(width=4)
    dut = USB3PhysicalLayer(phy=phy, sync_frequency=50e6)
    mode = desc.get("mode", "replay")
    stim = desc.get("stimulus") or stim_phytx(mode, Rng(desc["seed"]), desc.get("len", 1600))
    rows = sim.run_cycles(dut, [dut.sink.valid, dut.sink.data, dut.sink.ctrl, dut.can_send_skp, dut.enable_scrambling,
                                dut.tx_electrical_idle],
                          [phy.tx_data, phy.tx_datak, dut.sink.ready], stim, domain="ss", extra_clocks={"sync": 1e-6})
    fails, tags = monitor_phytx(stim, rows)
    tags |= {"phytx", "phytx-mode=" + mode}
    return Case([3, 0xFFFF, 0xFFFF], stim, rows, fails, sorted(tags), desc, NAMES_TX_IN, NAMES_TX_OUT)


# ---- receive half
RX_K = [0xFD, 0x5C, 0x7C, 0x1C, 0x9C, 0xDC]      # K symbols used in random words: no COM / SKP / SHP / SLC / EPF, so the
#                                                   two aligners (C34/C35) see framing only where the grammar puts it


def rx_link_words(rng, n):
    """The far end's link-layer word stream: a few idle words, a training-set start (COM COM COM COM: puts both
    LFSRs at FFFFh), then packets, link commands, idle, random D/K mixes, further COMs."""
    words = [IDLE] * rng.range(0, 4) + [COM4, (0x4A4A0000 | (rng.below(256) << 8), 0)]
    while len(words) < n:
        kind = rng.weighted([(4, "data"), (3, "idle"), (2, "hp"), (1, "lc"), (2, "dp"), (1, "ts"), (1, "com0"),
                             (3, "mixed"), (1, "allk")])
        if kind == "data":
            new = [(rng.bits(32), 0) for _ in range(rng.range(1, 40))]
        elif kind == "idle":
            new = [IDLE] * rng.range(1, 30)
        elif kind in ("hp", "lc", "dp", "ts"):
            new = C33._burst(rng, kind)
        elif kind == "com0":
            new = [(0xBC | (rng.bits(24) << 8), 1)]
        elif kind == "allk":
            new = [(sum(rng.choice(RX_K) << (8 * i) for i in range(4)), 0xF)]
        else:
            new = []
            for _ in range(rng.range(1, 8)):
                c = rng.below(16)
                d = sum((rng.choice(RX_K) if (c >> i) & 1 else rng.choice([rng.bits(8), rng.bits(8), COM, 0x3C])) << (8 * i)
                        for i in range(4))
                new.append((d, c))
        if words[-1] == COM4 and is_com0(*new[0]):
            words.append((rng.bits(32), 0))        # five COMs in a row would re-align the receiver (C34)
        words += new
    return words[:n]


def stim_phyrx(mode, rng, L, offset=0):
    """-> (rows [rx_data, rx_datak, enable_scrambling], link words).  The link words are scrambled with the
    reference LFSR exactly as the property describes the transmitter (key byte per symbol, K symbols untouched,
    restart after a word with COM in symbol 0), then SKP symbols are inserted into the symbol stream.
    `offset` data symbols are put in front: the far end's words then sit at that symbol offset of the PHY's words."""
    en = 0 if rng.chance(20) else 1
    words = rx_link_words(rng, L)
    state = 0xFFFF
    syms = [(0x4A, 0)] * offset
    p = {"skp-words": 4, "skp-sets": 6, "skp-any": 8, "dense": 45, "no-skp": 0}[mode]
    for (d, c) in words:
        key, nxt = key_of(state)
        sd = scr_word(d, c, en, key)
        state = 0xFFFF if is_com0(d, c) else nxt
        if mode == "skp-words" and rng.chance(p):
            syms += [(0x3C, 1)] * (4 * rng.choice([1, 1, 1, 2]))
        for i in range(4):
            if mode in ("skp-sets", "skp-any", "dense") and rng.chance(p):
                syms += [(0x3C, 1)] * (2 * rng.choice([1, 1, 2]) if mode == "skp-sets" else rng.range(1, 9))
            syms.append(((sd >> (8 * i)) & 0xFF, (c >> i) & 1))
    while len(syms) % 4:
        syms.append((0x3C, 1))
    rows = []
    for j in range(0, len(syms), 4):
        rows.append([sum(syms[j + i][0] << (8 * i) for i in range(4)), sum(syms[j + i][1] << i for i in range(4)), en])
    rows += [[0x3C3C3C3C, 0xF, en]] * 2
    return rows, words


NAMES_RX_OUT = ["source.valid", "source.data", "source.ctrl", "raw_source.valid", "raw_source.data", "raw_source.ctrl",
                "skip_removed", "ctc_bytes_in_buffer", "alignment_offset"]


def run_phyrx(desc, model=False):
    """Receive half of the real USB3PhysicalLayer: PHY rx pins -> CTCSkipRemover -> RxWordAligner -> Descrambler ->
    RxPacketAligner -> source.  Monitor: the valid words leaving `source` after the first COM-first word must be
    the far end's link words after its first COM-first word, in order — i.e. the descrambler's keystream did not move
    over the removed SKP symbols and moved once per delivered word.  With `model` (kind phyrxm) the same run is also
    compared cycle by cycle, nothing masked, with the composed Lean model `PhyRx.step` (driver model 4): source,
    raw_source, skip_removed, ctc_bytes_in_buffer, alignment_offset."""
    from luna.gateware.usb.usb3.physical.layer import USB3PhysicalLayer
    from luna.gateware.interface.pipe import PIPEInterface
    phy = PIPEInterface(width=4)
    dut = USB3PhysicalLayer(phy=phy, sync_frequency=50e6)
    mode = desc.get("mode", "replay")
    if desc.get("words"):
        words = [tuple(w) for w in desc["words"]]
        stim = desc["stimulus"]
    else:
        stim, words = stim_phyrx(mode, Rng(desc["seed"]), desc.get("len", 800), desc.get("offset", 0))
        stim = desc.get("stimulus") or stim          # a replay carries the (possibly shortened) pin trace
    fed = sum(4 - bin(r[1] & sum(1 << i for i in range(4) if (r[0] >> (8 * i)) & 0xFF == 0x3C)).count("1")
              for r in stim) // 4                     # link words completely contained in the pin trace
    words = words[:fed]
    outs = [dut.source.valid, dut.source.data, dut.source.ctrl]
    if model:
        outs += [dut.raw_source.valid, dut.raw_source.data, dut.raw_source.ctrl, dut.skip_removed,
                 dut.ctc_bytes_in_buffer, dut.alignment_offset]
    rows = sim.run_cycles(dut, [phy.rx_data, phy.rx_datak, dut.enable_scrambling], outs, stim, domain="ss",
                          extra_clocks={"sync": 1e-6})
    got = [(t, r[1], r[2]) for t, r in enumerate(rows) if r[0]]
    fails, tags = [], {"phyrx", "phyrx-mode=" + mode, "scrambling=%d" % stim[0][2]}
    if model:
        tags |= {"phyrxm", "phyrxm-pin-offset=%d" % desc.get("offset", 0)}
        tags |= {"phyrxm-alignment_offset=%d" % r[8] for r in rows}
        tags |= {"phyrxm-ctc_bytes=%d" % r[7] for r in rows}
        if any(r[6] for r in rows):
            tags.add("phyrxm-skip_removed")
    i0 = next((i for i, w in enumerate(words) if is_com0(*w)), None)
    j0 = next((j for j, (_t, d, c) in enumerate(got) if is_com0(d, c)), None)
    if i0 is None:
        tags.add("phyrx-no-com")
    elif j0 is None:
        fails.append({"cycle": len(rows) - 1, "sig": "phy-rx-starved", "what":
                      "the far end's COM-first word never leaves USB3PhysicalLayer.source (%d valid words seen)" % len(got)})
    else:
        exp, out = words[i0 + 1:], got[j0 + 1:]
        for k, ((t, d, c), w) in enumerate(zip(out, exp)):
            if (d, c) != w:
                fails.append({"cycle": t, "sig": "phy-rx-descramble", "what":
                              "word %d after the first COM leaves the physical layer as %08x/%x, the far end sent "
                              "%08x/%x (reference-scrambled, enable_scrambling=%d, SKP symbols inserted: mode %s)"
                              % (k, d, c, w[0], w[1], stim[0][2], mode)})
                break
        else:
            if len(out) < len(exp) - 6:
                fails.append({"cycle": len(rows) - 1, "sig": "phy-rx-starved", "what":
                              "only %d of the %d words after the first COM left the physical layer" % (len(out), len(exp))})
        tags.add("phyrx-words-compared>=%d" % (100 * (min(len(out), len(exp)) // 100)))
        if model and desc.get("offset", 0) == 0 and not fails:
            # phy_rx_descrambles_from_reset on the real trace: exactly junk + 3 start-up words precede the link words
            # (the packet aligner's zero word, the descrambled zero word of the word aligner, the words before the
            # first COM-first word descrambled out of step, that word itself)
            if j0 != i0 + 2 or (got[0][1], got[0][2]) != (0, 0):
                fails.append({"cycle": got[j0][0], "sig": "phy-rx-startup-words", "what":
                              "from reset the first COM-first word (link word %d) must leave source as valid word %d "
                              "(two zero-register words ahead of the received ones), it is valid word %d; first valid "
                              "word %08x/%x" % (i0, i0 + 2, j0, got[0][1], got[0][2])})
            tags.add("phyrxm-startup-words=junk+3")
        nskp = sum(bin(r[1] & sum(1 << i for i in range(4) if (r[0] >> (8 * i)) & 0xFF == 0x3C)).count("1") for r in stim)
        tags.add("phyrx-skp-symbols" if nskp > 8 else "phyrx-no-skp")
    if model:
        return Case([4, 0xFFFF, 0xFFFF], stim, rows, fails, sorted(tags), desc,
                    ["phy.rx_data", "phy.rx_datak", "enable_scrambling"], NAMES_RX_OUT)
    return Case([9, 0, 0], stim, rows, fails, sorted(tags), desc, ["phy.rx_data", "phy.rx_datak", "enable_scrambling"],
                ["source.valid", "source.data", "source.ctrl"], lean=False)


def run_phyrxm(desc):
    return run_phyrx(desc, model=True)


RUNNERS = {"lfsr": run_lfsr, "scr": run_scr, "pair": run_pair, "phy": run_phy, "phytx": run_phytx,
           "phyrx": run_phyrx, "phyrxm": run_phyrxm}


def run_case(desc):
    return RUNNERS[desc["kind"]](desc)


# ------------------------------------------------------------------ failing-input search
def ref_lfsr(name, x):
    key, nxt = key_of(x)
    return nxt if name == "lfsrNext" else le32(key)


def table_differences(limit=4):
    tables, nin, _c, _errors, _docs, _nets = affine.build_tables("lfsr")
    diffs = []
    for name, rows in tables.items():
        if rows is None:
            diffs.append((name, None))
            continue
        if affine.eval_table(rows, 0) != ref_lfsr(name, 0):
            diffs.append((name, None))
        k = 0
        for i in range(16):
            if affine.eval_table(rows, 1 << i) != ref_lfsr(name, 1 << i):
                diffs.append((name, i))
                k += 1
                if k >= limit:
                    break
    return diffs


def proof_search(tier, rng, proof):
    """A differing coefficient of the LFSR tables -> ScramblerLFSR started at that unit vector."""
    found = []
    tried = set()
    for name, idx in table_differences() + [("any", None)]:
        iv = (1 << idx) if idx is not None else 0xFFFF
        if iv in tried:
            continue
        tried.add(iv)
        c = run_case({"kind": "lfsr", "iv": iv, "stimulus": [[0, 1], [0, 1], [0, 1], [0, 0]]})
        if c.failures:
            f = dict(c.failures[0])
            f["desc"] = {"kind": "lfsr", "iv": iv, "stimulus": c.inputs}
            f["what"] = "[directed at %s register bit %s] %s" % (name, idx, f["what"])
            found.append(f)
            break
    return found


def replay_desc(desc):
    """Replays must see the tables of the tree they run on: regenerate, rebuild the driver, run."""
    from harness.common import framework, leanrun
    import sys
    for tr in TRANSLATORS:
        try:
            tr()
        except Exception as e:
            print("translator:", e)
    leanrun.lake_build([leanrun.exe_name(DRIVER)])
    r = framework.run_cases(sys.modules[__name__], [desc], nproc=1)[0]
    if r.get("error"):
        raise RuntimeError(r["error"])
    fails = list(r["failures"])
    if r.get("disagree"):
        fails.append({"cycle": r["disagree"]["cycle"], "sig": "model-gateware-disagreement",
                      "what": "Lean model and gateware disagree: %r" % (r["disagree"],)})
    return fails
