"""C31 — SuperSpeed scrambling uses the USB3 LFSR and descrambling inverts it.

Tie to /repo:
  (a) translator `harness/translate/affine.py` reads the `next_value` and `value` XOR networks out of
      the elaborated `ScramblerLFSR` into lean/LunaVerif/Generated/AffineLfsr.lean; `Props/C31.lean`
      proves next = 32 serial LFSR steps and value = next 32 keystream bits for all 2^16 states;
  (b) `ScramblerLFSR`, `Scrambler`, `Descrambler` and a Scrambler->Descrambler chain are co-simulated
      cycle by cycle against the Lean model, with a monitor that recomputes the keystream with the
      independent bit-serial Python LFSR (harness/common/usbref.py: usb3_lfsr_bytes).
"""
from harness.common.framework import Case
from harness.common.rng import Rng
from harness.common import sim
from harness.common import usbref as U
from harness.translate import affine

PROP = "C31"
LEAN_MODULES = ["LunaVerif.Core.XorAlg", "LunaVerif.Props.C31"]
DRIVER = "Driver/C31.lean"
TRANSLATORS = [affine.translate_lfsr]
REQUIRED_THEOREMS = [
    "evalHom", "transfer", "lfsr_next_table", "lfsr_value_table",
    "lfsr_next_generated_eq_serial32", "lfsr_value_generated_eq_keystream", "keyBytes_eq_keystream",
    "step_output", "ctrl_symbols_pass", "advance_only_on_transfer", "restart_after_com", "restart_on_clear",
    "lfsr_position", "pair_step", "descramble_scramble_id", "lfsr_default_init_is_spec",
]
RULE = ("cases = module (ScramblerLFSR / Scrambler / Descrambler / Scrambler->Descrambler chain) x initial_value x "
        "stimulus; words mix data and control symbols, COM (K28.5) is placed in every symbol position, as a data "
        "byte 0xBC without the K flag, and in invalid words; hold bursts (SKP insertion), ready stalls, idle cycles, "
        "enable toggling and clear pulses are interleaved")
ASSUMPTIONS = [
    "descramble_scramble_id: both instances start from the same register value and see the same clear/enable/hold; "
    "ready is the descrambler's source.ready handed back through the pass-through sink.ready",
    "words are four symbols wide (USBRawSuperSpeedStream default)",
]
PARTIAL = ""
TRUSTED_EXTRA = [
    "reference LFSR (usbref.usb3_lfsr_bytes, XorAlg.keystream with polynomial 0039h) checked against the first 16 "
    "scrambler output bytes tabulated in USB 3.2 Appendix B",
]

COM = 0xBC
SPEC_TABLE = [0xFF, 0x17, 0xC0, 0x14, 0xB2, 0xE7, 0x02, 0x82, 0x72, 0x6E, 0x28, 0xA6, 0xBE, 0x6D, 0xBF, 0x8D]
assert U.usb3_lfsr_bytes(16)[0] == SPEC_TABLE, "reference LFSR disagrees with USB 3.2 Appendix B"


def key_of(state):
    bs, nxt = U.usb3_lfsr_bytes(4, state)
    return bs, nxt


def le32(bs):
    return sum(b << (8 * i) for i, b in enumerate(bs))


# ------------------------------------------------------------------ cases
def gen_cases(tier, rng):
    n = {"quick": 1, "widen": 3, "thorough": 8}.get(tier, 1)
    cyc = {"quick": 2500, "widen": 3000, "thorough": 4000}.get(tier, 2500)
    out = []
    for k in range(4 * n):
        iv = [0xFFFF, 0x7DBD, None, 0xFFFF][k % 4]
        out.append({"kind": "lfsr", "iv": iv if iv is not None else (rng.bits(16) or 1), "seed": rng.u64(), "k": k,
                    "cycles": cyc})
    for k in range(8 * n):
        cls = ["Scrambler", "Descrambler"][k % 2]
        iv = [None, None, 0xFFFF, 0xFFFF, "rand", "rand", None, None][k % 8]     # None = the class default
        if iv == "rand":
            iv = rng.bits(16) or 1
        out.append({"kind": "scr", "cls": cls, "iv": iv, "seed": rng.u64(), "k": k // 2, "cycles": cyc})
    for k in range(4 * n):
        iv = [0xFFFF, 0x7DBD, None, 0xFFFF][k % 4]
        out.append({"kind": "pair", "iv": iv if iv is not None else (rng.bits(16) or 1), "seed": rng.u64(), "k": k,
                    "cycles": cyc})
    out.append({"kind": "phy"})
    return out


def rand_word(rng):
    """(data, ctrl): mix of D and K symbols, COM in any position, 0xBC as data, non-COM K in symbol 0."""
    data, ctrl = 0, 0
    style = rng.weighted([(5, "mixed"), (3, "data"), (1, "allk"), (2, "com0"), (1, "fakecom0"), (1, "k0")])
    for i in range(4):
        if style == "data":
            k, b = 0, rng.bits(8)
        elif style == "allk":
            k, b = 1, rng.choice([COM, 0x3C, 0xFB, 0xFD, 0xF7, 0x5C])
        else:
            k = int(rng.chance(30))
            b = rng.choice([COM, 0x3C, 0xFB, 0xFD]) if (k and rng.chance(70)) else rng.choice([rng.bits(8), rng.bits(8), COM, 0])
        if i == 0 and style == "com0":
            k, b = 1, COM
        if i == 0 and style == "fakecom0":
            k, b = 0, COM
        if i == 0 and style == "k0":
            k, b = 1, rng.choice([0x3C, 0xFB, 0xBD, 0x9C])
        data |= b << (8 * i)
        ctrl |= k << i
    return data, ctrl


def stim_scr(rng, cycles, k):
    rows = []
    enable = 1
    p_valid = [95, 70, 100, 50][k % 4]
    p_ready = [95, 100, 60, 50][k % 4]
    while len(rows) < cycles:
        if rng.chance(3):
            enable ^= 1
        clear = int(rng.chance(1))
        burst = rng.choice([1, 1, 1, 2, 3]) if rng.chance(6) else 0     # SKP insertion: hold for a few cycles
        data, ctrl = rand_word(rng)
        for h in range(burst):
            rows.append([0, enable, 1, int(rng.chance(p_valid)), data, ctrl, int(rng.chance(p_ready))])
        rows.append([clear, enable, 0, int(rng.chance(p_valid)), data, ctrl, int(rng.chance(p_ready))])
    return rows[:cycles]


NAMES_IN = ["clear", "enable", "hold", "sink_valid", "sink_data", "sink_ctrl", "source_ready"]
NAMES_OUT = ["source_valid", "source_data", "source_ctrl", "sink_ready", "lfsr_state"]


def monitor_scr(iv, stim, rows, who, col=0):
    """The property on the real trace: keystream of the serial LFSR, data symbols XORed, control symbols and
    handshake passed, register moves only on a transfer, restarts after clear / COM in symbol 0."""
    fails, tags = [], set()
    state = iv
    for t, ((clr, en, hold, valid, data, ctrl, ready), got) in enumerate(zip(stim, rows)):
        g_valid, g_data, g_ctrl, g_ready, g_state = got[col:col + 5]
        key, nxt = key_of(state)
        exp = 0
        for i in range(4):
            b = (data >> (8 * i)) & 0xFF
            if en and not (ctrl >> i) & 1:
                b ^= key[i]
            exp |= b << (8 * i)
        if not fails:
            if g_data != exp:
                bad = [i for i in range(4) if (g_data >> (8 * i)) & 0xFF != (exp >> (8 * i)) & 0xFF]
                kinds = ["K" if (ctrl >> i) & 1 else "D" for i in bad]
                fails.append({"cycle": t, "sig": "scr-data", "what":
                              "%s: word data=%#010x ctrl=%#x enable=%d leaves as %#010x; with the LFSR keystream "
                              "bytes %s (register %#06x) it must be %#010x (symbols %s differ: %s)"
                              % (who, data, ctrl, en, g_data, [hex(b) for b in key], state, exp, bad, kinds)})
            elif (g_valid, g_ctrl, g_ready) != (valid, ctrl, ready):
                fails.append({"cycle": t, "sig": "scr-passthrough", "what":
                              "%s: valid/ctrl/ready must pass through: in (%d,%#x,%d) out (%d,%#x,%d)"
                              % (who, valid, ctrl, ready, g_valid, g_ctrl, g_ready)})
            elif g_state != le32(key):
                fails.append({"cycle": t, "sig": "scr-lfsr-state", "what":
                              "%s: lfsr_state=%#010x but the serial LFSR at register %#06x gives %#010x"
                              % (who, g_state, state, le32(key))})
        comma = valid and (data & 0xFF) == COM and (ctrl & 1)
        if clr or comma:
            state = iv
            tags.add("restart-com" if comma else "restart-clear")
            if comma and hold:
                tags.add("restart-com-while-held")
        elif valid and ready and not hold:
            state = nxt
            tags.add("transfer")
        else:
            tags.add("held" if hold else ("stall" if valid else "idle"))
        for i in range(4):
            if (data >> (8 * i)) & 0xFF == COM:
                tags.add("com@%d%s" % (i, "" if (ctrl >> i) & 1 else "-as-data"))
        tags.add("enable=%d" % en)
    return fails, tags


def run_lfsr(desc):
    from luna.gateware.usb.usb3.physical.scrambling import ScramblerLFSR
    iv = desc["iv"]
    dut = ScramblerLFSR(initial_value=iv)
    if desc.get("stimulus"):
        stim = desc["stimulus"]
    else:
        rng = Rng(desc["seed"])
        pa = [100, 85, 50, 95][desc.get("k", 0) % 4]
        stim = [[int(rng.chance(1)), int(rng.chance(pa))] for _ in range(desc["cycles"])]
    rows = sim.run_cycles(dut, [dut.clear, dut.advance], [dut.value], stim, domain="ss")
    fails, tags = [], set()
    state = iv
    for t, ((clr, adv), (val,)) in enumerate(zip(stim, rows)):
        key, nxt = key_of(state)
        if val != le32(key) and not fails:
            fails.append({"cycle": t, "sig": "lfsr-value", "what":
                          "ScramblerLFSR(initial_value=%#06x).value = %#010x in cycle %d; the x^16+x^5+x^4+x^3+1 serial "
                          "LFSR at register %#06x gives the keystream bytes %s = %#010x"
                          % (iv, val, t, state, [hex(b) for b in key], le32(key))})
        if clr:
            state = iv
            tags.add("lfsr-clear+advance" if adv else "lfsr-clear")
        elif adv:
            state = nxt
            tags.add("lfsr-advance")
        else:
            tags.add("lfsr-hold")
    return Case([0, iv, iv], stim, rows, fails, sorted(tags), desc, ["clear", "advance"], ["value"])


def run_scr(desc):
    from luna.gateware.usb.usb3.physical import scrambling
    cls = getattr(scrambling, desc["cls"])
    dut = cls() if desc["iv"] is None else cls(initial_value=desc["iv"])
    iv = dut._initial_value
    stim = desc.get("stimulus") or stim_scr(Rng(desc["seed"]), desc["cycles"], desc.get("k", 0))
    rows = sim.run_cycles(dut, [dut.clear, dut.enable, dut.hold, dut.sink.valid, dut.sink.data, dut.sink.ctrl,
                                dut.source.ready],
                          [dut.source.valid, dut.source.data, dut.source.ctrl, dut.sink.ready, dut.lfsr_state],
                          stim, domain="ss")
    who = "%s(initial_value=%#06x)" % (desc["cls"], iv)
    fails, tags = monitor_scr(iv, stim, rows, who)
    tags.add(desc["cls"] + ("-default-init" if desc["iv"] is None else ""))
    return Case([1, iv, iv], stim, rows, fails, sorted(tags), desc, NAMES_IN, NAMES_OUT)


def make_pair(iv):
    from amaranth import Module, Elaboratable
    from luna.gateware.usb.usb3.physical.scrambling import Scrambler, Descrambler

    class Pair(Elaboratable):
        def __init__(self):
            self.s = Scrambler(initial_value=iv)
            self.d = Descrambler(initial_value=iv)

        def elaborate(self, platform):
            m = Module()
            m.submodules.s = self.s
            m.submodules.d = self.d
            m.d.comb += [
                self.d.sink.stream_eq(self.s.source),
                self.d.clear.eq(self.s.clear), self.d.enable.eq(self.s.enable), self.d.hold.eq(self.s.hold),
            ]
            return m
    return Pair()


def run_pair(desc):
    iv = desc["iv"]
    p = make_pair(iv)
    s, d = p.s, p.d
    stim = desc.get("stimulus") or stim_scr(Rng(desc["seed"]), desc["cycles"], desc.get("k", 0))
    rows = sim.run_cycles(p, [s.clear, s.enable, s.hold, s.sink.valid, s.sink.data, s.sink.ctrl, d.source.ready],
                          [s.source.valid, s.source.data, s.source.ctrl, s.sink.ready, s.lfsr_state,
                           d.source.valid, d.source.data, d.source.ctrl, d.sink.ready, d.lfsr_state], stim, domain="ss")
    fails, tags = monitor_scr(iv, stim, rows, "Scrambler(initial_value=%#06x) feeding a Descrambler" % iv)
    for t, (i, o) in enumerate(zip(stim, rows)):
        if (o[5], o[6], o[7]) != (i[3], i[4], i[5]) and not fails:
            fails.append({"cycle": t, "sig": "pair-roundtrip", "what":
                          "Scrambler->Descrambler from the same state %#06x: word data=%#010x ctrl=%#x valid=%d comes "
                          "back as data=%#010x ctrl=%#x valid=%d (scrambled form %#010x, enable=%d hold=%d)"
                          % (iv, i[4], i[5], i[3], o[6], o[7], o[5], o[1], i[1], i[2])})
    tags.add("pair")
    return Case([2, iv, iv], stim, rows, fails, sorted(tags), desc, NAMES_IN,
                ["s." + n for n in NAMES_OUT] + ["d." + n for n in NAMES_OUT])


def run_phy(desc):
    """USB3PhysicalLayer (physical/layer.py) is elaborated with a stand-in PIPE PHY and the Scrambler /
    Descrambler instances it creates are inspected: USB 3.2 Appendix B restarts the LFSR at FFFFh on both
    sides of the link, so both must be built with that value (monitor only, no simulation)."""
    from amaranth import Signal
    from luna.gateware.usb.usb3.physical.layer import USB3PhysicalLayer
    from luna.gateware.usb.usb3.physical.scrambling import Scrambler

    class StandInPhy:
        def __getattr__(self, name):
            if name.startswith("__"):
                raise AttributeError(name)
            s = Signal(32 if ("data" in name and "datak" not in name) else 4, name="phy_" + name)
            object.__setattr__(self, name, s)
            return s

    m = USB3PhysicalLayer(phy=StandInPhy(), sync_frequency=125e6).elaborate(None)
    subs = [v[0] if isinstance(v, tuple) else v for v in getattr(m, "_named_submodules", {}).values()]
    subs += [v[0] if isinstance(v, tuple) else v for v in getattr(m, "_anon_submodules", [])]
    found = [s for s in subs if isinstance(s, Scrambler)]
    if len(found) < 2:
        raise RuntimeError("could not locate the scrambler and descrambler inside USB3PhysicalLayer")
    fails = []
    for s in found:
        if s._initial_value != 0xFFFF and not fails:
            fails.append({"cycle": 0, "sig": "phy-scrambler-init", "what":
                          "USB3PhysicalLayer builds its %s with initial_value=%#06x; the USB3 LFSR restarts at 0xffff"
                          % (type(s).__name__, s._initial_value)})
    return Case([9, 0, 0], [[0]], [[None]], fails, ["phy-" + type(s).__name__ for s in found], desc, ["-"], ["-"],
                lean=False)


RUNNERS = {"lfsr": run_lfsr, "scr": run_scr, "pair": run_pair, "phy": run_phy}


def run_case(desc):
    return RUNNERS[desc["kind"]](desc)


# ------------------------------------------------------------------ failing-input search
def ref_lfsr(name, x):
    key, nxt = key_of(x)
    return nxt if name == "lfsrNext" else le32(key)


def table_differences(limit=4):
    tables, nin, _c, _errors, _docs, _nets = affine.build_tables("lfsr")
    diffs = []
    for name, rows in tables.items():
        if rows is None:
            diffs.append((name, None))
            continue
        if affine.eval_table(rows, 0) != ref_lfsr(name, 0):
            diffs.append((name, None))
        k = 0
        for i in range(16):
            if affine.eval_table(rows, 1 << i) != ref_lfsr(name, 1 << i):
                diffs.append((name, i))
                k += 1
                if k >= limit:
                    break
    return diffs


def proof_search(tier, rng, proof):
    """A differing coefficient of the LFSR tables -> ScramblerLFSR started at that unit vector."""
    found = []
    tried = set()
    for name, idx in table_differences() + [("any", None)]:
        iv = (1 << idx) if idx is not None else 0xFFFF
        if iv in tried:
            continue
        tried.add(iv)
        c = run_case({"kind": "lfsr", "iv": iv, "stimulus": [[0, 1], [0, 1], [0, 1], [0, 0]]})
        if c.failures:
            f = dict(c.failures[0])
            f["desc"] = {"kind": "lfsr", "iv": iv, "stimulus": c.inputs}
            f["what"] = "[directed at %s register bit %s] %s" % (name, idx, f["what"])
            found.append(f)
            break
    return found


def replay_desc(desc):
    """Replays must see the tables of the tree they run on: regenerate, rebuild the driver, run."""
    from harness.common import framework, leanrun
    import sys
    for tr in TRANSLATORS:
        try:
            tr()
        except Exception as e:
            print("translator:", e)
    leanrun.lake_build([leanrun.exe_name(DRIVER)])
    r = framework.run_cases(sys.modules[__name__], [desc], nproc=1)[0]
    if r.get("error"):
        raise RuntimeError(r["error"])
    fails = list(r["failures"])
    if r.get("disagree"):
        fails.append({"cycle": r["disagree"]["cycle"], "sig": "model-gateware-disagreement",
                      "what": "Lean model and gateware disagree: %r" % (r["disagree"],)})
    return fails
