"""C20, cycle-level composition: the real `USBDevice` against the Lean model `DevCyc` (sub-model 2 of Driver/C20.lean).

`CycHarness` is the shared TraceHarness around the real full device with, in addition, a per-cycle record of

* the inputs of the composition: UTMI rx_active/rx_valid/rx_data/tx_ready, the `address` register, and everything the
  ENDPOINT LOGIC drives into the packet layer (the post-multiplexer `endpoint_mux.shared` interface: handshake requests,
  transmit stream, tx_pid_toggle, timer.start, data_crc.start) + the reset sequencer's transmitter;
* the outputs of the packet layer: UTMI tx_valid/tx_data, the two transmitters' `tx.valid`, the tokenizer interface, the
  receiver's stream and strobes, the shared timer's `tx_allowed`, the generator's `stream.ready`.

The objects that `USBDevice.elaborate` creates locally (token detector, receiver, timer, multiplexers …) are found by
wrapping their classes in the `device` module's namespace while the design is elaborated (observation only: the wrapper
is a subclass that records the instance).

In addition the pre-multiplexer `EndpointInterface` outputs of EVERY endpoint on the multiplexer (control endpoint and the
spec's bulk IN / bulk OUT / status endpoints, in `add_interface` order) are sampled: handshakes_out.ack|nak|stall,
tx.valid/first/last, timer.start.  The driver evaluates the SLOT CONTRACT of lean/LunaVerif/Model/Device/SlotContract.lean
on them (one `ok` column per endpoint, expected 1; the phase column is informational): for the three stream/status
endpoint kinds this re-checks on the real gateware what `Lemmas/C20Endpoints.lean` proves of their models AND ties the
pulse decode / wiring of `Lemmas/C20Device.lean` to the real design; for the control endpoint it checks `restHolds`, the
assumption that `envOk_of_endpoints` still makes.

The Lean driver also evaluates, cycle by cycle, the two ASSUMPTIONS of the theorem `tx_never_during_rx`
(lean/LunaVerif/Lemmas/C20CycMain.lean) on the sampled trace: `hostOk` (no reception while the response window is open)
and `envOk` (the endpoints request transmissions only at ready_for_response pulses …).  The expected value of both
columns is 1: a 0 means that the real endpoints / the harness's host do not satisfy what the theorem assumes, and is
reported as a correspondence failure (the proof would not apply to the real device).
"""
from harness.props import devx_util as X

CAPTURED = ("USBTokenDetector", "USBDataPacketGenerator", "USBDataPacketReceiver", "USBHandshakeGenerator",
            "USBInterpacketTimer", "USBEndpointMultiplexer", "UTMIInterfaceMultiplexer", "USBResetSequencer",
            "USBDataPacketCRC")

# parameters of the assumptions at the 12 MHz full-speed configuration: the host's bus time-out is 16 bit times
# (USB 2.0 7.1.19) = 16 cycles; the slowest data response observed starts 8 cycles after rx_active fell
PARAM_T = 16
PARAM_L = 8

NAMES_IN = ["rx_active", "rx_valid", "rx_data", "tx_ready", "address", "ack", "nak", "stall", "s_valid", "s_first", "s_last",
            "s_payload", "pid_toggle", "timer_start", "crc_start", "rs_valid", "rs_data"]
NAMES_OUT = ["tx_valid", "tx_data", "hs_valid", "gen_valid", "tok_pid", "tok_address", "tok_endpoint", "tok_frame", "new_token",
             "new_frame", "tok_ready_for_response", "rx_stream_valid", "rx_stream_next", "rx_payload", "packet_complete",
             "crc_mismatch", "rx_ready_for_response", "packet_id", "active_pid", "crc", "tx_allowed", "stream_ready",
             "hostOk", "envOk", "win"]


class _Capture:
    """Records the instances of the packet-layer classes created while the device is elaborated."""

    def __init__(self):
        self.found = {}

    def __enter__(self):
        import luna.gateware.usb.usb2.device as devmod
        self._mod = devmod
        self._orig = {}
        for name in CAPTURED:
            orig = getattr(devmod, name)
            self._orig[name] = orig
            found = self.found.setdefault(name, [])

            def make(orig=orig, found=found):
                class Recorded(orig):
                    def __init__(self, *a, **k):
                        super().__init__(*a, **k)
                        found.append(self)
                Recorded.__name__ = orig.__name__
                Recorded.__qualname__ = orig.__qualname__
                return Recorded
            setattr(devmod, name, make())
        return self

    def __exit__(self, *exc):
        for name, orig in self._orig.items():
            setattr(self._mod, name, orig)
        return False

    def one(self, name):
        lst = self.found.get(name, [])
        if len(lst) != 1:
            raise LookupError("expected exactly one %s in USBDevice.elaborate, found %d" % (name, len(lst)))
        return lst[0]


class CycHarness(X.TraceHarness):
    def __init__(self, spec, timing_rng=None):
        with _Capture() as cap:
            super().__init__(spec, timing_rng)
        tokd, gen, rcv = cap.one("USBTokenDetector"), cap.one("USBDataPacketGenerator"), cap.one("USBDataPacketReceiver")
        hsg, timer, epm = cap.one("USBHandshakeGenerator"), cap.one("USBInterpacketTimer"), cap.one("USBEndpointMultiplexer")
        rs = cap.one("USBResetSequencer")
        sh = epm.shared
        u = self.utmi
        tk = tokd.interface
        self.sig_in = [u.rx_active, u.rx_valid, u.rx_data, u.tx_ready, self.address,
                       sh.handshakes_out.ack, sh.handshakes_out.nak, sh.handshakes_out.stall,
                       sh.tx.valid, sh.tx.first, sh.tx.last, sh.tx.payload, sh.tx_pid_toggle,
                       sh.timer.start, sh.data_crc.start, rs.tx.valid, rs.tx.data]
        self.sig_out = [u.tx_valid, u.tx_data, hsg.tx.valid, gen.tx.valid,
                        tk.pid, tk.address, tk.endpoint, tk.frame, tk.new_token, tk.new_frame, tk.ready_for_response,
                        rcv.stream.valid, rcv.stream.next, rcv.stream.payload, rcv.packet_complete, rcv.crc_mismatch,
                        rcv.ready_for_response, rcv.packet_id, rcv.active_pid, rcv.data_crc.crc,
                        rcv.timer.tx_allowed, gen.stream.ready]
        self.sig_speed = self.dev.speed
        self.cyc_in, self.cyc_out, self.speeds = [], [], set()
        # the endpoints on the multiplexer, in add_interface order: (kind, number, interface)
        self.slots = []
        for ep in self.dev._endpoints:
            name = type(ep).__name__
            if name == "USBControlEndpoint":
                kind, num = 0, 0
            elif name in ("USBStreamInEndpoint", "USBSignalInEndpoint"):
                kind, num = 1, ep._endpoint_number
            elif name == "USBStreamOutEndpoint":
                kind, num = 2, ep._endpoint_number
            else:
                raise LookupError("endpoint class %s has no slot kind" % name)
            self.slots.append((kind, num, ep.interface))
        if [i for _, _, i in self.slots] != list(epm._interfaces):
            raise LookupError("the multiplexer's interfaces are not the device's endpoints in order")
        self.sig_slots = []
        for _, _, itf in self.slots:
            ho = itf.handshakes_out
            self.sig_slots.append((ho.ack, ho.nak, ho.stall, itf.tx.valid, itf.tx.first, itf.tx.last, itf.timer.start))

    def _sample(self, ctx):
        super()._sample(ctx)
        row = [int(ctx.get(s)) for s in self.sig_in]
        for a, n, st, v, f, l, ts in self.sig_slots:
            row += [int(bool(ctx.get(a) or ctx.get(n) or ctx.get(st))), int(ctx.get(v)), int(ctx.get(f)), int(ctx.get(l)),
                    int(ctx.get(ts))]
        self.cyc_in.append(row)
        self.cyc_out.append([int(ctx.get(s)) for s in self.sig_out])
        self.speeds.add(int(ctx.get(self.sig_speed)))


def cfg_ints(h=None):
    """`# 2 filterByAddress clk12 fsOnly speed T L (kind epNum)*` (USBDevice on a plain UTMI bus: 12 MHz, always_fs, speed
    FULL; one (kind, number) pair per endpoint on the multiplexer)."""
    out = [2, 1, 1, 1, 1, PARAM_T, PARAM_L]
    for kind, num, _ in (h.slots if h is not None else []):
        out += [kind, num]
    return out


def names(h):
    ni, no = list(NAMES_IN), list(NAMES_OUT)
    for k, (kind, num, _) in enumerate(h.slots):
        tag = "slot%d_%s%d" % (k, ("ctl", "in", "out")[kind], num)
        ni += [tag + "_" + x for x in ("hs", "valid", "first", "last", "timer_start")]
        no += [tag + "_contract_ok", tag + "_phase"]
    return ni, no


def rows(h):
    """(inputs, expected outputs) of the cycle composition: every sampled output is compared in every cycle, the two
    assumption columns (hostOk, envOk) are expected to be 1, the window code is informational (not compared)."""
    outs = []
    for o in h.cyc_out:
        outs.append(list(o) + [1, 1, None] + [1, None] * len(h.slots))
    return h.cyc_in, outs
