"""C50 — SPIDeviceInterface word framing (luna/gateware/interface/spi.py).

The Lean model follows the REPAIRED code (fix: wrap the bit counter at word_size).  On a tree without
that fix the monitor reports the mis-framed second word for every non-power-of-two word size.
"""
from harness.common.framework import Case
from harness.common.rng import Rng
from harness.common import sim

PROP = "C50"
LEAN_MODULES = ["LunaVerif.Props.C50"]
DRIVER = "Driver/C50.lean"
REQUIRED_THEOREMS = ["every_word_reported_once", "words_are_consecutive_chunks", "sdo_msb_first",
                     "sdo_bit_at_sample_edge", "unrepaired_code_misframes"]
RULE = ("cases = (word_size, polarity, phase, bit order, cs polarity) x controller behaviour; behaviours: clean "
        "multi-word transactions (1-4 words, random half periods >= 1 cycle, sdi noise away from the sample "
        "cycle), transactions aborted / glitched at random bit positions, controller in the wrong SPI mode, "
        "unstructured random pin noise")
ASSUMPTIONS = [
    "SPIDeviceInterface has no synchroniser: sck/sdi/cs are assumed synchronous to the gateware clock (or "
    "synchronised outside).  For every SCK edge to be seen, SCK must stay high and low for at least one "
    "clock period each (minimum SCK period = 2 clock cycles), and sdi must hold the bit in the clock cycle in "
    "which the sampling edge first shows on sck.  The theorems themselves hold for every sampled pin history.",
    "word_size >= 1",
    "sdo_bit_at_sample_edge: clock_phase = 1 and the transaction starts with the serial clock idle "
    "(past_clk = 0 in the first selected cycle)",
]
PARTIAL = ""

WORD_SIZES = [1, 3, 8, 12, 16, 24, 32]


def gen_cases(tier, rng):
    sizes = list(WORD_SIZES)
    per = 1
    if tier == "thorough":
        sizes = sorted(set(sizes + [2, 4, 5, 6, 7, 9, 10, 11, 13, 15, 17, 20, 31, 33, 48, 63, 64]))
        per = 3
    elif tier == "widen":
        sizes = sorted(set(sizes + [2, 5, 6, 7, 9, 17, 33, 64]))
        per = 2
    out = []
    for w in sizes:
        for mode in range(4):
            for msb in (1, 0):
                for kind in range(4):
                    for k in range(per):
                        out.append({"w": w, "pol": mode >> 1, "phase": mode & 1, "msb": msb,
                                    "csh": 1 if rng.chance(20) else 0, "kind": kind, "seed": rng.u64()})
    return out


class _Ctl:
    """Behavioural SPI controller producing per-cycle pin rows [sck, sdi, cs, word_out]."""

    def __init__(self, w, pol, phase, csh, rng, noise):
        self.w, self.pol, self.phase, self.csh, self.rng, self.noise = w, pol, phase, csh, rng, noise
        self.sck = pol
        self.sdi = 0
        self.sel = 0
        self.wout = rng.bits(w)
        self.rows = []
        self.hold_sdi = False

    def emit(self, n=1):
        for _ in range(n):
            if not self.hold_sdi and self.noise and self.rng.chance(30):
                self.sdi ^= 1
            self.rows.append([self.sck, self.sdi, self.sel ^ self.csh, self.wout])

    def bit(self, b, hmax):
        r = self.rng
        h1, h2 = r.range(1, hmax), r.range(1, hmax)
        if self.phase == 0:
            # data valid before the leading edge, sampled on it
            pre = r.range(0, 2)
            self.sdi = b
            self.hold_sdi = True
            self.emit(pre)
            self.sck ^= 1
            self.emit(1)                 # the cycle in which the edge shows: sdi must be the bit
            self.hold_sdi = False
            self.emit(h1 - 1)
            self.sck ^= 1
            self.emit(h2)
        else:
            self.sck ^= 1                # leading edge: data changes
            if r.chance(50):
                self.sdi = b
                self.hold_sdi = True
            self.emit(h1)
            self.sdi = b
            self.hold_sdi = True
            self.sck ^= 1                # trailing edge: sampled
            self.emit(1)
            self.hold_sdi = False
            self.emit(h2 - 1)


def make_stimulus(desc, rng):
    w, pol, phase, csh, kind = desc["w"], desc["pol"], desc["phase"], desc["csh"], desc["kind"]
    budget = 1500 if w <= 16 else 3000
    if kind == 3:     # unstructured noise
        p = rng.choice([5, 20, 50])
        pc = rng.choice([2, 10, 40])
        sck, sdi, cs, wo = pol, 0, csh, rng.bits(w)
        rows = []
        for _ in range(budget // 2):
            if rng.chance(p):
                sck ^= 1
            if rng.chance(50):
                sdi ^= 1
            if rng.chance(pc):
                cs ^= 1
            if rng.chance(10):
                wo = rng.bits(w)
            rows.append([sck, sdi, cs, wo])
        return rows
    ctl_pol = pol if kind != 2 else pol ^ rng.below(2)
    ctl_phase = phase if kind != 2 else phase ^ rng.below(2)
    c = _Ctl(w, ctl_pol, ctl_phase, csh, rng, noise=True)
    c.emit(rng.range(1, 4))
    hmax = rng.choice([1, 1, 2, 4])
    while len(c.rows) < budget:
        nwords = rng.range(1, 4)
        c.wout = rng.bits(w) if rng.chance(80) else c.wout
        c.emit(rng.range(0, 2))
        c.sel = 1
        c.emit(rng.range(0, 3))
        nbits = nwords * w
        pattern = rng.choice([0, 0, 0, 1, 2, 3])
        abort_at = None
        if kind == 1 and rng.chance(70):
            abort_at = rng.range(0, nbits)
        for n in range(nbits):
            if abort_at is not None and n == abort_at:
                # chip select dropped (for one or more cycles) in the middle of the transfer
                c.sel = 0
                c.emit(rng.range(1, 3))
                if rng.chance(50):
                    c.sel = 1            # a glitch: the controller carries on as if nothing happened
                    continue_after = True
                else:
                    continue_after = False
                if not continue_after:
                    break
            b = (rng.below(2), 0, 1, n & 1)[pattern]
            if rng.chance(8):
                c.wout = rng.bits(w)      # application changes word_out in the middle of a word
            c.bit(b, hmax)
        c.emit(rng.range(0, 3))
        c.sel = 0
        if rng.chance(20):
            c.sck = c.pol                 # return the clock to idle
        c.emit(rng.range(1, 5))
        if rng.chance(25):
            # traffic for somebody else while we are deselected
            for _ in range(rng.range(1, 6)):
                c.bit(rng.below(2), hmax)
    return c.rows


def _word(bits, msb):
    v = 0
    if msb:
        for b in bits:
            v = (v << 1) | b
    else:
        for k, b in enumerate(bits):
            v |= b << k
    return v


def monitor(desc, stim, rows):
    """The property on the real trace.  Expected reports: every word_size consecutive sample edges
    while selected form one word, reported exactly once (word_complete for one cycle with word_in =
    the word); in phase-1 modes sdo at the k-th sample edge of a word is bit k (MSB first / LSB first
    per configuration) of the word presented on word_out when the word started."""
    w, pol, phase, msb, csh = desc["w"], desc["pol"], desc["phase"], desc["msb"], desc["csh"]
    fails = []
    tags = set()
    past = 0
    pending = []
    expect = {}        # cycle -> word value that must be reported there
    latched = 0        # word_out captured when tx was (re)loaded
    clean = False      # transaction began with the serial clock idle
    was_sel = False
    words_in_txn = 0
    for t, (sck, sdi, cs, wout) in enumerate(stim):
        sc = sck ^ pol
        lead = (not past) and sc
        trail = past and not sc
        smp = trail if phase else lead
        sel = bool(cs ^ csh)
        o_word_in, o_complete, o_accepted, o_sdo = rows[t]
        if sel:
            if not was_sel:
                clean = (past == 0)
                words_in_txn = 0
            if smp:
                k = len(pending)
                if phase == 1 and clean:
                    want = (latched >> (w - 1 - k)) & 1 if msb else (latched >> k) & 1
                    tags.add("sdo-checked")
                    if o_sdo != want and not any(f["sig"] == "sdo-bit" for f in fails):
                        fails.append({"cycle": t, "sig": "sdo-bit", "what":
                                      "word_size=%d mode=%d%d msb=%d: at sample edge %d of the word sdo=%d but bit of "
                                      "the presented word 0x%x is %d" % (w, pol, phase, msb, k, o_sdo, latched, want)})
                pending.append(sdi)
                if len(pending) == w:
                    expect[t + 2] = _word(pending, msb)
                    pending = []
                    latched = wout
                    words_in_txn += 1
                    tags.add("words-in-txn=%d" % min(words_in_txn, 4))
        else:
            if pending:
                tags.add("abort-mid-word")
            pending = []
            latched = wout
        was_sel = sel
        past = sc
        # ---- reports
        if t in expect:
            if not o_complete:
                fails.append({"cycle": t, "sig": "word-not-reported", "what":
                              "word_size=%d mode=%d%d: word 0x%x completed by the sample edge in cycle %d was not "
                              "reported (word_complete=0)" % (w, pol, phase, expect[t], t - 2)})
                break
            if o_word_in != expect[t]:
                fails.append({"cycle": t, "sig": "word-value", "what":
                              "word_size=%d mode=%d%d msb=%d: reported word 0x%x, sampled bits form 0x%x"
                              % (w, pol, phase, msb, o_word_in, expect[t])})
                break
        elif o_complete:
            fails.append({"cycle": t, "sig": "word-spurious", "what":
                          "word_size=%d mode=%d%d: word_complete without %d new sample edges (word_in=0x%x)"
                          % (w, pol, phase, w, o_word_in)})
            break
    return fails, tags


def run_case(desc):
    from luna.gateware.interface.spi import SPIDeviceInterface
    w = desc["w"]
    dut = SPIDeviceInterface(word_size=w, clock_polarity=desc["pol"], clock_phase=desc["phase"],
                             msb_first=bool(desc["msb"]), cs_idles_high=bool(desc["csh"]))
    stim = desc.get("stimulus") or make_stimulus(desc, Rng(desc["seed"]))
    ins = [dut.spi.sck, dut.spi.sdi, dut.spi.cs, dut.word_out]
    outs = [dut.word_in, dut.word_complete, dut.word_accepted, dut.spi.sdo]
    rows = sim.run_cycles(dut, ins, outs, stim, domain="sync")
    fails, tags = monitor(desc, stim, rows)
    tags |= {"w=%d" % w if w in WORD_SIZES else "w=other", "mode=%d%d" % (desc["pol"], desc["phase"]),
             "msb=%d" % desc["msb"], "csh=%d" % desc["csh"], "kind=%d" % desc["kind"]}
    return Case([w, desc["pol"], desc["phase"], desc["msb"], desc["csh"], 1], stim, rows, fails, sorted(tags), desc,
                ["sck", "sdi", "cs", "word_out"], ["word_in", "word_complete", "word_accepted", "sdo"])
