"""Shared machinery of C20 / C57 (whole USB2 device, all endpoints, at transaction level + cycle-level monitor).

Built on harness/common/devharness.py (imported, not copied) and harness/props/dev_ctl.py (the control-transfer
host).  Adds

* `TraceHarness`    DevHarness that also records, for every clock cycle, rx_active, the UTMI transmit signals and
                    the `tx.valid`/`tx.data` of the three transmitters behind the UTMIInterfaceMultiplexer
                    (reset sequencer, data packet generator, handshake generator);
* `SerialHarness`   the same around the real `USBSerialDevice(bus=UTMIInterface(), …)` (C57);
* `FullHost`        adaptive LegalHost that mixes control transfers with bulk IN / bulk OUT / status-endpoint
                    transactions (retries after lost packets, lost handshakes, overflow, PING, clear-halt,
                    traffic of other devices in between);
* `cycle_monitor`   C20 stated on the cycle trace;
* `full_rows`       event rows / expected outputs for the Lean full-device model (Driver/C20.lean, C57.lean).
"""
from harness.common import devharness as DH
from harness.common import usbref as U
from harness.props import dev_ctl

S, I, O, P = U.PID_SETUP, U.PID_IN, U.PID_OUT, U.PID_PING
D0, D1 = U.PID_DATA0, U.PID_DATA1
ACK, NAK, STALL = U.PID_ACK, U.PID_NAK, U.PID_STALL

KIND_CODE = {"in": 0, "out": 1, "sig": 2}
NAMES_OUT = ["legal", "address", "configuration", "resp_kind", "resp_pid", "resp_len", "delivered_count"] + \
            ["var%d" % i for i in range(256)]

# response window in clock cycles (= full-speed bit times at 12 MHz) after rx_active fell: the host waits at least 16 bit
# times before it declares a time-out (USB 2.0 7.1.19); latencies observed on the real device: 4..8, see notes/C20.md
RESPONSE_WINDOW = 16


# ----------------------------------------------------------------------------- harnesses
class _Ctx:
    """Testbench context proxy: samples the extra observation points after the inputs of the cycle have been
    set and before the clock edge (the framework's sampling discipline)."""

    def __init__(self, ctx, owner):
        self._c, self._o = ctx, owner

    def set(self, sig, v):
        return self._c.set(sig, v)

    def get(self, sig):
        return self._c.get(sig)

    async def tick(self, domain):
        self._o._sample(self._c)
        return await self._c.tick(domain)


class TraceHarness(DH.DevHarness):
    TX_SOURCES = ("reset_sequencer", "transmitter", "handshake_generator")     # order of tx_multiplexer.add_input
    DEV_PATH = ("dev",)

    def __init__(self, spec, timing_rng=None):
        super().__init__(spec, timing_rng)
        self._find_sources()
        self.trace = []          # per cycle: (rx_active, tx_valid, tx_ready, tx_data, (v0, v1, v2), (d0, d1, d2))

    def _find_sources(self):
        self.src_valid = [self.signal("valid", self.DEV_PATH + (n,), registered=False) for n in self.TX_SOURCES]
        self.src_data = []
        for n in self.TX_SOURCES:
            try:
                self.src_data.append(self.signal("data", self.DEV_PATH + (n,), registered=None))
            except LookupError:
                self.src_data.append(None)

    def signal(self, name, path=None, registered=True):
        if registered is None:       # any driver domain
            c = [s for p, d, s in self._index.get(name, []) if path is None or p == tuple(path)]
            c = [s for i, s in enumerate(c) if not any(s is q for q in c[:i])]
            if len(c) != 1:
                raise LookupError("signal %s at %s: %d candidates" % (name, path, len(c)))
            return c[0]
        return super().signal(name, path, registered)

    def _sample(self, ctx):
        u = self.utmi
        self.trace.append((ctx.get(u.rx_active), ctx.get(u.tx_valid), ctx.get(u.tx_ready), ctx.get(u.tx_data),
                           tuple(ctx.get(s) for s in self.src_valid),
                           tuple((ctx.get(s) if s is not None else None) for s in self.src_data)))

    async def _tick(self, ctx, rx=(0, 0, 0), line_state=None):
        return await super()._tick(_Ctx(ctx, self), rx, line_state)


class _Shim:
    def __init__(self, stream):
        self.stream = stream


class SerialHarness(TraceHarness):
    """TraceHarness around the real `USBSerialDevice`.  spec = {"mps": 64, "strings": [manufacturer, product, serial]}.
    The stream events use endpoint number 4: produce -> `tx`, consume -> `rx`."""
    DEV_PATH = ("dev", "usb")

    def __init__(self, spec, timing_rng=None):
        from amaranth import Module, ClockDomain
        from amaranth.hdl import Fragment
        from amaranth.sim import Simulator
        from luna.gateware.interface.utmi import UTMIInterface
        from luna.gateware.usb.devices.acm import USBSerialDevice
        self.spec = spec
        self.rng = timing_rng
        self.utmi = UTMIInterface()
        st = spec.get("strings", ["LUNA", "USB-to-serial", ""])
        self.dev = USBSerialDevice(bus=self.utmi, idVendor=spec.get("vid", 0x16d0), idProduct=spec.get("pid", 0x0f3b),
                                   manufacturer_string=st[0], product_string=st[1], serial_number=st[2],
                                   max_packet_size=spec.get("mps", 64))
        self.descriptors = self.dev.create_descriptors()
        self.endpoints = {("in", 4): _Shim(self.dev.tx), ("out", 4): _Shim(self.dev.rx)}
        top = Module()
        top.domains.usb = ClockDomain()
        top.submodules.dev = self.dev
        self.fragment = Fragment.get(top, None)
        self._index = {}
        self._walk(self.fragment, ())
        self.address = self.signal("address", self.DEV_PATH)
        self.configuration = self.signal("configuration", self.DEV_PATH)
        self.probe_signals = []
        self.sim = Simulator(self.fragment)
        self.sim.add_clock(1.0 / 12e6, domain="usb")
        self.cycle = 0
        self.tx_rows = []
        self.log = []
        self._rx = (0, 0, 0)
        self._ls = None
        self._ready = None
        self._find_sources()
        self.trace = []


def run_guarded(h, script):
    """h.run(script), but a transmission that never ends (DevHarness gives up after 6000 cycles) is reported as
    (log, pending_event) instead of an exception: it is a verdict about the device, not an infrastructure problem."""
    pending = [None]
    inner = script if callable(script) else (lambda _h: iter(list(script)))

    def wrapped(_h):
        g = inner(_h)
        try:
            ev = next(g)
            while True:
                pending[0] = ev
                res = yield ev
                pending[0] = None
                ev = g.send(res) if hasattr(g, "send") else next(g)
        except StopIteration:
            return

    try:
        h.run(wrapped)
    except RuntimeError as e:
        if "does not end" not in str(e):
            raise
        return h.log, pending[0]
    return h.log, None


def hang_case(cfg, h, pending, desc, tags, prefix="c20"):
    """The monitor-only Case for a device whose transmission never ended."""
    from harness.common.framework import Case
    inputs = [DH.encode_event(r.event) for r in h.log] + [DH.encode_event(pending)]
    fail = {"cycle": len(h.log), "sig": prefix + "-transmission-does-not-end",
            "what": "event %d %r: tx_valid is still high 6000 cycles later" % (len(h.log), pending)}
    return Case(cfg, inputs, [[None]] * len(inputs), [fail], sorted(tags) + ["hang"], desc, ["event…"], NAMES_OUT, lean=False)


def serial_descriptor_table(spec):
    """[[type, index, [bytes]], …] of the real USBSerialDevice (through its own create_descriptors)."""
    from luna.gateware.interface.utmi import UTMIInterface
    from luna.gateware.usb.devices.acm import USBSerialDevice
    st = spec.get("strings", ["LUNA", "USB-to-serial", ""])
    dev = USBSerialDevice(bus=UTMIInterface(), idVendor=spec.get("vid", 0x16d0), idProduct=spec.get("pid", 0x0f3b),
                          manufacturer_string=st[0], product_string=st[1], serial_number=st[2],
                          max_packet_size=spec.get("mps", 64))
    out = []
    for type_number, index, raw in dev.create_descriptors():
        out.append([int(type_number), int(index), list(bytes(raw))])
    return out


# ----------------------------------------------------------------------------- configuration rows for Lean
def ep_cfg_ints(eps):
    out = [len(eps)]
    for e in eps:
        kind, num = e[0], e[1]
        if kind == "in":
            out += [0, num, e[2], 0, 0]
        elif kind == "out":
            out += [1, num, e[2], (e[3] if len(e) > 3 else 2 * e[2] - 1), 0]
        else:
            out += [2, num, 0, 0, e[2]]
    return out


def cfg_ints_full(spec, acm=False):
    """`# 1 acm nEps (kind num mps depth width)* <DevConfig>`"""
    return [1, int(acm)] + ep_cfg_ints(spec["eps"]) + dev_ctl.cfg_ints(spec)


def full_rows(log, legal_flag=True):
    """(inputs, outputs) for the Lean full-device model from a DevHarness event log."""
    inputs, outputs = [], []
    for r in log:
        ev = r.event
        inputs.append(DH.encode_event(ev))
        enc = r.resp.encode()               # [kind, pid, len, bytes…]
        if r.resp.kind == DH.RESP_GARBAGE:
            enc = [DH.RESP_GARBAGE, 0, 0]
        count, items = 0, []
        if ev[0] == "produce":
            count = r.delivered
        elif ev[0] == "consume":
            count = len(r.delivered)
            for (b, f, l) in r.delivered:
                items += [b, l, f]
        outputs.append([1 if legal_flag else None, r.address, r.configuration] + enc[:3] + [count] + enc[3:] + items)
    return inputs, outputs


# ----------------------------------------------------------------------------- the host
class FullHost(dev_ctl.Host):
    """LegalHost for a device with bulk IN / bulk OUT / status endpoints: every transaction kind of dev_ctl.Host
    plus endpoint-centred transfers.  `self.app` mirrors what the application has been given / has taken, for the
    monitors of C57."""

    def __init__(self, rng, spec, profile, tags, p_ctrl=30):
        super().__init__(rng, spec, profile, tags)
        self.p_ctrl = p_ctrl
        self.sig_eps = [e for e in spec["eps"] if e[0] == "sig"]
        self.fill = {}                 # OUT endpoint number -> bytes accepted by the device and not yet consumed

    def bus_reset(self):
        """A bus reset clears address and configuration only; the endpoints' data toggles and buffers survive
        it (nothing in the gateware resets them), so the host keeps its own toggles too."""
        self.tag("reset")
        yield ["reset"]
        self.addr = 0

    def other_device(self):
        rng = self.rng
        oa = rng.choice([a for a in (1, 5, 33, 77, 127, 0) if a != self.addr])
        self.tag("other-device")
        if rng.chance(60):
            yield ["tok", I, oa, rng.choice([0, 1, 2, 4])]
            if rng.chance(80):
                yield ["data", rng.choice([D0, D1]), rng.bytes(rng.choice([0, 2, 8, 18, 64])), 1]
                if rng.chance(85):
                    yield ["hs", ACK]
        else:
            yield ["tok", O, oa, rng.choice([0, 1, 2, 4])]
            yield ["data", rng.choice([D0, D1]), rng.bytes(rng.choice([0, 8, 3, 64])), 1]

    def between_one(self):
        rng = self.rng
        k = rng.weighted([(4, "other"), (2, "sof"), (1, "raw"), (1, "quiet"), (2, "noep")])
        if k == "other":
            yield from self.other_device()
        elif k == "sof":
            yield ["sof", rng.below(2048)]
        elif k == "raw":
            yield ["raw", self.raw_packet()]
        elif k == "noep":
            used = [x[1] for x in self.spec["eps"]]
            ep = rng.choice([e for e in range(1, 16) if e not in used])
            yield ["tok", I, self.addr, ep]
        else:
            yield ["quiet"]

    def between(self):
        """traffic between two transactions of a transfer"""
        while self.rng.chance(25):
            yield from self.between_one()

    def in_poll(self, e):
        """one IN transaction on a stream IN endpoint"""
        rng = self.rng
        ep, mps = e[1], e[2]
        r = yield ["tok", I, self.addr, ep]
        if r.resp.is_data:
            if len(r.resp.payload) == 0:
                self.tag("bulk-in:zlp")
            if len(r.resp.payload) == mps:
                self.tag("bulk-in:full-packet")
            h = rng.weighted([(78, "ack"), (8, "lost"), (6, "corrupt"), (4, "nak"), (4, "retok")])
            if h == "ack":
                yield ["hs", ACK]
            elif h == "lost":
                self.tag("bulk-in:lost")
                yield ["quiet"]
                if rng.chance(60):
                    yield from self.other_device()          # the ACK of another device must not count
            elif h == "corrupt":
                yield ["raw", [0xD2 ^ (1 << rng.below(8))]]
            elif h == "nak":
                yield ["hs", NAK]
            # "retok": the host just goes on
            return True
        if r.resp.is_hs(NAK):
            self.tag("bulk-in:nak")
        return False

    def bulk_in(self, e):
        """feed the stream and poll until the host has everything (or gives up)"""
        rng = self.rng
        ep, mps = e[1], e[2]
        self.tag("bulk-in")
        for _ in range(rng.choice([1, 1, 2, 3])):
            n = rng.choice([1, 2, mps - 1, mps, mps, mps + 1, 2 * mps, 2 * mps + 3, 5, 0])
            if n:
                r = yield ["produce", ep, rng.bytes(n), int(rng.chance(75))]
                if r.delivered < n:
                    self.tag("bulk-in:backpressure")
            if rng.chance(30):
                yield from self.between()
        for _ in range(rng.choice([1, 2, 3, 5, 8])):
            got = yield from self.in_poll(e)
            if not got and rng.chance(50):
                break
            yield from self.between()

    def out_packet(self, e, n=None):
        """one OUT transfer step (a packet, retransmitted until the host has seen it ACKed, at most 3 times).
        The host keeps the count of bytes accepted and not yet consumed and mostly sends what fits into the
        endpoint's FIFO; one time in three it does not care (the packet is then NAKed and discarded)."""
        rng = self.rng
        ep, mps = e[1], e[2]
        depth = e[3] if len(e) > 3 else 2 * mps - 1
        if n is None:
            n = rng.choice([0, 1, 2, mps - 1, mps, mps, mps, 7])
        room = depth - self.fill.get(ep, 0)
        if n > room and rng.chance(33):
            self.tag("bulk-out:overflow")
        elif n > room:
            if rng.chance(60):
                r = yield ["consume", ep, rng.choice([n, mps, 2 * mps, 300])]
                self.fill[ep] = self.fill.get(ep, 0) - len(r.delivered)
                room = depth - self.fill.get(ep, 0)
            if n > room:
                self.tag("bulk-out:no-room")
                n = rng.choice([0, room])
        payload = rng.bytes(n)
        t = self.toggle.get(ep, 0)
        accepted = False
        for _try in range(3):
            yield ["tok", O, self.addr, ep]
            ok = int(rng.chance(90))
            r = yield ["data", D1 if t else D0, payload, ok]
            if r.resp.is_hs(ACK):
                if not accepted:
                    accepted = True
                    self.fill[ep] = self.fill.get(ep, 0) + n
                if rng.chance(10):
                    self.tag("bulk-out:ack-lost")          # host missed the ACK: resend with the same toggle
                    continue
                break
            if r.resp.is_hs(NAK):
                self.tag("bulk-out:nak")
            if rng.chance(30):
                yield from self.between()
        if accepted:
            self.toggle[ep] = t ^ 1

    def bulk_out(self, e):
        rng = self.rng
        ep, mps = e[1], e[2]
        self.tag("bulk-out")
        for _ in range(rng.choice([1, 2, 3, 4, 6])):
            if rng.chance(8):
                self.tag("ping")
                yield ["tok", P, self.addr, ep]
            yield from self.out_packet(e)
            if rng.chance(35):
                r = yield ["consume", ep, rng.choice([1, 3, mps, mps + 1, 300])]
                self.fill[ep] = self.fill.get(ep, 0) - len(r.delivered)
            yield from self.between()

    def foreign(self):
        """traffic between the stages of a control transfer (overrides dev_ctl.Host.foreign: same idea, but the
        bulk OUT packets are tracked so that they always fit)"""
        rng = self.rng
        k = rng.weighted([(4, "in"), (4, "out"), (2, "sig"), (6, "between")])
        if k == "in" and self.stream_in:
            self.tag("foreign:bulk_in")
            e = rng.choice(self.stream_in)
            if rng.chance(60):
                yield ["produce", e[1], rng.bytes(rng.choice([1, 3, e[2], e[2] - 1])), int(rng.chance(80))]
            yield from self.in_poll(e)
        elif k == "out" and self.out_eps:
            self.tag("foreign:bulk_out")
            yield from self.out_packet(rng.choice(self.out_eps))
        elif k == "sig" and self.sig_eps:
            self.tag("foreign:status")
            e = rng.choice(self.sig_eps)
            r = yield ["tok", I, self.addr, e[1]]
            if r.resp.is_data and rng.chance(80):
                yield ["hs", ACK]
        else:
            yield from self.between_one()

    def poll_status(self, e):
        rng = self.rng
        self.tag("status-poll")
        for _ in range(rng.choice([1, 2, 3])):
            if rng.chance(60):
                yield ["signal", e[1], rng.below(1 << e[2])]
            r = yield ["tok", I, self.addr, e[1]]
            if r.resp.is_data:
                h = rng.weighted([(75, "ack"), (15, "lost"), (10, "corrupt")])
                if h == "ack":
                    yield ["hs", ACK]
                elif h == "lost":
                    yield ["quiet"]
                else:
                    yield ["raw", [0xD2 ^ (1 << rng.below(8))]]
            yield from self.between()

    def clear_halt(self):
        rng = self.rng
        eps = self.spec["eps"]
        if not eps:
            return
        e = rng.choice(eps)
        self.tag("clear-halt")
        idx = e[1] | (0x80 if e[0] in ("in", "sig") else 0)
        yield ["tok", S, self.addr, 0]
        r = yield ["data", D0, DH.setup_bytes(0x02, 1, 0, idx, 0), 1]
        if not r.resp.is_hs(ACK):
            return
        yield from self.between()
        r = yield ["tok", I, self.addr, 0]
        if r.resp.is_data:
            yield ["hs", ACK]
            if e[0] == "out":
                self.toggle[e[1]] = 0

    def script(self, n_steps):
        rng = self.rng
        for _ in range(n_steps):
            if rng.chance(2):
                yield from self.bus_reset()
            k = rng.weighted([(self.p_ctrl, "ctrl"), (30, "in"), (30, "out"), (10, "sig"), (6, "halt"), (8, "between")])
            if k == "ctrl":
                yield from self.control_transfer()
            elif k == "in" and self.stream_in:
                yield from self.bulk_in(rng.choice(self.stream_in))
            elif k == "out" and self.out_eps:
                yield from self.bulk_out(rng.choice(self.out_eps))
            elif k == "sig" and self.sig_eps:
                yield from self.poll_status(rng.choice(self.sig_eps))
            elif k == "halt":
                yield from self.clear_halt()
            else:
                yield from self.between()


# ----------------------------------------------------------------------------- C20 on the cycle trace
def tx_packets(trace):
    """[(first_cycle, last_cycle, [bytes], sources_per_cycle)] of every maximal run of tx_valid."""
    out, cur = [], None
    for t, (_ra, v, rdy, d, sv, _sd) in enumerate(trace):
        if v:
            if cur is None:
                cur = [t, t, [], []]
            cur[1] = t
            if rdy:
                cur[2].append(d)
            cur[3].append(sv)
        elif cur is not None:
            out.append(tuple(cur))
            cur = None
    if cur is not None:
        out.append(tuple(cur))
    return out


def host_packets(trace, log):
    """[(end_cycle, event_index)] for every rx_active burst: end_cycle = first cycle with rx_active low again."""
    starts = [r.start_cycle for r in log]
    out = []
    k = 0
    prev = 0
    for t, row in enumerate(trace):
        ra = row[0]
        if prev and not ra:
            while k + 1 < len(starts) and starts[k + 1] <= t - 1:
                k += 1
            out.append((t, k))
        prev = ra
    return out


def cycle_monitor(trace, log, window=RESPONSE_WINDOW):
    """C20 on the real device's cycle trace.  `log[k].start_cycle` is counted from the harness' cycle counter,
    which starts 4 cycles (the reset lead-in of DevHarness.run) after trace[0]."""
    fails = []
    tags = set()

    def fail(t, sig, what):
        if len(fails) < 5:
            fails.append({"cycle": t, "sig": sig, "what": what})

    # the harness' cycle counter and the trace index coincide (both count _tick calls)
    pkts = tx_packets(trace)
    hps = host_packets(trace, log)
    # (1) never while a received packet is in progress
    for t, row in enumerate(trace):
        if row[0] and row[1]:
            fail(t, "c20-tx-during-rx", "tx_valid and rx_active are both high in cycle %d" % t)
            break
    # (2) well-formed, (3) single source
    for (t0, t1, data, srcs) in pkts:
        if not data:
            fail(t0, "c20-empty-transmission", "tx_valid was raised in cycles %d..%d but no byte was transferred" % (t0, t1))
            continue
        pid = data[0]
        if not U.pid_ok(pid):
            fail(t0, "c20-bad-pid-check", "packet %r starts with %#x whose check nibble is wrong" % (data, pid))
        elif (pid & 0xF) in DH.HS_PIDS:
            tags.add("tx:hs%d" % (pid & 0xF))
            if len(data) != 1:
                fail(t0, "c20-long-handshake", "handshake packet with %d bytes: %r" % (len(data), data))
        elif (pid & 0xF) in DH.DATA_PIDS:
            tags.add("tx:data len%s" % (len(data) - 3 if len(data) - 3 < 2 else ("=64" if len(data) == 67 else ">1")))
            if len(data) < 3:
                fail(t0, "c20-short-data", "data packet with %d bytes: %r" % (len(data), data))
            else:
                c = U.usb2_crc16(data[1:-2])
                if [c & 0xFF, c >> 8] != data[-2:]:
                    fail(t0, "c20-bad-crc16", "data packet %r: CRC16 should be %02x %02x" % (data, c & 0xFF, c >> 8))
        else:
            fail(t0, "c20-not-handshake-or-data", "the device transmitted a packet with PID %#x: %r" % (pid & 0xF, data))
        owners = {sv for sv in srcs}
        one_hot = [sv for sv in owners if sum(sv) == 1]
        if len(owners) != 1 or len(one_hot) != 1:
            fail(t0, "c20-mixed-sources", "packet in cycles %d..%d: transmitter valid vectors %r (reset, data, handshake)"
                 % (t0, t1, sorted(owners)))
        else:
            tags.add("src:%d" % list(one_hot[0]).index(1))
        # the byte on the bus is the byte of that transmitter
        for t in range(t0, t1 + 1):
            sv, sd = trace[t][4], trace[t][5]
            if sum(sv) == 1 and sd[sv.index(1)] is not None and sd[sv.index(1)] != trace[t][3]:
                fail(t, "c20-mux-data", "cycle %d: tx_data=%#x but the transmitting source drives %#x" % (t, trace[t][3], sd[sv.index(1)]))
                break
    # (4) solicited: preceded, within the response window, by an addressed token / data packet
    used = set()
    for (t0, t1, data, _srcs) in pkts:
        prior = [(te, k) for (te, k) in hps if te <= t0]
        if not prior:
            fail(t0, "c20-unsolicited", "transmission at cycle %d before any host packet" % t0)
            continue
        te, k = prior[-1]
        ev = log[k].event
        addr_before = log[k - 1].address if k > 0 else 0
        ok = False
        if ev[0] == "tok" and ev[2] == addr_before and ev[1] in (I, P):
            ok = True
        elif ev[0] == "data" and k > 0:
            pe = log[k - 1].event
            pa = log[k - 2].address if k > 1 else 0
            if pe[0] == "tok" and pe[1] in (O, S) and pe[2] == pa:
                ok = True
        if not ok:
            fail(t0, "c20-unsolicited", "transmission %r at cycle %d follows host event %d %r, which does not solicit a response"
                 % (data, t0, k, ev))
        elif t0 - te > window:
            fail(t0, "c20-late-response", "transmission %r starts %d cycles after the end of %r (window %d)" % (data, t0 - te, ev, window))
        elif k in used:
            fail(t0, "c20-second-response", "a second packet %r was transmitted in response to event %d %r" % (data, k, ev))
        used.add(k)
        tags.add("latency:%d" % (t0 - te))
    return fails, tags
