"""C56 — IntegratedLogicAnalyzer (luna/gateware/debug/ila.py)."""
from harness.common.framework import Case
from harness.common.rng import Rng
from harness.common import sim

PROP = "C56"
LEAN_MODULES = ["LunaVerif.Props.C56"]
DRIVER = "Driver/C56.lean"
REQUIRED_THEOREMS = ["captures_depth_consecutive_samples", "readback_nth", "trigger_during_capture_ignored",
                     "pretrigger_delay"]
RULE = ("cases = (sample_depth in {1,2,5,32,100} (+3,4,7,8,16,33 thorough), samples_pretrigger 0..3, domain sync/usb, "
        "three captured signals of 1+8+5 bits) x pattern: triggers sparse / held high / bursts / random incl. during "
        "capture; inputs random every cycle or a counter; captured_sample_number sweeps and random reads, also while "
        "capturing (read of a location in the cycle it is written)")
ASSUMPTIONS = ["sample_depth >= 1", "captured_sample_number < sample_depth (addresses beyond a non-power-of-two depth are not driven)"]
PARTIAL = ("only the IntegratedLogicAnalyzer core is modelled and proved; the read-out wrappers (SyncSerialILA, StreamILA, "
           "AsyncSerialILA) are not covered")

WIDTHS = [1, 8, 5]
TOTAL = sum(WIDTHS)


def gen_cases(tier, rng):
    depths = [1, 2, 5, 32, 100] if tier != "thorough" else [1, 2, 3, 4, 5, 7, 8, 16, 32, 33, 100]
    per = {"quick": 5, "widen": 8, "thorough": 20}[tier]
    out = []
    k = 0
    for D in depths:
        for p in (0, 1, 2, 3):
            for _ in range(per):
                out.append({"depth": D, "pre": p, "domain": "usb" if k % 5 == 4 else "sync", "seed": rng.u64(), "k": k})
                k += 1
    return out


def make_stimulus(D, p, rng, k):
    L = 6 * D + 60 + rng.range(0, 20)
    tmode = k % 4
    imode = (k // 4) % 2
    rows = []
    burst = 0
    sweep = 0
    for t in range(L):
        if tmode == 0:
            trig = int(rng.chance(max(1, 100 // (D + 6))))
        elif tmode == 1:
            trig = 1
        elif tmode == 2:
            if burst > 0:
                burst -= 1
                trig = 1
            else:
                trig = 0
                if rng.chance(8):
                    burst = rng.range(1, D + 3)
        else:
            trig = int(rng.chance(40))
        if t < 3 and rng.chance(50):
            trig = 0
        inputs = rng.bits(TOTAL) if imode == 0 else ((t * 37 + 5) & ((1 << TOTAL) - 1))
        if rng.chance(60):
            addr = sweep % D
            sweep += 1
        else:
            addr = rng.below(D)
        rows.append([trig, inputs, addr])
    return rows


def monitor(D, p, stim, rows):
    """The property on the real trace (timeline form)."""
    fails = []

    def fail(t, sig, what):
        fails.append({"cycle": t, "sig": sig, "what": "depth=%d pretrigger=%d cycle %d: %s" % (D, p, t, what)})

    mem = [0] * D            # what the analyzer must hold
    start = None             # first cycle of the capture in progress (cycle after the accepted trigger)
    complete = 0
    rd_expect = 0            # captured_sample of this cycle = location addressed in the previous cycle
    captures = 0
    ignored = 0
    read_during_write = False
    for t, (i, o) in enumerate(zip(stim, rows)):
        trig, addr = i[0] & 1, i[2]
        busy = start is not None and start <= t < start + D
        delayed = stim[t - p][1] if t - p >= 0 else 0
        want_sampling = int(busy)
        if o[0] != want_sampling:
            fail(t, "sampling-window", "sampling=%d, a capture lasts exactly %d cycles after the trigger: requires %d" % (o[0], D, want_sampling))
            break
        if o[1] != complete:
            fail(t, "complete-flag", "complete=%d requires %d" % (o[1], complete))
            break
        if o[2] != rd_expect:
            fail(t, "readback-sample", "captured_sample=%#x, sample %d (addressed in the previous cycle) is %#x"
                 % (o[2], stim[t - 1][2] if t else 0, rd_expect))
            break
        # clock edge at the end of cycle t
        rd_expect = mem[addr] if addr < D else None
        if rd_expect is None:
            rd_expect = o[2]
        if busy:
            n = t - start
            if addr == n:
                read_during_write = True
            mem[n] = delayed           # sample n = the (delayed) inputs of cycle start + n
            if trig:
                ignored += 1
            if n == D - 1:
                complete = 1
        elif trig:
            start = t + 1
            complete = 0
            captures += 1
    return fails, captures, ignored, read_during_write


def run_case(desc):
    from amaranth import Signal
    from luna.gateware.debug.ila import IntegratedLogicAnalyzer
    D, p, dom = desc["depth"], desc["pre"], desc.get("domain", "sync")
    sigs = [Signal(w, name="probe%d" % j) for j, w in enumerate(WIDTHS)]
    dut = IntegratedLogicAnalyzer(signals=sigs, sample_depth=D, samples_pretrigger=p, domain=dom)
    stim = desc.get("stimulus") or make_stimulus(D, p, Rng(desc["seed"]), desc.get("k", 0))
    stim = [[r[0] & 1, r[1] & ((1 << TOTAL) - 1), r[2] % D] for r in stim]
    sim_rows = []
    for r in stim:
        v, fields = r[1], []
        for w in WIDTHS:
            fields.append(v & ((1 << w) - 1))
            v >>= w
        sim_rows.append([r[0]] + fields + [r[2]])
    rows = sim.run_cycles(dut, [dut.trigger] + sigs + [dut.captured_sample_number],
                          [dut.sampling, dut.complete, dut.captured_sample], sim_rows, domain=dom)
    fails, captures, ignored, rdw = monitor(D, p, stim, rows)
    tags = ["depth=%d" % D if D <= 5 else "depth>5", "pre=%d" % p, "domain=" + dom,
            "captures>=2" if captures >= 2 else "captures<2", "trigger-ignored" if ignored else "no-ignored-trigger",
            "read-during-write" if rdw else "no-read-during-write",
            "complete-seen" if any(r[1] for r in rows) else "complete-never"]
    return Case([D, p], stim, rows, fails, tags, desc, ["trigger", "inputs", "captured_sample_number"],
                ["sampling", "complete", "captured_sample"])
